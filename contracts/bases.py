"""Contracts for dimarray/core/bases.py"""
from dverif.contract_base import Contract
from dverif.stubs import stub_of
from .common import absent, assume_order, unique, first_occurrence, in_slice
from . import indexing as ix


def make_axis(S, values, name="x0", **kw):
    return S.da.Axis(values, name, **kw)


class AxisLoc(Contract):
    """AbstractAxis.loc(val, tol): label(s) -> position(s) on one axis.  [C01, C02]
    scalar: position of the label (IndexError iff absent; with tol: nearest iff within tol; tol ignored on
    non-numeric axes); list/array: one position per requested label, IndexError iff some label is absent;
    boolean mask: returned unchanged; slice: slice(istart, istop, step) as specified by LocateSlice."""
    target = "dimarray.core.bases:AbstractAxis.loc"
    props = ("C01", "C02")
    uses = (stub_of(ix.LocateOne, also=("dimarray.core.bases",)),
            stub_of(ix.LocateMany, also=("dimarray.core.bases", "dimarray.core.align")))
    inlined = ("locate_slice and its helpers (slice cases re-verify the body together with loc; its callee locate_one is "
               "used through its contract)", "tools.is_numeric", "Axis.__init__", "_check_axis_values")
    bound_names = ("values.n", "val.n")

    def cases(self, tier):
        for kind in ("f", "i", "O"):
            for order in (("inc", "dec", "unique") if kind != "O" else ("unique",)):
                yield {"name": "scalar-%s-%s" % (kind, order), "val": "scalar", "kind": kind, "order": order, "tol": False}
                yield {"name": "scalar-tol-%s-%s" % (kind, order), "val": "scalar", "kind": kind, "order": order, "tol": True}
                yield {"name": "array-%s-%s" % (kind, order), "val": "array", "kind": kind, "order": order, "tol": False}
                yield {"name": "mask-%s-%s" % (kind, order), "val": "mask", "kind": kind, "order": order, "tol": False}
                for ln in (0, 1, 2):
                    yield {"name": "list%d-tol-%s-%s" % (ln, kind, order), "val": "tollist", "len": ln, "kind": kind, "order": order, "tol": True}
        lsc = ix.LocateSlice()
        for c in lsc.cases(tier):
            if c["kind"] == "f" and c["mode"] == "strict":
                continue       # non-monotonic numeric: reached through locate_slice's own proof, not re-bound here
            d = dict(c)
            d.update(val="slice", name="slice-" + c["name"], order=c["dir"] if c["mode"] == "bbox" else "unique", tol=False)
            yield d

    def bound_lengths(self, case):
        return ["values.n", "val.n"] if case["val"] in ("array", "mask") else ["values.n"]

    def setup(self, S, case):
        values = S.array1d("values", case["kind"])
        assume_order(S, values, case["order"])
        axis = make_axis(S, values)
        tol = S.real("tol") if case["tol"] else None
        lk = "f" if case["kind"] == "i" else case["kind"]
        env = {"values": values, "axis": axis, "tol": tol}
        if case["val"] == "scalar":
            env["val"] = S.label("val", lk)
        elif case["val"] == "array":
            env["val"] = S.array1d("val", case["kind"])
        elif case["val"] == "mask":
            env["val"] = S.array1d("val", "b", n=S.n(values))
        elif case["val"] == "tollist":
            env["val"] = [S.label("val%d" % k, lk) for k in range(case["len"])]
        elif case["val"] == "slice":
            if case["mode"] == "bbox":
                start = S.real("start") if case["has_start"] else None
                stop = S.real("stop") if case["has_stop"] else None
            else:
                start = S.label("start", case["kind"]) if case["has_start"] else None
                stop = S.label("stop", case["kind"]) if case["has_stop"] else None
            env.update(start=start, stop=stop, step=case["step"], val=slice(start, stop, case["step"]))
        env["args"] = (env["val"],)
        env["kwargs"] = {"tol": tol}
        return env

    def call(self, fn, env):
        return env["axis"].loc(*env["args"], **env["kwargs"])

    def _sub(self, case):
        """the callee contract whose spec this case inherits"""
        if case["val"] == "slice":
            return ix.LocateSlice(), case
        numeric = case["kind"] in "fi"
        return ix.LocateOne(), {"name": case["name"], "kind": case["kind"], "tol": bool(case["tol"] and numeric)}

    def raises(self, S, case, env):
        v = env["values"]
        if case["val"] in ("scalar", "slice"):
            sub, sc = self._sub(case)
            e = dict(env)
            if not sc.get("tol", True):
                e["tol"] = None
            return sub.raises(S, sc, e)
        if case["val"] == "array":
            q = env["val"]
            return {IndexError: S.exists(0, S.n(q), lambda j: absent(S, v, S.at(q, j)))}
        if case["val"] == "tollist":
            sub, sc = self._sub(case)
            conds = {}
            for x in env["val"]:
                e = dict(env, val=x)
                if not sc["tol"]:
                    e["tol"] = None
                for E, c in sub.raises(S, sc, e).items():
                    conds.setdefault(E, []).append(c)
            return {E: S.lor(*cs) for E, cs in conds.items()}
        return {}

    def post(self, S, case, env, result):
        v = env["values"]
        n = S.n(v)
        if case["val"] == "scalar":
            sub, sc = self._sub(case)
            e = dict(env)
            if not sc["tol"]:
                e["tol"] = None
            for c in sub.post(S, sc, e, result):
                yield c
        elif case["val"] == "slice":
            yield "is-slice-with-callers-step", isinstance(result, slice) and result.step == case["step"]
            for c in ix.LocateSlice().post(S, case, env, (result.start, result.stop)):
                yield c
        elif case["val"] == "mask":
            yield "mask-returned-unchanged", result is env["val"]
        elif case["val"] == "array":
            q = env["val"]
            m = S.n(q)
            yield "one-position-per-label", S.n(result) == m
            yield "each-position-holds-its-label", S.forall(0, m, lambda j: S.land(
                0 <= S.at(result, j), S.at(result, j) < n,
                S.implies(S.land(0 <= S.at(result, j), S.at(result, j) < n), lambda: S.at(v, S.at(result, j)) == S.at(q, j))))
        elif case["val"] == "tollist":
            sub, sc = self._sub(case)
            yield "one-position-per-label", len(result) == len(env["val"])
            for k, x in enumerate(env["val"]):
                e = dict(env, val=x)
                if not sc["tol"]:
                    e["tol"] = None
                for nm, f in sub.post(S, sc, e, result[k]):
                    yield "%s[%d]" % (nm, k), f

    def canaries(self, S, case, env, result):
        if case["val"] == "scalar":
            yield "always-position-zero", result == 0
        elif case["val"] == "array":
            yield "positions-are-increasing", S.forall2(0, S.n(result), lambda i, j: S.at(result, i) < S.at(result, j))
        elif case["val"] == "mask":
            yield "mask-is-copied", result is not env["val"]
        elif case["val"] == "slice":
            for c in ix.LocateSlice().canaries(S, case, env, (result.start, result.stop)):
                yield c
        elif case["val"] == "tollist" and case["len"]:
            yield "first-position-zero", result[0] == 0
