"""Contracts for dimarray/core/bases.py"""
from dverif.contract_base import Contract
from dverif.stubs import stub_of
from .common import absent, assume_order, unique, first_occurrence, in_slice, selector, slice_count
from . import indexing as ix


def make_axis(S, values, name="x0", **kw):
    return S.da.Axis(values, name, **kw)


class AxisLoc(Contract):
    """AbstractAxis.loc(val, tol): label(s) -> position(s) on one axis.  [C01, C02]
    scalar: position of the label (IndexError iff absent; with tol: nearest iff within tol; tol ignored on
    non-numeric axes); list/array: one position per requested label, IndexError iff some label is absent;
    boolean mask: returned unchanged; slice: slice(istart, istop, step) as specified by LocateSlice."""
    target = "dimarray.core.bases:AbstractAxis.loc"
    props = ("C01", "C02")
    uses = (stub_of(ix.LocateOne, also=("dimarray.core.bases",)),
            stub_of(ix.LocateMany, also=("dimarray.core.bases", "dimarray.core.align")))
    inlined = ("locate_slice and its helpers (slice cases re-verify the body together with loc; its callee locate_one is "
               "used through its contract)", "tools.is_numeric", "Axis.__init__", "_check_axis_values")
    bound_names = ("values.n", "val.n")

    def cases(self, tier):
        for kind in ("f", "i", "O"):
            for order in (("inc", "dec", "unique") if kind != "O" else ("unique",)):
                yield {"name": "scalar-%s-%s" % (kind, order), "val": "scalar", "kind": kind, "order": order, "tol": False}
                yield {"name": "scalar-tol-%s-%s" % (kind, order), "val": "scalar", "kind": kind, "order": order, "tol": True}
                yield {"name": "array-%s-%s" % (kind, order), "val": "array", "kind": kind, "order": order, "tol": False}
                if kind == "i":
                    # labels of ANOTHER kind than the axis: fractional floats requested on an integer axis must be reported
                    # absent, never matched to a truncated label
                    yield {"name": "array-i-floatlabels-%s" % order, "val": "array", "kind": kind, "order": order, "tol": False, "req_kind": "f"}
                yield {"name": "mask-%s-%s" % (kind, order), "val": "mask", "kind": kind, "order": order, "tol": False}
                for ln in (0, 1, 2):
                    yield {"name": "list%d-tol-%s-%s" % (ln, kind, order), "val": "tollist", "len": ln, "kind": kind, "order": order, "tol": True}
        lsc = ix.LocateSlice()
        for c in lsc.cases(tier):
            if c["kind"] == "f" and c["mode"] == "strict" or c["dir"].endswith("-ties"):
                continue       # non-monotonic numeric, monotonic with repeated labels: locate_slice's own proof, not re-bound here
            d = dict(c)
            d.update(val="slice", name="slice-" + c["name"], order=c["dir"] if c["mode"] == "bbox" else "unique", tol=False)
            yield d

    def bound_lengths(self, case):
        return ["values.n", "val.n"] if case["val"] in ("array", "mask") else ["values.n"]

    def setup(self, S, case):
        values = S.array1d("values", case["kind"])
        assume_order(S, values, case["order"])
        axis = make_axis(S, values)
        tol = S.real("tol") if case["tol"] else None
        lk = "f" if case["kind"] == "i" else case["kind"]
        env = {"values": values, "axis": axis, "tol": tol}
        if case["val"] == "scalar":
            env["val"] = S.label("val", lk)
        elif case["val"] == "array":
            env["val"] = S.array1d("val", case.get("req_kind", case["kind"]))
        elif case["val"] == "mask":
            env["val"] = S.array1d("val", "b", n=S.n(values))
        elif case["val"] == "tollist":
            env["val"] = [S.label("val%d" % k, lk) for k in range(case["len"])]
        elif case["val"] == "slice":
            if case["mode"] == "bbox":
                start = S.real("start") if case["has_start"] else None
                stop = S.real("stop") if case["has_stop"] else None
            else:
                start = S.label("start", case["kind"]) if case["has_start"] else None
                stop = S.label("stop", case["kind"]) if case["has_stop"] else None
            env.update(start=start, stop=stop, step=case["step"], val=slice(start, stop, case["step"]))
        env["args"] = (env["val"],)
        env["kwargs"] = {"tol": tol}
        return env

    def call(self, fn, env):
        return env["axis"].loc(*env["args"], **env["kwargs"])

    def _sub(self, case):
        """the callee contract whose spec this case inherits"""
        if case["val"] == "slice":
            return ix.LocateSlice(), case
        numeric = case["kind"] in "fi"
        return ix.LocateOne(), {"name": case["name"], "kind": case["kind"], "tol": bool(case["tol"] and numeric)}

    def raises(self, S, case, env):
        v = env["values"]
        if case["val"] in ("scalar", "slice"):
            sub, sc = self._sub(case)
            e = dict(env)
            if not sc.get("tol", True):
                e["tol"] = None
            return sub.raises(S, sc, e)
        if case["val"] == "array":
            q = env["val"]
            return {IndexError: S.exists(0, S.n(q), lambda j: absent(S, v, S.at(q, j)))}
        if case["val"] == "tollist":
            sub, sc = self._sub(case)
            conds = {}
            for x in env["val"]:
                e = dict(env, val=x)
                if not sc["tol"]:
                    e["tol"] = None
                for E, c in sub.raises(S, sc, e).items():
                    conds.setdefault(E, []).append(c)
            return {E: S.lor(*cs) for E, cs in conds.items()}
        return {}

    def post(self, S, case, env, result):
        v = env["values"]
        n = S.n(v)
        if case["val"] == "scalar":
            sub, sc = self._sub(case)
            e = dict(env)
            if not sc["tol"]:
                e["tol"] = None
            for c in sub.post(S, sc, e, result):
                yield c
        elif case["val"] == "slice":
            yield "is-slice-with-callers-step", isinstance(result, slice) and result.step == case["step"]
            for c in ix.LocateSlice().post(S, case, env, (result.start, result.stop)):
                yield c
        elif case["val"] == "mask":
            yield "mask-returned-unchanged", result is env["val"]
        elif case["val"] == "array":
            q = env["val"]
            m = S.n(q)
            yield "one-position-per-label", S.n(result) == m
            yield "each-position-holds-its-label", S.forall(0, m, lambda j: S.land(
                0 <= S.at(result, j), S.at(result, j) < n,
                S.implies(S.land(0 <= S.at(result, j), S.at(result, j) < n), lambda: S.at(v, S.at(result, j)) == S.at(q, j))))
        elif case["val"] == "tollist":
            sub, sc = self._sub(case)
            yield "one-position-per-label", len(result) == len(env["val"])
            for k, x in enumerate(env["val"]):
                e = dict(env, val=x)
                if not sc["tol"]:
                    e["tol"] = None
                for nm, f in sub.post(S, sc, e, result[k]):
                    yield "%s[%d]" % (nm, k), f

    def canaries(self, S, case, env, result):
        if case["val"] == "scalar":
            yield "always-position-zero", result == 0
        elif case["val"] == "array":
            yield "positions-are-increasing", S.forall2(0, S.n(result), lambda i, j: S.at(result, i) < S.at(result, j))
        elif case["val"] == "mask":
            yield "mask-is-copied", result is not env["val"]
        elif case["val"] == "slice":
            for c in ix.LocateSlice().canaries(S, case, env, (result.start, result.stop)):
                yield c
        elif case["val"] == "tollist" and case["len"]:
            yield "first-position-zero", result[0] == 0


# --------------------------------------------------------------------------
# AxisLoc as a callee contract (used while verifying _get_indices)
# --------------------------------------------------------------------------

def _axisloc_bind(self_axis, val, tol=None, issorted=False, mode="raise"):
    from .common import order_of
    if issorted or mode != "raise":
        raise NotImplementedError("issorted / mode")
    values = self_axis.values
    kind = values.dtype.kind
    order = order_of(values)
    if order is None:
        raise NotImplementedError("axis without an order tag")
    tolv = tol or getattr(self_axis, "_tol", None)
    if tolv is not None and kind not in "fi":
        tolv = None            # AxisLoc's own contract: a tolerance is ignored on non-numeric axes
    case = {"name": "bound", "kind": kind, "order": order, "tol": tolv is not None}
    env = {"values": values, "axis": self_axis, "tol": tolv, "val": val}
    if type(val) is slice:
        if order in ("inc", "dec") and kind in "fi":
            case.update(mode="bbox", dir=order)
        elif kind == "O" and order == "unique":
            case.update(mode="strict", dir="shuffled")
        else:
            raise NotImplementedError("slice on a %s axis tagged %s" % (kind, order))
        if val.step not in ix.STEPS:
            raise NotImplementedError("step")
        case.update(val="slice", step=val.step, has_start=val.start is not None, has_stop=val.stop is not None)
        env.update(start=val.start, stop=val.stop, step=val.step)
    elif hasattr(val, "dtype") and getattr(val, "ndim", 0) == 1:
        case["val"] = "mask" if val.dtype.kind == "b" else "array"
        if case["val"] == "array" and tolv is not None:
            from dverif.sym import conc
            ln = conc(val._shape[0])
            if ln is None or kind not in "fi":
                raise NotImplementedError("array of symbolic length with tolerance")
            case.update(val="tollist", len=ln)
            env["val"] = [val[k] for k in range(ln)]
    elif isinstance(val, (list, tuple)):
        raise NotImplementedError("python list")
    elif val is None:
        raise NotImplementedError("None label")
    else:
        case["val"] = "scalar"
    return case, env


def _axisloc_fresh(self, S, case, env):
    f = env["_fresh"]
    if case["val"] == "scalar":
        return S.fresh_int(f + ".pos")
    if case["val"] == "array":
        return S.fresh_array1d(f + ".pos", "I", S.n(env["val"]))
    if case["val"] == "mask":
        return env["val"]
    if case["val"] == "slice":
        return slice(S.fresh_int(f + ".istart"), S.fresh_int(f + ".istop"), case["step"])
    if case["val"] == "tollist":
        return [S.fresh_int("%s.pos%d" % (f, k)) for k in range(case["len"])]
    raise NotImplementedError(case["val"])


AxisLoc.bind = staticmethod(_axisloc_bind)
AxisLoc.fresh_result = _axisloc_fresh


def axisloc_requires(self, S, case, env):
    v = env["values"]
    from .common import strictly_increasing, strictly_decreasing
    if case["order"] == "inc":
        yield "increasing", strictly_increasing(S, v)
    elif case["order"] == "dec":
        yield "decreasing", S.land(strictly_decreasing(S, v), S.n(v) >= 2)
    elif case["order"] == "unique":
        yield "unique", unique(S, v)


AxisLoc.requires = axisloc_requires


# --------------------------------------------------------------------------
# symbolic DimArrays for object-level contracts
# --------------------------------------------------------------------------

DIM_KINDS = ("f", "O", "i", "f")        # label kind of dimension 0, 1, 2, 3


def make_dimarray(S, rank, orders=None, prefix="", data_kind="f", kinds=None, attrs=None):
    """a well-formed DimArray of the given rank with symbolic extents, labels and data"""
    axes = []
    labels = []
    for d in range(rank):
        kind = (kinds or DIM_KINDS)[d]
        order = (orders or {}).get(d, "unique")
        L = S.array1d("%slab%d" % (prefix, d), kind)
        assume_order(S, L, order)
        labels.append(L)
        axes.append(S.da.Axis(L, "%sx%d" % (prefix, d)))
    data = S.arraynd(prefix + "data", data_kind, tuple(S.n(L) for L in labels))
    arr = S.da.DimArray(data, axes=axes)
    if attrs:
        arr.attrs.update(attrs)
    return arr, labels, data


INDEX_KINDS = ("full", "scalar", "array", "mask", "slice", "slice-rev")
TOL_KINDS = ("scalar-tol",)      # a scalar label looked up with tol= (numeric axes: nearest within tol)


def make_index(S, kind, labels_d, lkind, d, position=False, tol=None):
    """-> (index object, AxisLoc-case, AxisLoc-env) for one dimension"""
    n = S.n(labels_d)
    nm = "ix%d" % d
    lk = "f" if lkind == "i" else lkind
    if kind == "full":
        return slice(None), None, None
    if position:
        if kind == "scalar":
            p = S.int(nm)
            return p, {"val": "scalar"}, {"val": p}
        if kind == "array":
            q = S.array1d(nm, "I")
            return q, {"val": "array"}, {"val": q}
        if kind == "mask":
            m = S.array1d(nm, "b", n=n)
            return m, {"val": "mask"}, {"val": m}
        if kind in ("slice", "slice-rev"):
            a, b = S.int(nm + ".start"), S.int(nm + ".stop")
            step = None if kind == "slice" else -1
            return slice(a, b, step), {"val": "slice", "step": step}, {"start": a, "stop": b, "step": step}
    order = {"slice": "inc", "slice-rev": "inc"}.get(kind, "unique") if lkind != "O" else "unique"
    case = {"name": "dim%d" % d, "kind": lkind, "order": order, "tol": False}
    env = {"values": labels_d, "tol": None}
    if kind == "tollist":
        # a LIST of labels with tol= : Axis.loc answers with a Python list of positions (not an ndarray)
        env["val"] = [S.label("%s.%d" % (nm, k), lk) for k in range(2)]
        env["tol"] = tol
        case.update(val="tollist", len=2, tol=True)
    elif kind == "scalar-tol":
        env["val"] = S.label(nm, lk)
        env["tol"] = tol
        case.update(val="scalar", tol=True)
    elif kind == "scalar":
        env["val"] = S.label(nm, lk)
        case["val"] = "scalar"
    elif kind == "array":
        env["val"] = S.array1d(nm, "f" if lkind == "i" else lkind)     # on an int axis: labels of float kind (a superset of int requests)
        case["val"] = "array"
    elif kind == "mask":
        env["val"] = S.array1d(nm, "b", n=n)
        case["val"] = "mask"
    else:
        step = None if kind == "slice" else -1
        if lkind == "O":
            a, b = S.strlabel(nm + ".start"), S.strlabel(nm + ".stop")
            case.update(mode="strict", dir="shuffled")
        else:
            a, b = S.real(nm + ".start"), S.real(nm + ".stop")
            case.update(mode="bbox", dir="inc")
        env.update(start=a, stop=b, step=step, val=slice(a, b, step))
        case.update(val="slice", step=step, has_start=True, has_stop=True)
    return env["val"], case, env


def index_orders(kinds_per_dim):
    """axis order needed by each dimension's index kind (label slices need a monotonic numeric axis)"""
    out = {}
    for d, k in enumerate(kinds_per_dim):
        if k in ("slice", "slice-rev") and DIM_KINDS[d] != "O":
            out[d] = "inc"
    return out


class GetIndices(Contract):
    """AbstractHasAxes._get_indices(indices, axis, indexing, tol): an N-d tuple of per-dimension position
    indexers.  Entry d is what AxisLoc specifies for the index addressed to dimension d (by tuple position,
    by name, by integer key, or through axis=), full slices for unaddressed dimensions, and the index
    itself in position mode, for boolean masks and for full slices.  [C01, C02, C03]"""
    target = "dimarray.core.bases:AbstractHasAxes._get_indices"
    props = ("C01", "C02", "C03")
    uses = (stub_of(AxisLoc),)
    inlined = ("expanded_indexer (own contract: ExpandedIndexer)", "AbstractHasAxes.dims", "get_option")

    def cases(self, tier):
        import itertools
        maxrank = 2 if tier == "quick" else 3
        for rank in range(0, maxrank + 1):
            for kinds in itertools.product(INDEX_KINDS, repeat=rank):
                nonfull = [d for d, k in enumerate(kinds) if k != "full"]
                spellings = ["tuple", "dict-name", "dict-pos"]
                if len(nonfull) == 1:
                    spellings += ["axis-name", "axis-pos"]
                if rank >= 1 and all(k == "full" for k in kinds[1:]) and kinds[0] != "full":
                    spellings += ["bare"]
                for sp in spellings:
                    for mode in ("label", "position"):
                        if mode == "position" and sp not in ("tuple", "dict-name"):
                            continue
                        if sp in ("axis-name", "axis-pos") and nonfull == [0]:
                            continue      # axis=0 / axis='x0' with the first dimension is the default spelling
                        yield {"name": "r%d-%s-%s-%s" % (rank, "+".join(kinds) or "none", sp, mode), "rank": rank,
                               "kinds": list(kinds), "spelling": sp, "indexing": mode}
        for kinds in (["tollist"], ["tollist", "tollist"], ["tollist", "full"], ["scalar-tol", "tollist"]):
            yield {"name": "r%d-%s-tuple-label-tol" % (len(kinds), "+".join(kinds)), "rank": len(kinds), "kinds": kinds,
                   "spelling": "tuple", "indexing": "label", "tol": True}
        for rank in (1, 2):
            for d in range(rank):
                kinds = ["full"] * rank
                kinds[d] = "scalar-tol"
                for sp in ("tuple", "dict-name"):
                    yield {"name": "r%d-%s-%s-label-tol" % (rank, "+".join(kinds), sp), "rank": rank, "kinds": kinds,
                           "spelling": sp, "indexing": "label", "tol": True}
        # where the indexing mode comes from: explicit argument, else the array's own mode, else the global option
        for arg, own, opt, eff in ((None, None, "label", "label"), (None, None, "position", "position"),
                                   (None, "position", "label", "position"), (None, "label", "position", "label"),
                                   ("label", "position", "position", "label"), ("position", "label", "label", "position")):
            for kind in ("scalar", "array"):
                yield {"name": "r1-%s-config-arg_%s-own_%s-option_%s" % (kind, arg, own, opt), "rank": 1, "kinds": [kind],
                       "spelling": "tuple", "indexing": eff, "config": [arg, own, opt]}
        yield {"name": "r2-dict-unknown-dimension", "rank": 2, "kinds": ["full", "full"], "spelling": "dict-unknown", "indexing": "label"}
        yield {"name": "r1-too-many-indices", "rank": 1, "kinds": ["scalar"], "spelling": "too-many", "indexing": "label"}

    def bound_lengths(self, case):
        names = ["lab%d.n" % d for d in range(case["rank"])]
        names += ["ix%d.n" % d for d, k in enumerate(case["kinds"]) if k == "array"]
        return names

    def setup(self, S, case):
        rank = case["rank"]
        pos = case["indexing"] == "position"
        arr, labels, data = make_dimarray(S, rank, index_orders(case["kinds"]) if not pos else None)
        idx, subs = [], []
        tol = S.real("tol") if case.get("tol") else None
        for d, k in enumerate(case["kinds"]):
            i, sc, se = make_index(S, k, labels[d], DIM_KINDS[d], d, position=pos, tol=tol)
            idx.append(i)
            subs.append((sc, se))
        sp = case["spelling"]
        kwargs = {"indexing": case["indexing"]}
        if case.get("config"):
            kwargs["indexing"] = case["config"][0]
            arr._indexing = case["config"][1]
        if tol is not None:
            kwargs["tol"] = tol
        nonfull = [d for d, k in enumerate(case["kinds"]) if k != "full"]
        if sp == "tuple":
            indices = tuple(idx)
        elif sp == "bare":
            indices = idx[0]
        elif sp == "dict-name":
            indices = {"x%d" % d: idx[d] for d in nonfull}
        elif sp == "dict-pos":
            indices = {d: idx[d] for d in nonfull}
        elif sp in ("axis-name", "axis-pos"):
            d = nonfull[0]
            indices = idx[d]
            kwargs["axis"] = "x%d" % d if sp == "axis-name" else d
        elif sp == "dict-unknown":
            indices = {"nosuchdim": 0}
        elif sp == "too-many":
            indices = (idx[0], idx[0])
        return {"arr": arr, "labels": labels, "idx": idx, "subs": subs, "indices": indices, "kwargs": kwargs}

    def call(self, fn, env):
        cfg = env["case"].get("config")
        if not cfg:
            return env["arr"]._get_indices(env["indices"], **env["kwargs"])
        import dimarray.config as config
        old = config.rcParams["indexing.by"]
        config.rcParams["indexing.by"] = cfg[2]
        try:
            return env["arr"]._get_indices(env["indices"], **env["kwargs"])
        finally:
            config.rcParams["indexing.by"] = old

    def raises(self, S, case, env):
        if case["spelling"] == "dict-unknown":
            return {ValueError: True}
        if case["spelling"] == "too-many":
            return {IndexError: True}
        if case["indexing"] == "position":
            return {}
        al = AxisLoc()
        conds = {}
        for sc, se in env["subs"]:
            if sc is None or sc["val"] == "mask":
                continue
            for E, c in al.raises(S, sc, se).items():
                conds.setdefault(E, []).append(c)
        return {E: S.lor(*cs) for E, cs in conds.items()} or {IndexError: False}

    def post(self, S, case, env, result):
        rank = case["rank"]
        yield "tuple-of-length-ndim", isinstance(result, tuple) and len(result) == rank
        al = AxisLoc()
        for d in range(rank):
            sc, se = env["subs"][d]
            r = result[d]
            if sc is None:
                yield "dim%d:unaddressed-dimension-gets-full-slice" % d, isinstance(r, slice) and r == slice(None)
            elif case["indexing"] == "position" or sc["val"] == "mask":
                yield "dim%d:index-passed-through" % d, (r is env["idx"][d]) or (isinstance(r, slice) and r == env["idx"][d])
            else:
                for cl in al.post(S, sc, se, r):
                    yield ("dim%d:%s" % (d, cl[0]), cl[1])

    def canaries(self, S, case, env, result):
        yield "one-entry-too-many", len(result) == case["rank"] + 1


def _getindices_bind(self_arr, indices, axis=0, indexing=None, tol=None, keepdims=False):
    """call-site binding for the stub: tuple / bare spelling only (other spellings are proved equivalent
    by GetIndices itself)."""
    if keepdims or axis not in (0, None):
        raise NotImplementedError("keepdims / axis=")
    if isinstance(indices, dict):
        raise NotImplementedError("dict spelling at a stubbed call site")
    if not isinstance(indices, tuple):
        indices = (indices,)
    if any(i is Ellipsis for i in indices):
        raise NotImplementedError("Ellipsis")
    rank = len(self_arr.axes)
    if len(indices) > rank:
        raise NotImplementedError("too many indices")
    indices = tuple(indices) + (slice(None),) * (rank - len(indices))
    mode = indexing or getattr(self_arr, "_indexing", None) or "label"
    subs, idx = [], []
    if tol is None:
        tol = getattr(self_arr, "_tol", None)
    from dverif import symnp
    for d, i in enumerate(indices):
        if isinstance(i, list):
            i = symnp.asarray(i)
        idx.append(i)
        if type(i) is slice and i == slice(None):
            subs.append((None, None))
        elif mode == "position" or (hasattr(i, "dtype") and i.dtype.kind == "b" and getattr(i, "ndim", 0) == 1):
            subs.append(({"val": "mask" if hasattr(i, "dtype") and i.dtype.kind == "b" else "position"}, {"val": i}))
        else:
            sc, se = _axisloc_bind(self_arr.axes[d], i, tol=tol)
            subs.append((sc, se))
    case = {"name": "bound", "rank": rank, "kinds": None, "spelling": "tuple", "indexing": mode}
    env = {"arr": self_arr, "labels": [ax.values for ax in self_arr.axes], "idx": idx, "subs": subs,
           "indices": indices, "kwargs": {}}
    return case, env


def _getindices_fresh(self, S, case, env):
    out = []
    al = AxisLoc()
    for d, (sc, se) in enumerate(env["subs"]):
        if sc is None:
            out.append(slice(None))
        elif case["indexing"] == "position" or sc["val"] in ("mask", "position"):
            out.append(env["idx"][d])
        else:
            e = dict(se, _fresh="%s.dim%d" % (env["_fresh"], d))
            out.append(al.fresh_result(S, sc, e))
    return tuple(out)


def _getindices_requires(self, S, case, env):
    al = AxisLoc()
    for d, (sc, se) in enumerate(env["subs"]):
        if sc is None or "order" not in sc:
            continue
        for nm, f in al.requires(S, sc, se):
            yield "dim%d:%s" % (d, nm), f


GetIndices.bind = staticmethod(_getindices_bind)
GetIndices.fresh_result = _getindices_fresh
GetIndices.requires = _getindices_requires


class GetItem(Contract):
    """AbstractDimArray._getitem (= DimArray.__getitem__ / take): orthogonal selection.  With `pos` the
    position tuple that _get_indices returns for the same arguments, the result is the array whose
    dimension d (kept unless pos[d] is a scalar) has labels L_d[src_d(k)] and whose cell (k_1..k_r) is the
    input cell (src_1(k_1) ..), where src_d enumerates what pos[d] selects on an axis of that length
    exactly as NumPy does (slice arithmetic, listed positions in the given order incl. repeats, true
    positions of a mask in increasing order).  A scalar is returned when every dimension is dropped.
    Metadata is copied.  In label mode the labels of list-indexed dimensions are the requested labels.
    [C01, C02 (N-d combination, position slices), C16 (metadata carried by indexing)]"""
    target = "dimarray.core.bases:AbstractDimArray._getitem"
    props = ("C01", "C02", "C16")
    uses = (stub_of(GetIndices),)
    inlined = ("_getaxes_ortho", "Axis.__getitem__", "_getvalues_ortho", "orthogonal_indexer", "canonicalize_indexer",
               "_constructor", "DimArray.__init__", "Axes._init", "_is_boolean_index_nd")
    max_paths = 600

    def cases(self, tier):
        import itertools
        maxrank = 2 if tier == "quick" else 3
        for rank in range(0, maxrank + 1):
            for kinds in itertools.product(INDEX_KINDS, repeat=rank):
                for mode in ("label", "position"):
                    yield {"name": "r%d-%s-%s" % (rank, "+".join(kinds) or "none", mode), "rank": rank,
                           "kinds": list(kinds), "spelling": "tuple", "indexing": mode}
        for kinds in (["tollist", "tollist"], ["tollist", "full"], ["scalar-tol", "tollist"]):
            yield {"name": "r%d-%s-label-tol" % (len(kinds), "+".join(kinds)), "rank": len(kinds), "kinds": kinds,
                   "spelling": "tuple", "indexing": "label", "tol": True}
        if tier == "quick":
            for kinds in (("array", "scalar", "mask"), ("slice", "array", "full"), ("scalar", "full", "array"),
                          ("mask", "slice-rev", "scalar"), ("scalar", "scalar", "scalar"),
                          # a label SLICE between a scalar and an array index: NumPy would put the advanced dimension first
                          ("scalar", "slice", "array"), ("scalar", "slice-rev", "mask")):
                yield {"name": "r3-%s-label" % "+".join(kinds), "rank": 3, "kinds": list(kinds), "spelling": "tuple", "indexing": "label"}

    def bound_lengths(self, case):
        names = ["lab%d.n" % d for d in range(case["rank"])]
        names += ["ix%d.n" % d for d, k in enumerate(case["kinds"]) if k == "array"]
        return names

    def setup(self, S, case):
        env = GetIndices().setup(S, case)
        env["arr"].attrs["units"] = "K"
        env["arr"].attrs["history"] = ["created"]
        env["data"] = env["arr"].values
        return env

    def call(self, fn, env):
        return env["arr"]._getitem(env["indices"], **env["kwargs"])

    def raises(self, S, case, env):
        r = GetIndices().raises(S, case, env)
        if case["indexing"] == "position":
            conds = []
            for d, k in enumerate(case["kinds"]):
                n = S.n(env["labels"][d])
                i = env["idx"][d]
                if k == "scalar":
                    conds.append(S.lor(i < -n, i >= n))
                elif k == "array":
                    conds.append(S.exists(0, S.n(i), lambda j: S.lor(S.at(i, j) < -n, S.at(i, j) >= n)))
            return {IndexError: S.lor(*conds)}
        return r

    def _positions(self, S, env):
        calls = S.calls("GetIndices")
        if calls:
            return calls[-1][3]
        return env["arr"]._get_indices(env["indices"], **env["kwargs"])

    def post(self, S, case, env, result):
        arr, labels, data = env["arr"], env["labels"], env["data"]
        rank = case["rank"]
        pos = self._positions(S, env)
        sels = [selector(S, S.n(labels[d]), pos[d]) for d in range(rank)]
        kept = [d for d in range(rank) if sels[d][0] is not None]

        def src(ks):
            it = iter(ks)
            return [sels[d][1](next(it)) if d in kept else sels[d][1]() for d in range(rank)]

        if not kept:
            yield "scalar-result-is-the-addressed-cell", S.land(S.lnot(S.is_dimarray(result)), S.same(result, S.at(data, *src(()))))
            return
        yield "is-dimarray", S.is_dimarray(result)
        yield "dims-are-the-kept-dimensions-in-order", tuple(result.dims) == tuple("x%d" % d for d in kept)
        rv = result.values
        yield "one-axis-per-array-dimension", len(S.shape(rv)) == len(kept) and len(result.axes) == len(kept)
        for j, d in enumerate(kept):
            Lr = result.axes[j].values
            cnt, sd = sels[d][0], sels[d][1]
            yield "dim%d:extent" % d, S.land(S.n(Lr) == cnt, S.shape(rv)[j] == cnt)
            yield "dim%d:labels-travel-with-the-selection" % d, S.forall(0, cnt, lambda k: S.at(Lr, k) == S.at(labels[d], sd(k)))
            if case["indexing"] == "label" and case["kinds"][d] == "array":
                q = env["idx"][d]
                yield "dim%d:labels-are-the-requested-labels-in-order" % d, S.land(
                    S.n(Lr) == S.n(q), S.forall(0, S.n(q), lambda k: S.at(Lr, k) == S.at(q, k)))
        shape = [sels[d][0] for d in kept]
        yield "cells", S.forall_nd(shape, lambda *ks: S.same(S.at(rv, *ks), S.at(data, *src(ks))))
        if case["indexing"] == "label":
            # the headline statement: each selected cell is the one stored at the requested label coordinates
            for d, k in enumerate(case["kinds"]):
                if k == "scalar":
                    yield "dim%d:scalar-label-addresses-its-own-position" % d, S.at(labels[d], sels[d][1]()) == env["idx"][d]
        yield "metadata-copied", S.land(dict(result.attrs) == dict(arr.attrs), result.attrs is not arr.attrs)
        yield "operand-untouched", S.land(arr.values is data, tuple(arr.dims) == tuple("x%d" % d for d in range(rank)),
                                          *[arr.axes[d].values is labels[d] for d in range(rank)])

    def canaries(self, S, case, env, result):
        if S.is_dimarray(result):
            yield "result-drops-metadata", len(result.attrs) == 0
        else:
            if case["rank"]:
                yield "scalar-is-always-cell-zero", result == S.at(env["data"], *([0] * case["rank"]))
            else:
                yield "scalar-is-never-the-cell", result != S.at(env["data"])


class _Recorder(object):
    def __init__(self):
        self.calls = []
        self.token = object()

    def __call__(self, *args, **kwargs):
        self.calls.append((args, kwargs))
        return self.token


class Accessors(Contract):
    """.loc / .iloc / .ix / .nloc / .sel / .isel / take / a[...] are plumbing onto _getitem (reads) and
    _setitem (writes): each passes the index object through untouched together with exactly the documented
    indexing mode and tolerance.  The functions are loop- and branch-free on their arguments, so one
    execution with an opaque index object per configuration is a complete case analysis.  [C01, C03]"""
    target = "dimarray.core.bases:AbstractHasAxes.loc"
    props = ("C01", "C03")

    TABLE = {
        # accessor: (indexing, tol)
        "loc": ("label", None), "iloc": ("position", None), "nloc": ("label", float("inf")),
        "sel": ("label", None), "isel": ("position", None),
    }

    def cases(self, tier):
        for acc in ("loc", "iloc", "nloc", "sel", "isel", "ix", "take", "getitem", "put", "setitem"):
            for own in (None, "label", "position"):
                for write in ((False, True) if acc in ("loc", "iloc", "nloc", "ix") else (False,)):
                    yield {"name": "%s-own_%s-%s" % (acc, own, "write" if write else "read"), "acc": acc, "own": own, "write": write}

    def setup(self, S, case):
        import numpy as np
        arr = S.da.DimArray(S.concrete_array([[1.0, 2.0], [3.0, 4.0]]), axes=[("x0", S.concrete_array([10.0, 20.0])), ("x1", S.concrete_array([1.0, 2.0]))])
        arr._indexing = case["own"]
        return {"arr": arr, "idx": _Opaque(), "val": _Opaque()}

    def call(self, fn, env):
        arr, case = env["arr"], env["case"]
        cls = type(arr)
        get, put = _Recorder(), _Recorder()
        saved = (cls.__dict__.get("_getitem"), cls.__dict__.get("_setitem"))
        base = cls.__mro__[[k.__name__ for k in cls.__mro__].index("AbstractDimArray")]
        old = (base._getitem, base._setitem, base.__getitem__, base.__setitem__)
        base._getitem = lambda self, *a, **k: get(self, *a, **k)
        base._setitem = lambda self, *a, **k: put(self, *a, **k)
        base.__getitem__ = base._getitem
        base.__setitem__ = base._setitem
        try:
            acc = case["acc"]
            if acc in ("sel", "isel"):
                out = getattr(arr, acc)(x0=env["idx"])
            elif acc == "take":
                out = arr.take(env["idx"])
            elif acc == "put":
                out = arr.put(env["idx"], env["val"])
            elif acc == "getitem":
                out = arr[env["idx"]]
            elif acc == "setitem":
                arr[env["idx"]] = env["val"]
                out = None
            elif case["write"]:
                getattr(arr, acc)[env["idx"]] = env["val"]
                out = None
            else:
                out = getattr(arr, acc)[env["idx"]]
        finally:
            base._getitem, base._setitem, base.__getitem__, base.__setitem__ = old
        return {"out": out, "get": get, "put": put}

    def setup_case(self, case):
        return case

    def post(self, S, case, env, result):
        get, put, arr = result["get"], result["put"], env["arr"]
        acc = case["acc"]
        writes = case["write"] or acc in ("put", "setitem")
        rec = put if writes else get
        yield "exactly-one-call-on-the-right-method", len(rec.calls) == 1 and len((get if writes else put).calls) == 0
        if len(rec.calls) != 1:
            return
        args, kw = rec.calls[0]
        yield "on-the-same-array", args[0] is arr
        allargs = dict(kw)
        names = ["indices", "values"] if writes else ["indices"]
        for nm, a in zip(names, args[1:]):
            allargs[nm] = a
        if acc in ("sel", "isel"):
            yield "index-passed-through", isinstance(allargs.get("indices"), dict) and list(allargs["indices"].items()) == [("x0", env["idx"])]
        else:
            yield "index-passed-through", allargs.get("indices") is env["idx"]
        if writes:
            yield "value-passed-through", allargs.get("values") is env["val"]
        if acc in self.TABLE:
            ind, tol = self.TABLE[acc]
        elif acc == "ix":
            ind, tol = ("position" if case["own"] != "position" else "label"), None
        else:
            ind, tol = None, None      # a[...] / take / put defer to the array's own mode and the global option
        yield "indexing-mode", allargs.get("indexing") == ind
        yield "tolerance", allargs.get("tol") == tol
        if not writes:
            yield "result-returned", result["out"] is rec.token

    def canaries(self, S, case, env, result):
        yield "never-calls-anything", len(result["get"].calls) + len(result["put"].calls) == 0


class _Opaque(object):
    pass


class ItemForwarding(Contract):
    """_getitem and _setitem hand their (indices, axis, indexing, tol, keepdims) arguments to _get_indices
    unchanged, so every spelling proved equivalent by GetIndices reaches reads and writes alike; an N-d
    boolean mask is routed to compress / _setvalues_bool instead.  Loop-free plumbing: one execution per
    configuration with opaque arguments is a complete case analysis.  [C01, C03]"""
    target = "dimarray.core.bases:AbstractDimArray._getitem"
    props = ("C01", "C03")

    def cases(self, tier):
        for op in ("get", "set", "set-copy"):
            for axis in (0, "x1", 1, None):
                yield {"name": "%s-axis_%s" % (op, axis), "op": op, "axis": axis}

    def setup(self, S, case):
        arr = S.da.DimArray(S.concrete_array([[1.0, 2.0], [3.0, 4.0]]),
                            axes=[("x0", S.concrete_array([10.0, 20.0])), ("x1", S.concrete_array([1.0, 2.0]))])
        return {"arr": arr, "idx": _Opaque(), "tol": _Opaque(), "indexing": "label", "val": 5.0}

    def call(self, fn, env):
        arr, case = env["arr"], env["case"]
        cls = type(arr)
        base = [k for k in cls.__mro__ if k.__name__ == "AbstractHasAxes"][0]
        rec = _Recorder()
        canned = (0, 1)
        old = base._get_indices
        base._get_indices = lambda self, *a, **k: (rec(self, *a, **k), canned)[1]
        try:
            if case["op"] == "get":
                out = arr._getitem(env["idx"], axis=case["axis"], indexing=env["indexing"], tol=env["tol"], keepdims=False)
            else:
                out = arr._setitem(env["idx"], env["val"], axis=case["axis"], indexing=env["indexing"], tol=env["tol"],
                                   inplace=case["op"] == "set")
        finally:
            base._get_indices = old
        return {"out": out, "rec": rec}

    def post(self, S, case, env, result):
        rec = result["rec"]
        yield "one-call", len(rec.calls) == 1
        if len(rec.calls) != 1:
            return
        args, kw = rec.calls[0]
        allargs = dict(kw)
        if len(args) > 1:
            allargs["indices"] = args[1]
        yield "indices-forwarded", allargs.get("indices") is env["idx"]
        yield "axis-forwarded", allargs.get("axis", 0) == case["axis"]
        yield "indexing-forwarded", allargs.get("indexing") == env["indexing"]
        yield "tol-forwarded", allargs.get("tol") is env["tol"]
        target = args[0]
        if case["op"] == "get":
            yield "positions-used-for-the-read", result["out"] == 2.0       # canned positions (0, 1) -> cell [0, 1]
            yield "on-self", target is env["arr"]
        elif case["op"] == "set":
            yield "positions-used-for-the-write", env["arr"].values[0, 1] == 5.0 and env["arr"].values[0, 0] == 1.0
            yield "in-place-returns-none", result["out"] is None and target is env["arr"]
        else:
            out = result["out"]
            yield "copy-written-original-untouched", out is not env["arr"] and out.values[0, 1] == 5.0 and env["arr"].values[0, 1] == 2.0
            yield "positions-resolved-on-the-copy", target is out

    def canaries(self, S, case, env, result):
        yield "never-resolves-positions", len(result["rec"].calls) == 0


class SetItem(Contract):
    """AbstractDimArray._setitem (= a[idx] = v / put): with `pos` the position tuple _get_indices returns
    for the same arguments (the very tuple a read uses), exactly the cells pos addresses change; the cell
    addressed by selection coordinate k becomes the broadcast value at k; every other cell, all labels,
    dimension names and metadata are untouched.  inplace=False leaves the receiver untouched and returns
    a modified deep copy.  cast=True widens the dtype first (int <- float gives float) keeping all other
    cells' values.  [C03]"""
    target = "dimarray.core.bases:AbstractDimArray._setitem"
    props = ("C03", "C15")
    uses = (stub_of(GetIndices),)
    inlined = ("_setvalues_ortho", "_setvalues_bool", "orthogonal_indexer", "canonicalize_indexer", "DimArray.copy (copy.deepcopy)",
               "_maybe_cast_type (own contract: MaybeCastType)", "_is_boolean_index_nd")
    max_paths = 600

    def cases(self, tier):
        import itertools
        maxrank = 2 if tier == "quick" else 3
        for rank in range(1, maxrank + 1):
            for kinds in itertools.product(INDEX_KINDS, repeat=rank):
                for mode in ("label", "position"):
                    for value in ("scalar", "array"):
                        if value == "array" and all(k in ("scalar",) for k in kinds):
                            continue
                        if value == "array" and mode == "label" and any(k.startswith("slice") for k in kinds):
                            continue      # the selection's extent is not a function of the inputs alone; covered with scalar values
                        for inplace in (True, False):
                            if not inplace and (mode == "position" or rank > 1 and value == "array"):
                                continue
                            yield {"name": "r%d-%s-%s-%s-%s" % (rank, "+".join(kinds), mode, value, "inplace" if inplace else "copy"),
                                   "rank": rank, "kinds": list(kinds), "spelling": "tuple", "indexing": mode,
                                   "value": value, "inplace": inplace, "cast": False, "data_kind": "f"}
        # writes through a tolerance: Axis.loc then answers with Python LISTS of positions on each dimension
        for kinds in (["tollist", "tollist"], ["tollist", "full"], ["scalar-tol", "tollist"], ["tollist"]):
            for value in ("scalar", "array"):
                for inplace in (True, False):
                    yield {"name": "r%d-%s-label-tol-%s-%s" % (len(kinds), "+".join(kinds), value, "inplace" if inplace else "copy"),
                           "rank": len(kinds), "kinds": kinds, "spelling": "tuple", "indexing": "label", "tol": True,
                           "value": value, "inplace": inplace, "cast": False, "data_kind": "f"}
        if tier == "quick":
            # rank 3 at quick tier: mixes where NumPy's own placement rule for advanced indices would matter
            for kinds in (["scalar", "slice", "array"], ["array", "scalar", "mask"], ["slice", "array", "scalar"], ["array", "full", "array"]):
                for value in ("scalar", "array"):
                    yield {"name": "r3-%s-position-%s-inplace" % ("+".join(kinds), value), "rank": 3, "kinds": kinds, "spelling": "tuple",
                           "indexing": "position", "value": value, "inplace": True, "cast": False, "data_kind": "f"}
        for kinds in (["scalar"], ["array"], ["mask"], ["slice"], ["full", "array"]):
            for dk, vk in (("I", "f"), ("I", "i"), ("f", "i")):
                yield {"name": "r%d-%s-cast-%s<-%s" % (len(kinds), "+".join(kinds), dk, vk), "rank": len(kinds), "kinds": kinds,
                       "spelling": "tuple", "indexing": "label", "value": "scalar", "inplace": True, "cast": True,
                       "data_kind": dk, "value_kind": vk}
        # cast=True together with inplace=False: whether or not the dtype has to widen, the operand must be left alone
        for kinds in (["scalar"], ["mask"], ["full", "array"]):
            for dk, vk in (("f", "f"), ("I", "i"), ("I", "f")):
                yield {"name": "r%d-%s-cast-%s<-%s-copy" % (len(kinds), "+".join(kinds), dk, vk), "rank": len(kinds), "kinds": kinds,
                       "spelling": "tuple", "indexing": "label", "value": "scalar", "inplace": False, "cast": True,
                       "data_kind": dk, "value_kind": vk}
        for rank in (2, 3) if tier != "quick" else (2,):
            yield {"name": "r%d-ndmask-scalar" % rank, "rank": rank, "kinds": ["ndmask"], "spelling": "ndmask", "indexing": "label",
                   "value": "scalar", "inplace": True, "cast": False, "data_kind": "f"}
        # the full N-d mask path has its own write method: cast=True must reach it too (setna / fillna on N-d integer data go this way)
        for dk, vk in (("I", "f"), ("f", "f"), ("I", "i")):
            for inplace in (True, False):
                yield {"name": "r2-ndmask-cast-%s<-%s-%s" % (dk, vk, "inplace" if inplace else "copy"), "rank": 2, "kinds": ["ndmask"], "spelling": "ndmask",
                       "indexing": "label", "value": "scalar", "inplace": inplace, "cast": True, "data_kind": dk, "value_kind": vk}

    def bound_lengths(self, case):
        names = ["lab%d.n" % d for d in range(case["rank"])]
        names += ["ix%d.n" % d for d, k in enumerate(case["kinds"]) if k == "array"]
        return names

    def setup(self, S, case):
        rank = case["rank"]
        pos = case["indexing"] == "position"
        if case["spelling"] == "ndmask":
            arr, labels, data = make_dimarray(S, rank, data_kind=case["data_kind"])
            mask = S.arraynd("mask", "b", tuple(S.n(L) for L in labels))
            env = {"arr": arr, "labels": labels, "idx": [mask], "subs": [], "indices": mask, "kwargs": {}}
        else:
            arr, labels, data = make_dimarray(S, rank, index_orders(case["kinds"]) if not pos else None, data_kind=case["data_kind"])
            idx, subs = [], []
            tolv = S.real("tol") if case.get("tol") else None
            for d, k in enumerate(case["kinds"]):
                i, sc, se = make_index(S, k, labels[d], DIM_KINDS[d], d, position=pos, tol=tolv)
                if k == "array" and not pos:
                    assume_order(S, i, "unique")       # a list index that names each label once (read-back is then well defined)
                elif k == "array":
                    S.assume(S.forall2(0, S.n(i), lambda a, b: S.at(i, a) != S.at(i, b)), "distinct positions")
                    S.assume(S.forall(0, S.n(i), lambda a: S.at(i, a) >= 0), "non-negative positions")
                idx.append(i)
                subs.append((sc, se))
            env = {"arr": arr, "labels": labels, "idx": idx, "subs": subs, "indices": tuple(idx), "kwargs": {"indexing": case["indexing"]}}
            if tolv is not None:
                env["kwargs"]["tol"] = tolv
        arr.attrs["units"] = "K"
        env["attrs0"] = dict(arr.attrs)
        env["data"] = arr.values
        env["old"] = S.snapshot(arr.values)
        vk = case.get("value_kind", "f")
        if case["value"] == "scalar":
            env["value"] = S.real("v") if vk == "f" else S.int("v")
        else:
            # a right-hand side with exactly the selection's shape (computed from the inputs)
            shape = []
            for d, k in enumerate(case["kinds"]):
                n = S.n(labels[d])
                if k == "full":
                    shape.append(n)
                elif k == "array":
                    shape.append(S.n(env["idx"][d]))
                elif k == "mask":
                    shape.append(S.n(S.mask_positions(env["idx"][d])))
                elif k == "tollist":
                    shape.append(len(env["idx"][d]))
                elif k.startswith("slice"):
                    sl = env["idx"][d]
                    shape.append(slice_count(S, n, sl.start, sl.stop, sl.step)[1])
            env["value"] = S.arraynd("v", "f", tuple(shape))
        return env

    def _positions(self, S, env):
        calls = S.calls("GetIndices")
        if calls:
            return calls[-1][3]
        return env["arr"]._get_indices(env["indices"], **env["kwargs"])

    def call(self, fn, env):
        case = env["case"]
        arr = env["arr"]
        out = arr._setitem(env["indices"], env["value"], inplace=case["inplace"], cast=case["cast"], **env["kwargs"])
        return out

    def raises(self, S, case, env):
        if case["spelling"] == "ndmask":
            return {}
        if case["indexing"] != "position":
            return GetItem().raises(S, case, env)
        # positions: a scalar out of range always raises (as in NumPy).  An out-of-range entry of a position LIST must be
        # reported when every other dimension selects something (cells would be touched); when another dimension selects
        # nothing NumPy itself checks or not depending on how the key is spelled, and the statement is silent: allowed.
        bad_scalar, bad_array, nonempty = [], [], {}
        for d, k in enumerate(case["kinds"]):
            n = S.n(env["labels"][d])
            i = env["idx"][d]
            if k == "scalar":
                bad_scalar.append(S.lor(i < -n, i >= n))
            elif k == "array":
                bad_array.append((d, S.exists(0, S.n(i), lambda j, i=i, n=n: S.lor(S.at(i, j) < -n, S.at(i, j) >= n))))
                nonempty[d] = S.n(i) > 0
            elif k == "mask":
                nonempty[d] = S.n(S.mask_positions(i)) > 0
            elif k.startswith("slice"):
                nonempty[d] = slice_count(S, n, i.start, i.stop, i.step)[1] > 0
            else:
                nonempty[d] = n > 0
        must = S.lor(*(bad_scalar + [S.land(b, *[ne for e, ne in nonempty.items() if e != d]) for d, b in bad_array]))
        may = S.lor(*(bad_scalar + [b for d, b in bad_array]))
        return {IndexError: (must, may)}

    def post(self, S, case, env, result):
        arr, labels, old = env["arr"], env["labels"], env["old"]
        rank = case["rank"]
        target = arr if case["inplace"] else result
        if case["inplace"]:
            yield "in-place-returns-none", result is None
        else:
            yield "copy-returned", S.land(S.is_dimarray(result), result is not arr, S.lnot(S.same_buffer(result.values, arr.values)))
            yield "receiver-untouched", S.forall_nd(S.shape(old), lambda *p: S.same(S.at(arr.values, *p), S.at(old, *p)))
        new = target.values
        v = env["value"]
        if case["spelling"] == "ndmask":
            mask = env["idx"][0]
            yield "masked-cells-set-others-kept", S.forall_nd(S.shape(old), lambda *p: S.same(S.at(new, *p), S.ite(S.at(mask, *p), v, S.at(old, *p))))
        else:
            calls = S.calls("GetIndices")
            pos = calls[-1][3] if calls else target._get_indices(env["indices"], **env["kwargs"])
            sels = [selector(S, S.n(labels[d]), pos[d]) for d in range(rank)]
            kept = [d for d in range(rank) if sels[d][0] is not None]

            def src(ks):
                it = iter(ks)
                return [sels[d][1](next(it)) if d in kept else sels[d][1]() for d in range(rank)]
            shape = [sels[d][0] for d in kept]
            if case["value"] == "scalar":
                yield "addressed-cells-hold-the-value", S.forall_nd(shape, lambda *ks: S.same(S.at(new, *src(ks)), v))
            else:
                # with an array value the clause needs an index that names each cell once (two labels within tolerance of the
                # same axis label address the same cell twice; the last write wins and read-back is not well defined)
                once = []
                for d in kept:
                    e = pos[d]
                    if isinstance(e, list):
                        once += [e[a] != e[b] for a in range(len(e)) for b in range(a + 1, len(e))]
                    elif S.is_array(e) and S.kind(e) != "b":      # (tol == 0 is "no tolerance": the positions come as an array)
                        once.append(S.forall2(0, S.n(e), lambda a, b, e=e: S.at(e, a) != S.at(e, b)))
                yield "addressed-cells-hold-the-value", S.implies(S.land(*once), lambda: S.forall_nd(
                    shape, lambda *ks: S.same(S.at(new, *src(ks)), S.at(v, *ks))))

            def addressed(p):
                return S.land(*[sels[d][2](p[d]) for d in range(rank)])
            yield "other-cells-untouched", S.forall_nd(S.shape(old), lambda *p: S.lor(S.same(S.at(new, *p), S.at(old, *p)), addressed(p)))
        yield "shape-kept", tuple(S.shape(new)) == tuple(S.shape(old)) if S.mode == "nat" else len(S.shape(new)) == len(S.shape(old))
        yield "labels-dims-metadata-untouched", S.land(
            tuple(target.dims) == tuple("x%d" % d for d in range(rank)), dict(target.attrs) == env["attrs0"],
            *[S.forall(0, S.n(labels[d]), lambda k, d=d: S.at(target.axes[d].values, k) == S.at(labels[d], k)) for d in range(rank)])
        if case["cast"]:
            exp = MaybeCastTable(case["data_kind"].lower(), case["value_kind"])
            yield "dtype-widened-per-table", S.kind(new) == exp

    def canaries(self, S, case, env, result):
        target = env["arr"] if case["inplace"] else result
        yield "nothing-written", S.forall_nd(S.shape(env["old"]), lambda *p: S.same(S.at(target.values, *p), S.at(env["old"], *p)))


def MaybeCastTable(old, new):
    return ix.MaybeCastType.expected(old, new)


class SetItemNative(Contract):
    """BOUNDED STAND-IN ONLY (never counted as proved).  Two assignment forms the symbolic SetItem contract covers with scalar
    values only: (1) a[mask] = v for a FULL N-d boolean mask and an ARRAY v with one value per true cell (NumPy fills the
    true cells in row-major order); (2) a[l0:l1] = v (inclusive label slice, optionally with a second index) and an ARRAY v
    of the selection's shape; (3) cast=True on integer data beyond 2**24 with a float32 / float16 value (the widened array must
    still hold every other cell exactly).  Checked on the real code: exactly the cells the same index reads are changed, reading the
    index back returns v, every other cell, the labels and the metadata are untouched; inplace=False leaves the operand
    alone.  Ranks 1-2, extents 1-3, every mask / slice bound of the family.  [C03]"""
    target = "dimarray.core.bases:AbstractHasAxes._setitem"
    props = ("C03",)
    native_only = True

    def cases(self, tier):
        for form in ("ndmask-array", "label-slice-array"):
            for rank in (1, 2):
                for inplace in (True, False):
                    yield {"name": "%s-r%d-%s" % (form, rank, "inplace" if inplace else "copy"), "form": form, "rank": rank, "inplace": inplace}
        # (3) cast=True with a value of a NARROWER float type than the widening needs: integer data beyond 2**24 and a float32
        # value -- every cell that is not addressed must keep its value exactly (the verifier's reals have no precision)
        for vt in ("float32", "float16"):
            for inplace in (True, False):
                yield {"name": "cast-int64<-%s-%s" % (vt, "inplace" if inplace else "copy"), "form": "cast-narrow", "rank": 2, "inplace": inplace, "vt": vt}

    def setup(self, S, case):
        from .common import assume_order
        rank = case["rank"]
        labels = []
        for d in range(rank):
            L = S.array1d("lab%d" % d, "f")
            assume_order(S, L, "inc" if case["form"] == "label-slice-array" and d == 0 else "unique")
            S.assume(S.n(L) >= 1, "non-empty")
            labels.append(L)
        data = S.arraynd("data", "f", tuple(S.n(L) for L in labels))
        env = {"labels": labels, "data": data}
        if case["form"] == "ndmask-array":
            env["mask"] = S.arraynd("mask", "b", tuple(S.n(L) for L in labels))
        else:
            env["lo"], env["hi"] = S.real("lo"), S.real("hi")
        return env

    def call(self, fn, env):
        import numpy as np
        S, case = env["S"], env["case"]
        labels = [np.asarray(L, dtype=float) for L in env["labels"]]
        a = S.da.DimArray(np.array(env["data"], dtype=float), axes=[("x%d" % d, L.copy()) for d, L in enumerate(labels)])
        if case["form"] == "cast-narrow":
            big = (np.arange(a.values.size, dtype=np.int64).reshape(a.values.shape) + 2 ** 24 + 1) * (1 + 2 * (np.arange(a.values.size).reshape(a.values.shape) % 2))
            a = S.da.DimArray(big, axes=[("x%d" % d, L.copy()) for d, L in enumerate(labels)])
            a.attrs["units"] = "K"
            before = a.values.copy()
            lab = labels[0][0]
            sel = np.zeros(before.shape, dtype=bool)
            sel[0] = True
            v = getattr(np, case["vt"])(0.5)
            env.update({"a": a, "before": before, "sel": sel, "v": np.full(int(sel.sum()), 0.5), "key": lab})
            if case["inplace"]:
                a.put(lab, v, axis=0, cast=True)
                return a
            return a.put(lab, v, axis=0, cast=True, inplace=False)
        a.attrs["units"] = "K"
        before = a.values.copy()
        if case["form"] == "ndmask-array":
            mask = np.asarray(env["mask"], dtype=bool)
            sel = mask
            key = mask
        else:
            lo, hi = float(env["lo"]), float(env["hi"])
            m0 = (labels[0] >= lo) & (labels[0] <= hi)
            sel = np.zeros(before.shape, dtype=bool)
            sel[m0] = True
            key = slice(lo, hi)
        count = int(sel.sum())
        v = 1000.0 + np.arange(count, dtype=float)
        if case["form"] == "label-slice-array":
            v = v.reshape((int(m0.sum()),) + before.shape[1:])
        env.update({"a": a, "before": before, "sel": sel, "v": v, "key": key})
        if case["inplace"]:
            a[key] = v
            return a
        return a.put(key, v, inplace=False) if case["form"] == "label-slice-array" else a.put(key, v, inplace=False)

    def post(self, S, case, env, result):
        import numpy as np
        a, before, sel, v = env["a"], env["before"], env["sel"], env["v"]
        same = lambda x, y: np.asarray(x).shape == np.asarray(y).shape and bool(np.all((np.asarray(x) == np.asarray(y)) | (np.isnan(np.asarray(x, dtype=float)) & np.isnan(np.asarray(y, dtype=float)))))
        yield "is-dimarray", S.is_dimarray(result)
        yield "addressed-cells-hold-the-values-in-selection-order", same(result.values[sel], np.asarray(v).ravel())
        yield "every-other-cell-untouched", same(result.values[~sel], before[~sel]) and (
            case["form"] != "cast-narrow" or [int(t) for t in result.values[~sel].tolist()] == [int(t) for t in before[~sel].tolist()])
        yield "labels-dims-metadata-untouched", tuple(result.dims) == tuple(a.dims) and all(same(r.values, o) for r, o in zip(result.axes, [np.asarray(L, dtype=float) for L in env["labels"]])) and dict(result.attrs) == {"units": "K"}
        if not case["inplace"]:
            yield "operand-left-unchanged", same(a.values, before) and result is not a


class SetItemBroadcast(Contract):
    """a.put((I, J), v, broadcast=True) / a.put((I, j), v, broadcast=True) on a rank-2 array, and a.put((I, :, J), v) /
    a.put((:, I, J), v) on a rank-3 array (NumPy's POINTWISE reading of several index arrays, the other documented indexing
    mode): exactly the cells (I[k], J[k]) -- resp. (I[k], j), (I[k], q, J[k]) for every q, (q, I[k], J[k]) -- change, cell
    k to v (scalar) or to v[k] (array value of the selection's shape, pairs distinct; the paired dimension comes first
    when a slice separates the index arrays); every other cell, labels, dims and metadata are untouched; the values
    _getitem(broadcast=True) reads through the same index are the written ones; inplace=False leaves the receiver alone.
    Positions, and labels resolved through _get_indices' contract.  [C03]"""
    target = "dimarray.core.bases:AbstractDimArray._setitem"
    props = ("C03", "C15")
    uses = (stub_of(GetIndices),)
    inlined = ("_setvalues_broadcast", "_getvalues_broadcast", "DimArray.copy (copy.deepcopy)")
    max_paths = 400

    def cases(self, tier):
        for kinds in (["array", "array"], ["array", "scalar"], ["scalar", "array"], ["array", "full", "array"], ["full", "array", "array"]):
            for mode in ("position", "label"):
                for value in ("scalar", "array"):
                    for inplace in (True, False):
                        if not inplace and (value == "array" or len(kinds) == 3):
                            continue
                        if len(kinds) == 3 and mode == "label" and value == "array":
                            continue
                        yield {"name": "%s-%s-%s-%s" % ("+".join(kinds), mode, value, "inplace" if inplace else "copy"), "rank": len(kinds), "kinds": kinds,
                               "indexing": mode, "value": value, "inplace": inplace, "spelling": "tuple"}

    def bound_lengths(self, case):
        return ["lab%d.n" % d for d in range(case["rank"])] + ["m"]

    def setup(self, S, case):
        pos = case["indexing"] == "position"
        rank = case["rank"]
        arr, labels, data = make_dimarray(S, rank, index_orders(case["kinds"]) if not pos else None)
        m = S.length("m")
        idx = []
        for d, k in enumerate(case["kinds"]):
            n = S.n(labels[d])
            if k == "full":
                i = slice(None)
            elif k == "array":
                i = S.array1d("ix%d" % d, "I" if pos else DIM_KINDS[d], n=m)
                if pos:
                    S.assume(S.forall(0, m, lambda a, i=i, n=n: S.land(0 <= S.at(i, a), S.at(i, a) < n)), "positions in range")
                else:
                    S.assume(S.forall(0, m, lambda a, i=i, L=labels[d]: S.exists(0, S.n(L), lambda p: S.at(L, p) == S.at(i, a))), "labels on the axis")
            else:
                if pos:
                    i = S.int("ix%d" % d)
                    S.assume(S.land(0 <= i, i < n), "position in range")
                else:
                    i = S.label("ix%d" % d, DIM_KINDS[d])
                    S.assume(S.exists(0, n, lambda p, L=labels[d], i=i: S.at(L, p) == i), "label on the axis")
            idx.append(i)
        arr.attrs["units"] = "K"
        env = {"arr": arr, "labels": labels, "idx": idx, "indices": tuple(idx), "kwargs": {"indexing": case["indexing"]}, "m": m,
               "attrs0": dict(arr.attrs), "data": arr.values, "old": S.snapshot(arr.values)}
        # the selection's layout: the paired dimension, and the full dimension before or after it
        full = [d for d, k in enumerate(case["kinds"]) if k == "full"]
        env["layout"] = layout = (["pair"] if not full else (["pair", full[0]] if full[0] == 1 else [full[0], "pair"]))
        if case["value"] == "scalar":
            env["value"] = S.real("v")
        else:
            env["value"] = S.arraynd("v", "f", tuple(m if e == "pair" else S.n(labels[e]) for e in layout))
        return env

    def call(self, fn, env):
        case, arr = env["case"], env["arr"]
        out = arr._setitem(env["indices"], env["value"], inplace=case["inplace"], broadcast=True, **env["kwargs"])
        target = arr if case["inplace"] else out
        # what the same index READS in this mode: _getitem(broadcast=True) takes its values from _getvalues_broadcast at the
        # positions _get_indices returns (the axis it builds next to them -- tuples of labels -- is checked natively: TakeBroadcastNative)
        calls = env["S"].calls("GetIndices")
        pos = calls[0][3] if calls else target._get_indices(env["indices"], **env["kwargs"])
        env["readback"] = target._getvalues_broadcast(pos) if S_is_da(target) else None
        return out

    def raises(self, S, case, env):
        return {IndexError: False, ValueError: False}

    def post(self, S, case, env, result):
        arr, labels, old, m, layout = env["arr"], env["labels"], env["old"], env["m"], env["layout"]
        rank, kinds = case["rank"], case["kinds"]
        target = arr if case["inplace"] else result
        if case["inplace"]:
            yield "in-place-returns-none", result is None
        else:
            yield "copy-returned", S.land(S.is_dimarray(result), result is not arr, S.lnot(S.same_buffer(result.values, arr.values)))
            yield "receiver-untouched", S.forall_nd(S.shape(old), lambda *p: S.same(S.at(arr.values, *p), S.at(old, *p)))
        new = target.values
        v = env["value"]
        calls = S.calls("GetIndices")
        pos = calls[0][3] if calls else target._get_indices(env["indices"], **env["kwargs"])
        selshape = [m if e == "pair" else S.n(labels[e]) for e in layout]

        def cell(sel):
            """the source cell addressed by the selection coordinate `sel` (laid out as `layout`)"""
            k = sel[layout.index("pair")]
            return [S.at(pos[d], k) if kinds[d] == "array" else (sel[layout.index(d)] if kinds[d] == "full" else pos[d]) for d in range(rank)]

        def pair_at(k):
            return [S.at(pos[d], k) if kinds[d] == "array" else pos[d] for d in range(rank) if kinds[d] != "full"]
        if case["value"] == "scalar":
            yield "addressed-cells-hold-the-value", S.forall_nd(selshape, lambda *sel: S.same(S.at(new, *cell(sel)), v))
        else:
            once = S.forall2(0, m, lambda a, b: S.lor(*[x != y for x, y in zip(pair_at(a), pair_at(b))]))
            yield "addressed-cells-hold-the-value", S.implies(once, lambda: S.forall_nd(selshape, lambda *sel: S.same(S.at(new, *cell(sel)), S.at(v, *sel))))
        yield "other-cells-untouched", S.forall_nd(S.shape(old), lambda *p: S.lor(
            S.same(S.at(new, *p), S.at(old, *p)),
            S.exists(0, m, lambda k: S.land(*[x == p[d] for x, d in zip(pair_at(k), [d for d in range(rank) if kinds[d] != "full"])]))))
        rb = env["readback"]
        yield "read-back-has-the-selections-shape", S.land(len(S.shape(rb)) == len(selshape), *[S.shape(rb)[t] == selshape[t] for t in range(min(len(selshape), len(S.shape(rb))))])
        yield "read-back-returns-the-addressed-cells", S.forall_nd(selshape, lambda *sel: S.same(S.at(rb, *sel), S.at(new, *cell(sel))))
        if case["value"] == "scalar":
            yield "read-back-returns-what-was-written", S.forall_nd(selshape, lambda *sel: S.same(S.at(rb, *sel), v))
        yield "labels-dims-metadata-untouched", S.land(
            tuple(target.dims) == tuple("x%d" % d for d in range(rank)), dict(target.attrs) == env["attrs0"],
            *[S.forall(0, S.n(labels[d]), lambda k, d=d: S.at(target.axes[d].values, k) == S.at(labels[d], k)) for d in range(rank)])

    def canaries(self, S, case, env, result):
        target = env["arr"] if case["inplace"] else result
        yield "nothing-written", S.forall_nd(S.shape(env["old"]), lambda *p: S.same(S.at(target.values, *p), S.at(env["old"], *p)))


def S_is_da(x):
    return hasattr(x, "axes") and hasattr(x, "values")


class TakeBroadcastNative(Contract):
    """BOUNDED STAND-IN ONLY (never counted as proved).  a.take((I, J), broadcast=True) (labels or positions; rank 2, and rank 3
    with a full slice before / between the index arrays): the values are the cells at the PAIRS (I[k], J[k]) laid out as NumPy
    lays them out, the paired dimension is one axis named 'x0,x1' (the names of the paired dimensions joined) whose label k is
    the TUPLE of the paired labels, the sliced dimension keeps its axis, metadata is kept, the operand is untouched; with one
    array and one scalar the array's dimension keeps its own name and the selected labels.  The axis of tuples is a Python
    list built by zip: its length is not a symbolic quantity for the verifier.  Labels of length 1-3, index arrays of length
    0-3.  [C03: what 'the cells the same index reads' are in this mode]"""
    target = "dimarray.core.indexing:getaxes_broadcast"
    props = ("C03",)
    native_only = True

    def cases(self, tier):
        for kinds in (["array", "array"], ["array", "scalar"], ["array", "full", "array"], ["full", "array", "array"]):
            for mode in ("position", "label"):
                yield {"name": "%s-%s" % ("+".join(kinds), mode), "kinds": kinds, "indexing": mode, "rank": len(kinds)}

    def setup(self, S, case):
        from .common import assume_order
        labels = []
        for d in range(case["rank"]):
            L = S.array1d("lab%d" % d, "f" if d != 1 else "O")
            assume_order(S, L, "unique")
            S.assume(S.n(L) >= 1, "non-empty")
            labels.append(L)
        data = S.arraynd("data", "f", tuple(S.n(L) for L in labels))
        m = S.length("m")
        q = [S.array1d("q%d" % d, "I", n=m) for d in range(case["rank"])]
        return {"labels": labels, "data": data, "q": q, "m": m, "p": S.int("p")}

    def call(self, fn, env):
        import numpy as np
        S, case = env["S"], env["case"]
        labels = [np.asarray(L) for L in env["labels"]]
        a = S.da.DimArray(np.array(env["data"], dtype=float), axes=[("x%d" % d, L.copy()) for d, L in enumerate(labels)])
        a.attrs["units"] = "K"
        pos = []
        for d, k in enumerate(case["kinds"]):
            n = len(labels[d])
            if k == "array":
                pos.append(np.asarray([int(t) % n for t in np.asarray(env["q"][d])], dtype=int))
            elif k == "scalar":
                pos.append(int(env["p"]) % n)
            else:
                pos.append(slice(None))
        if case["indexing"] == "position":
            key = tuple(pos)
        else:
            key = tuple(p if isinstance(p, slice) else (labels[d][p].tolist() if not isinstance(p, int) else labels[d][p].item() if hasattr(labels[d][p], "item") else labels[d][p]) for d, p in enumerate(pos))
        env.update({"a": a, "before": a.values.copy(), "pos": pos, "nplabels": labels})
        return a.take(key, broadcast=True, indexing=case["indexing"])

    def post(self, S, case, env, result):
        import numpy as np
        a, pos, labels, kinds = env["a"], env["pos"], env["nplabels"], case["kinds"]
        exp = env["before"][tuple(pos)]
        same = lambda x, y: np.asarray(x).shape == np.asarray(y).shape and bool(np.all((np.asarray(x) == np.asarray(y)) | (np.isnan(np.asarray(x, dtype=float)) & np.isnan(np.asarray(y, dtype=float)))))
        yield "is-dimarray", S.is_dimarray(result)
        yield "values-are-the-cells-at-the-pairs", same(result.values, exp)
        arrs = [d for d, k in enumerate(kinds) if k == "array"]
        full = [d for d, k in enumerate(kinds) if k == "full"]
        if len(arrs) == 2:
            pname = ",".join("x%d" % d for d in arrs)
            plabels = [tuple(labels[d][pos[d][k]].item() if hasattr(labels[d][pos[d][k]], "item") else labels[d][pos[d][k]] for d in arrs) for k in range(len(pos[arrs[0]]))]
            if not full:
                dims = [pname]
            elif full[0] == 1:
                dims = [pname, "x1"]
            else:
                dims = ["x0", pname]
            yield "dims", list(result.dims) == dims
            if list(result.dims) == dims:
                got = [tuple(t) for t in result.axes[pname].values.tolist()] if len(plabels) else list(result.axes[pname].values)
                yield "paired-axis-holds-the-tuples-of-labels", got == plabels
                if full:
                    yield "sliced-axis-kept", list(result.axes["x%d" % full[0]].values) == list(labels[full[0]])
        else:
            d = arrs[0]
            yield "dims", list(result.dims) == ["x%d" % d]
            if list(result.dims) == ["x%d" % d]:
                yield "axis-holds-the-selected-labels", list(result.axes[0].values) == list(labels[d][pos[d]])
        yield "metadata-kept", dict(result.attrs) == {"units": "K"}
        yield "operand-untouched", same(a.values, env["before"]) and all(list(a.axes[d].values) == list(labels[d]) for d in range(case["rank"]))


class IndexFormsNative(Contract):
    """BOUNDED STAND-IN ONLY (never counted as proved).  Equivalent SPELLINGS of one index give one result: a boolean mask as a
    Python list / a tuple-free ndarray; labels as list / tuple-in-a-list / ndarray / range; slice bounds as Python numbers /
    NumPy scalars of every width (np.int64, np.int32, np.float64, np.float32 for exactly representable bounds) -- through
    a[...], take(axis=), take({dim: idx}), .loc, .sel, and .ix for positions.  The reference spelling (ndarray / Python number)
    is the one the proved contracts of C01 / C02 are about; Python-level type tests on the index (hasattr dtype, isinstance
    int / float) are invisible to the symbolic engine, whose index values are its own wrappers.  [C01, C02]"""
    target = "dimarray.core.bases:AbstractHasAxes._get_indices"
    props = ("C01", "C02")
    native_only = True

    def cases(self, tier):
        for form in ("mask-list", "labels-tuple-range", "slice-numpy-scalars", "slice-numpy-scalars-int-axis", "position-numpy-ints"):
            for rank in (1, 2):
                yield {"name": "%s-r%d" % (form, rank), "form": form, "rank": rank}

    def setup(self, S, case):
        from .common import assume_order
        L0 = S.array1d("lab0", "f")
        assume_order(S, L0, "inc" if case["form"].startswith("slice") else "unique")
        S.assume(S.n(L0) >= 1, "non-empty")
        labels = [L0]
        if case["rank"] == 2:
            L1 = S.array1d("lab1", "O")
            assume_order(S, L1, "unique")
            S.assume(S.n(L1) >= 1, "non-empty")
            labels.append(L1)
        return {"labels": labels, "data": S.arraynd("data", "f", tuple(S.n(L) for L in labels)), "mask": S.array1d("mask", "b", n=S.n(L0)),
                "q": S.array1d("q", "I"), "lo": S.int("lo"), "hi": S.int("hi")}

    def call(self, fn, env):
        import numpy as np
        S, case = env["S"], env["case"]
        labs = [np.asarray(L, dtype=float) if d == 0 else np.asarray(L) for d, L in enumerate(env["labels"])]
        if case["form"] == "slice-numpy-scalars-int-axis":
            labs[0] = (np.arange(len(labs[0])) * 2 + 1).astype(np.int64)          # 1, 3, 5, ...: an INTEGER axis
        a = S.da.DimArray(np.array(env["data"], dtype=float), axes=[("x%d" % d, L.copy()) for d, L in enumerate(labs)])
        n = len(labs[0])
        mask = np.asarray(env["mask"], dtype=bool)
        q = [int(t) % n for t in np.asarray(env["q"])]
        form = case["form"]
        pairs = []          # (reference spelling, [equivalent spellings])
        if form == "mask-list":
            ref = lambda: a[mask]
            alts = [lambda: a[mask.tolist()], lambda: a.take(mask.tolist(), axis="x0"), lambda: a.take({"x0": mask.tolist()}), lambda: a.sel(x0=mask.tolist()),
                    lambda: a.loc[mask.tolist()], lambda: a.ix[mask.tolist()], lambda: a.take(mask.tolist(), axis=0, indexing="position")]
            pairs.append((ref, alts))
        elif form == "labels-tuple-range":
            labsel = labs[0][q] if q else labs[0][:0]
            ref = lambda: a[np.asarray(labsel)]
            alts = [lambda: a[labsel.tolist()], lambda: a.take(labsel.tolist(), axis="x0"), lambda: a.take({"x0": tuple(labsel.tolist())}) if len(labsel) else a[labsel.tolist()],
                    lambda: a.sel(x0=labsel.tolist()), lambda: a.loc[labsel.tolist()]]
            pairs.append((ref, alts))
            pairs.append((lambda: a.ix[np.asarray(q, dtype=int)] if q else a.ix[[]], [lambda: a.ix[q], lambda: a.ix[range(0)] if not q else a.ix[list(q)],
                                                                                       lambda: a.take(q, axis=0, indexing="position")]))
        elif form in ("slice-numpy-scalars", "slice-numpy-scalars-int-axis"):
            lo, hi = int(env["lo"]) % (2 * n + 2) - 1, int(env["hi"]) % (2 * n + 2) - 1          # small integers around the labels' range
            if form == "slice-numpy-scalars":
                labs0 = labs[0]
                # bounds on / between the labels, chosen exactly representable in float32 (integers and halves)
                lo, hi = float(np.floor(labs0.min())) + lo * 0.5, float(np.floor(labs0.min())) + hi * 0.5
            ref = lambda: a[float(lo):float(hi)] if form == "slice-numpy-scalars" else a[int(lo):int(hi)]
            scal = [np.float64, np.float32] if form == "slice-numpy-scalars" else [np.int64, np.int32, np.float64, np.float32, np.uint8 if lo >= 0 and hi >= 0 else np.int16]
            alts = []
            for t in scal:
                alts.append(lambda t=t: a[t(lo):t(hi)])
                alts.append(lambda t=t: a.loc[t(lo):t(hi)])
                alts.append(lambda t=t: a.sel(x0=slice(t(lo), t(hi))))
                alts.append(lambda t=t: a[t(lo):])
                alts.append(lambda t=t: a[:t(hi):-1] if False else a[:t(hi)])
            pairs.append((ref, alts[0::5] + alts[1::5] + alts[2::5]))
            pairs.append((lambda: a[(float(lo) if form == "slice-numpy-scalars" else int(lo)):], alts[3::5]))
            pairs.append((lambda: a[:(float(hi) if form == "slice-numpy-scalars" else int(hi))], alts[4::5]))
        else:
            p = q[0] if q else 0
            pairs.append((lambda: a.ix[p], [lambda: a.ix[np.int64(p)], lambda: a.ix[np.int32(p)], lambda: a.take(np.int64(p), axis=0, indexing="position"), lambda: a.isel(x0=np.int64(p))]))
            pairs.append((lambda: a.ix[p:], [lambda: a.ix[np.int64(p):], lambda: a.isel(x0=slice(np.int64(p), None))]))
        env["pairs"] = pairs
        return a

    def post(self, S, case, env, result):
        import numpy as np

        def norm(x):
            if S.is_dimarray(x):
                v = np.asarray(x.values)
                return ("da", tuple(x.dims), [[repr(t) for t in list(ax.values)] for ax in x.axes], v.shape, [repr(t) for t in v.ravel().tolist()])
            return ("py", repr(x))

        def run(f):
            try:
                return ("ok", norm(f()))
            except Exception as e:
                return ("raises", type(e).__name__)
        ok, detail = True, None
        for ref, alts in env["pairs"]:
            r = run(ref)
            for i, f in enumerate(alts):
                o = run(f)
                if o != r and ok:
                    ok, detail = False, (i, str(r)[:120], str(o)[:120])
        env["detail"] = detail
        yield "every-spelling-gives-the-reference-spellings-result", ok
