"""Contracts for dimarray/core/align.py: stack, concatenate  [C12]"""
from dverif.contract_base import Contract
from .common import assume_order, absent
from dverif.stubs import stub_of

NEW = "k"


def _make_arrays(S, case):
    """k arrays over the same dimension set x0..x{rank-1}; array j lists them in the order case['orders'][j]; every array
    has its own symbolic labels and data"""
    rank = case["rank"]
    arrays, labels, datas = [], [], []
    for j, order in enumerate(case["orders"]):
        labs = {}
        axes = []
        for d in order:
            L = S.array1d("a%d.lab%d" % (j, d), "f")
            assume_order(S, L, "unique")
            labs[d] = L
            axes.append(S.da.Axis(L, "x%d" % d))
        data = S.arraynd("a%d.data" % j, (case.get("dks") or ["f"] * 9)[j], tuple(S.n(labs[d]) for d in order))
        arr = S.da.DimArray(data, axes=axes)
        arr.attrs.update({"units": "K"})
        arrays.append(arr)
        labels.append(labs)
        datas.append(data)
    return {"arrays": arrays, "labels": labels, "datas": datas, "old": [S.snapshot(x) for x in datas], "rank": rank}


def _labels_differ(S, La, Lb):
    return S.lor(S.n(La) != S.n(Lb), S.exists(0, S.n(La), lambda p: S.implies(p < S.n(Lb), lambda: S.at(La, p) != S.at(Lb, p))))


def _labels_equal(S, La, Lb):
    return S.land(S.n(La) == S.n(Lb), S.forall(0, S.n(La), lambda p: S.implies(p < S.n(Lb), lambda: S.at(La, p) == S.at(Lb, p))))


def _at_by_name(S, arr, order, coords):
    """arr[...] at the coordinate {dimension index: position}, whatever order arr lists its dimensions in"""
    return S.at(arr, *[coords[d] for d in order])


def _inputs_untouched(S, case, env):
    out = []
    for j, order in enumerate(case["orders"]):
        a = env["arrays"][j]
        out.append(S.land(a.values is env["datas"][j], tuple(a.dims) == tuple("x%d" % d for d in order), dict(a.attrs) == {"units": "K"},
                          *[a.axes[i].values is env["labels"][j][d] for i, d in enumerate(order)]))
        out.append(S.forall_nd(S.shape(env["old"][j]), lambda *p, j=j: S.same(S.at(env["datas"][j], *p), S.at(env["old"][j], *p))))
    return S.land(*out)


def _orders(rank, k, swapped):
    base = tuple(range(rank))
    if not swapped:
        return [base] * k
    if rank == 2:
        other = (1, 0)
    else:
        other = {"secondary": (0, 2, 1), "all": (2, 0, 1)}[swapped]
    return [base] + [other] * (k - 1)


class Stack(Contract):
    """stack(arrays, axis=new, keys) without align: the result's first dimension is the new axis, labelled by the keys
    (0..k-1 by default); its other dimensions are the inputs' dimensions; the slice at key j holds arrays[j] -- the cell at
    every LABEL coordinate (matched by dimension name, whatever order array j lists its dimensions in) is arrays[j]'s cell
    at that coordinate; ValueError is raised whenever some input's labels on some dimension differ from the first input's
    (in content, order or number), and is allowed (refusal) when only the order of the dimensions differs; the result
    carries none of the inputs' metadata; the inputs are untouched.  Lists, tuples and dicts of arrays.  [C12, C16, C15]"""
    target = "dimarray.core.align:stack"
    props = ("C12", "C16", "C15")
    inlined = ("_check_stack_args", "_check_stack_axis", "get_dims", "_get_axes", "Axis.__init__", "_constructor")

    def cases(self, tier):
        for rank in (1, 2, 3):
            for k in (1, 2, 3):
                if (k == 3 or rank == 3) and tier == "quick" and not (k == 2 and rank == 3):
                    continue
                for swapped in ([False] + ([True] if rank == 2 and k >= 2 else []) + (["all"] if rank == 3 and k >= 2 else [])):
                    for form in ("list", "tuple", "dict"):
                        for keys in ("default", "str", "int"):
                            if form == "dict" and keys == "int":
                                continue
                            if (form == "tuple" or keys == "int") and (rank > 1 or k != 2):
                                continue
                            yield {"name": "r%d-k%d-%s-%s-keys_%s" % (rank, k, {False: "same_order", True: "swapped", "all": "rotated"}[swapped], form, keys),
                                   "rank": rank, "k": k, "orders": _orders(rank, k, swapped), "swapped": bool(swapped), "form": form, "keys": keys}
        # inputs of DIFFERENT data types (the narrower one first): every slice still holds its input's cells exactly
        for dks in (["I", "f"], ["f", "I"]):
            for rank in (1, 2):
                yield {"name": "r%d-k2-same_order-list-keys_default-data_%s" % (rank, "".join(dks)), "rank": rank, "k": 2, "orders": _orders(rank, 2, False),
                       "swapped": False, "form": "list", "keys": "default", "dks": dks}

    def bound_lengths(self, case):
        return ["a%d.lab%d.n" % (j, d) for j in range(case["k"]) for d in range(case["rank"])]

    def setup(self, S, case):
        env = _make_arrays(S, case)
        k = case["k"]
        # (descending: insertion order and sorted order of the keys differ, so a mix-up between keys and arrays is visible)
        names = ["v%d" % (k - 1 - j) for j in range(k)]
        env["keys"] = {"default": list(range(k)), "str": names, "int": [10 * (k - j) for j in range(k)]}[case["keys"]]
        return env

    def call(self, fn, env):
        case, arrays = env["case"], env["arrays"]
        if case["form"] == "dict":
            # dict form: the keys of the dict label the new axis (insertion order)
            if case["keys"] != "str":
                env["keys"] = [case["k"] - 1 - j for j in range(case["k"])]      # integer dict keys, descending
            arg = dict(zip(env["keys"], arrays))
            return fn(arg, axis=NEW)
        arg = list(arrays) if case["form"] == "list" else tuple(arrays)
        if case["keys"] == "default":
            return fn(arg, axis=NEW)
        return fn(arg, axis=NEW, keys=list(env["keys"]))

    def _differ(self, S, case, env):
        return S.lor(*[_labels_differ(S, env["labels"][j][d], env["labels"][0][d]) for j in range(1, case["k"]) for d in range(case["rank"])]) \
            if case["k"] > 1 else False

    def raises(self, S, case, env):
        must = self._differ(S, case, env)
        may = S.lor(must, case["swapped"])
        return {ValueError: (must, may)}

    def post(self, S, case, env, result):
        rank, k = case["rank"], case["k"]
        L0 = env["labels"][0]
        yield "is-dimarray", S.is_dimarray(result)
        ok = len(result.dims) == rank + 1 and result.dims[0] == NEW
        yield "first-dimension-is-the-new-axis", ok
        ok = ok and sorted(result.dims[1:]) == ["x%d" % d for d in range(rank)]
        yield "other-dimensions-are-the-inputs", ok
        if not ok:
            return            # the remaining clauses are stated over that arrangement
        rorder = [int(nm[1:]) for nm in result.dims[1:]]
        K = result.axes[0].values
        yield "new-axis-labelled-by-the-keys", S.land(S.n(K) == k, *[S.at(K, j) == env["keys"][j] for j in range(k)])
        for i, d in enumerate(rorder):
            Lr = result.axes[i + 1].values
            yield "x%d:labels-are-the-inputs" % d, _labels_equal(S, Lr, L0[d])
        shape = [S.n(L0[d]) for d in range(rank)]
        rv = result.values
        for j in range(k):
            yield "slice-%d-holds-array-%d-at-every-label-coordinate" % (j, j), S.forall_nd(shape, lambda *p, j=j: S.same(
                S.at(rv, j, *[p[d] for d in rorder]), _at_by_name(S, env["old"][j], case["orders"][j], p)))
        if case.get("dks"):
            yield "result-can-hold-every-inputs-values", S.kind(rv) == "f"
        yield "no-metadata-of-the-inputs", len(result.attrs) == 0
        yield "inputs-untouched", _inputs_untouched(S, case, env)

    def canaries(self, S, case, env, result):
        if case["k"] > 1:
            yield "slices-are-equal", S.same(S.at(result.values, 0, *([0] * case["rank"])), S.at(result.values, 1, *([0] * case["rank"])))
        else:
            yield "first-cell-is-nan", S.isnan(S.at(result.values, 0, *([0] * case["rank"])))


class Concatenate(Contract):
    """concatenate(arrays, axis=d) without align: NumPy's concatenation along d -- the result's labels on d are the inputs'
    labels on d one after the other, block j of the result holds arrays[j] at every label coordinate (dimensions matched by
    NAME), the other axes carry the first input's labels; ValueError is raised whenever some input's labels on another
    dimension differ from the first input's, and is allowed (refusal) when only the order of the dimensions differs; no
    metadata of the inputs; inputs untouched.  [C12, C16, C15]"""
    target = "dimarray.core.align:concatenate"
    props = ("C12", "C16", "C15")
    inlined = ("_concatenate_axes", "Axis.__init__", "_constructor")

    def cases(self, tier):
        for rank in (1, 2, 3):
            for k in (1, 2, 3):
                if tier == "quick" and (k == 3 and rank > 1 or k == 1 and rank > 1):
                    continue
                swaps = [False]
                if k >= 2 and rank == 2:
                    swaps.append(True)
                if k >= 2 and rank == 3:
                    swaps += ["secondary", "all"]
                for swapped in swaps:
                    for d in range(rank):
                        if rank == 3 and tier == "quick" and d == 1:
                            continue
                        for by in ("name", "position") + (("default",) if d == 0 else ()):
                            if by != "name" and (swapped or rank == 3):
                                continue
                            yield {"name": "r%d-k%d-%s-axis%d-by_%s" % (rank, k, {False: "same_order", True: "swapped", "secondary": "secondary_swapped", "all": "rotated"}[swapped], d, by),
                                   "rank": rank, "k": k, "orders": _orders(rank, k, swapped), "swapped": bool(swapped), "d": d, "by": by}

    def bound_lengths(self, case):
        return ["a%d.lab%d.n" % (j, d) for j in range(case["k"]) for d in range(case["rank"])]

    def setup(self, S, case):
        return _make_arrays(S, case)

    def call(self, fn, env):
        case = env["case"]
        arg = list(env["arrays"])
        if case["by"] == "default":
            return fn(arg)
        return fn(arg, axis="x%d" % case["d"] if case["by"] == "name" else case["d"])

    def raises(self, S, case, env):
        d0 = case["d"]
        must = S.lor(*[_labels_differ(S, env["labels"][j][d], env["labels"][0][d]) for j in range(1, case["k"]) for d in range(case["rank"]) if d != d0]) \
            if case["k"] > 1 and case["rank"] > 1 else False
        may = S.lor(must, case["swapped"])
        return {ValueError: (must, may)}

    def post(self, S, case, env, result):
        rank, k, d0 = case["rank"], case["k"], case["d"]
        L0 = env["labels"][0]
        yield "is-dimarray", S.is_dimarray(result)
        ok = sorted(result.dims) == ["x%d" % d for d in range(rank)] and len(result.dims) == rank
        yield "dimensions-are-the-inputs", ok
        if not ok:
            return
        if not case["swapped"]:
            yield "dimensions-in-the-inputs-order", tuple(result.dims) == tuple("x%d" % d for d in range(rank))
        rorder = [int(nm[1:]) for nm in result.dims]
        sizes = [S.n(env["labels"][j][d0]) for j in range(k)]
        offs = [0]
        for s in sizes[:-1]:
            offs.append(offs[-1] + s)
        total = offs[-1] + sizes[-1]
        for i, d in enumerate(rorder):
            Lr = result.axes[i].values
            if d == d0:
                yield "x%d:labels-concatenated-in-order" % d, S.land(S.n(Lr) == total, *[
                    S.forall(0, sizes[j], lambda p, j=j, Lr=Lr: S.implies(offs[j] + p < S.n(Lr), lambda: S.at(Lr, offs[j] + p) == S.at(env["labels"][j][d0], p)))
                    for j in range(k)])
            else:
                yield "x%d:labels-unchanged" % d, _labels_equal(S, Lr, L0[d])
        rv = result.values
        for j in range(k):
            shape = [S.n(env["labels"][j][d0]) if d == d0 else S.n(L0[d]) for d in range(rank)]
            def cell(*p, j=j):
                q = list(p); q[d0] = offs[j] + p[d0]
                return S.same(S.at(rv, *[q[d] for d in rorder]), _at_by_name(S, env["old"][j], case["orders"][j], p))
            yield "block-%d-holds-array-%d-at-every-label-coordinate" % (j, j), S.forall_nd(shape, cell)
        yield "no-metadata-of-the-inputs", len(result.attrs) == 0
        yield "inputs-untouched", _inputs_untouched(S, case, env)

    def canaries(self, S, case, env, result):
        yield "concatenated-axis-has-the-first-inputs-length", S.n(result.axes["x%d" % case["d"]].values) == S.n(env["labels"][0][case["d"]]) \
            if case["k"] > 1 else S.isnan(S.at(result.values, *([0] * case["rank"])))


class JoinAligned(Contract):
    """BOUNDED STAND-IN ONLY (never counted as proved).  stack / concatenate with align=True (sort in {False, True}): the
    secondary axes are first aligned by an outer join -- align() itself is proved under C06, this composition is not -- so
    every secondary axis of the result carries each label of every input exactly once (ascending under sort=True), each
    input's cell stays at its own LABEL coordinate and every coordinate an input lacks is NaN in its slice / block.
    Evaluated on the real code over pairs of arrays of rank 1-2 with unsorted, overlapping or disjoint labels of length
    <= 3 over a 5-value alphabet, dimensions in the same or in swapped order.  [C12]"""
    target = "dimarray.core.align:stack"
    props = ("C12",)
    native_only = True

    def cases(self, tier):
        for func in ("stack", "concatenate"):
            for rank in (1, 2):
                for swapped in (False, True) if rank == 2 else (False,):
                    for sort in (False, True):
                        if func == "concatenate" and rank == 1:
                            continue          # no secondary axis to align
                        for offset in (0, 10 ** 7):
                            # labels far from zero: distinct labels whose spacing is tiny relative to their magnitude (dates as
                            # integers, coordinates in metres) must still be told apart
                            if offset and (swapped or sort):
                                continue
                            yield {"name": "%s-r%d-%s-%s%s" % (func, rank, "swapped" if swapped else "same_order", "sort" if sort else "nosort", "-far_from_zero" if offset else ""),
                                   "func": func, "rank": rank, "k": 2, "orders": _orders(rank, 2, swapped), "swapped": swapped, "sort": sort, "offset": offset}

    def setup(self, S, case):
        env = _make_arrays(S, case)
        if case.get("offset"):
            import numpy as np
            for j, arr in enumerate(env["arrays"]):
                for d, ax in zip(case["orders"][j], arr.axes):
                    ax.values = np.asarray(ax.values) + float(case["offset"])
                    env["labels"][j][d] = ax.values
        return env

    def call(self, fn, env):
        import dimarray
        case = env["case"]
        if case["func"] == "stack":
            return dimarray.stack(list(env["arrays"]), axis=NEW, align=True, sort=case["sort"])
        return dimarray.concatenate(list(env["arrays"]), axis="x0", align=True, sort=case["sort"])

    def raises(self, S, case, env):
        return {ValueError: (False, case["swapped"])}

    def post(self, S, case, env, result):
        import numpy as np
        rank, k = case["rank"], case["k"]
        labs = [{d: [float(v) for v in np.asarray(env["labels"][j][d])] for d in range(rank)} for j in range(k)]
        datas = [np.asarray(env["datas"][j], dtype=float) for j in range(k)]
        yield "is-dimarray", S.is_dimarray(result)
        dims = list(result.dims)
        conc_dim = 0 if case["func"] == "concatenate" else None
        expect_dims = ["x%d" % d for d in range(rank)]
        ok = (dims[0] == NEW and sorted(dims[1:]) == expect_dims) if case["func"] == "stack" else sorted(dims) == expect_dims
        yield "dimensions", ok
        if not ok:
            return
        out_labs = {int(nm[1:]): [float(v) for v in result.axes[nm].values] for nm in dims if nm != NEW}
        ok_axes, ok_sorted = True, True
        for d in range(rank):
            if d == conc_dim:
                ok_axes = ok_axes and out_labs[d] == labs[0][d] + labs[1][d]
                continue
            union = set(labs[0][d]) | set(labs[1][d])
            ok_axes = ok_axes and len(out_labs[d]) == len(union) and set(out_labs[d]) == union
            if case["sort"]:
                ok_sorted = ok_sorted and out_labs[d] == sorted(out_labs[d])
        yield "secondary-axes-carry-every-label-once", ok_axes
        yield "ascending-under-sort", ok_sorted
        rv = np.asarray(result.values, dtype=float)
        own, nan_elsewhere = True, True
        if ok_axes:
            for j in range(k):
                order = case["orders"][j]
                for idx in np.ndindex(*[len(out_labs[d]) for d in range(rank)]):
                    coord = {d: out_labs[d][idx[d]] for d in range(rank)}
                    if case["func"] == "stack":
                        ridx = [j] + [idx[int(nm[1:])] for nm in dims[1:]]
                    else:
                        # block j of the concatenated axis
                        lo = 0 if j == 0 else len(labs[0][0])
                        if not lo <= idx[0] < lo + len(labs[j][0]):
                            continue
                        ridx = [idx[int(nm[1:])] for nm in dims]
                    got = rv[tuple(ridx)]
                    if case["func"] == "concatenate":
                        src = {0: idx[0] - lo}
                        present = all(coord[d] in labs[j][d] for d in range(1, rank))
                        for d in range(1, rank):
                            if coord[d] in labs[j][d]:
                                src[d] = labs[j][d].index(coord[d])
                    else:
                        present = all(coord[d] in labs[j][d] for d in range(rank))
                        src = {d: labs[j][d].index(coord[d]) for d in range(rank) if coord[d] in labs[j][d]}
                    if present:
                        want = datas[j][tuple(src[d] for d in order)]
                        own = own and (got == want or (np.isnan(got) and np.isnan(want)))
                    else:
                        nan_elsewhere = nan_elsewhere and bool(np.isnan(got))
        yield "each-inputs-data-stays-at-its-own-labels", own
        yield "coordinates-an-input-lacks-are-nan", nan_elsewhere
        yield "inputs-untouched", all(np.array_equal(np.asarray(env["arrays"][j].values), datas[j], equal_nan=True) and
                                     all([float(v) for v in env["arrays"][j].axes["x%d" % d].values] == labs[j][d] for d in range(rank)) for j in range(k))



class JoinAlignedProof(Contract):
    """stack / concatenate with align=True (sort=False), proved against the callee contracts of _get_aligned_axes and
    reindex_axis (the real align body is executed): with `common` the axes _get_aligned_axes returned for the inputs, every
    secondary dimension of the result carries exactly the common axis; in stack's slice j / concatenate's block j the cell at
    every label coordinate the j-th input HAS is that input's cell, and the cell at every coordinate it lacks is NaN; the
    inputs are untouched.  (That the common axis is the union of the inputs' labels, each once, is AxisUnion's contract, C06.)
    Inputs list their dimensions in the same order.  [C12]"""
    target = "dimarray.core.align:stack"
    props = ("C12",)
    inlined = ("align (own contract: Align, C06)", "_get_axes", "_concatenate_axes", "Axis.__eq__")
    max_paths = 900

    def _uses(self):
        from .align import ReindexAxis, GetAlignedAxes
        return (stub_of(ReindexAxis), stub_of(GetAlignedAxes))

    @property
    def uses(self):
        if not hasattr(self, "_u"):
            self._u = self._uses()
        return self._u

    def cases(self, tier):
        yield {"name": "stack-r1", "func": "stack", "rank": 1, "k": 2, "orders": _orders(1, 2, False), "swapped": False}
        yield {"name": "stack-r2", "func": "stack", "rank": 2, "k": 2, "orders": _orders(2, 2, False), "swapped": False}
        yield {"name": "concatenate-r2-axis0", "func": "concatenate", "rank": 2, "k": 2, "orders": _orders(2, 2, False), "swapped": False}

    def bound_lengths(self, case):
        return ["a%d.lab%d.n" % (j, d) for j in range(case["k"]) for d in range(case["rank"])]

    def setup(self, S, case):
        env = _make_arrays(S, case)
        for j in range(case["k"]):
            for d in range(case["rank"]):
                S.tag(env["arrays"][j].axes[d].values, "order", "unique")
        return env

    def call(self, fn, env):
        import importlib
        mod = importlib.import_module("dimarray.core.align")
        if env["case"]["func"] == "stack":
            return mod.stack(list(env["arrays"]), axis=NEW, align=True)
        return mod.concatenate(list(env["arrays"]), axis="x0", align=True)

    def raises(self, S, case, env):
        return {IndexError: False}

    def _common(self, S, env):
        out = {}
        calls = S.calls("GetAlignedAxes")
        for c in calls:
            for ax in c[3]:
                out[ax.name] = ax.values
        if not calls:
            # natively there is no call log: ask the real function the same questions stack / concatenate ask
            import importlib
            mod = importlib.import_module("dimarray.core.align")
            case = env["case"]
            if case["func"] == "stack":
                for ax in mod._get_aligned_axes(list(env["arrays"]), strict=True):
                    out[ax.name] = ax.values
            else:
                arrays = list(env["arrays"])
                for d in range(1, case["rank"]):
                    for ax in mod._get_aligned_axes(arrays, axis="x%d" % d, strict=True):
                        out[ax.name] = ax.values
        return out

    def post(self, S, case, env, result):
        rank, k, func = case["rank"], case["k"], case["func"]
        common = self._common(S, env)
        sec = list(range(rank)) if func == "stack" else list(range(1, rank))
        yield "one-common-axis-per-secondary-dimension", sorted(common) == ["x%d" % d for d in sec]
        yield "is-dimarray", S.is_dimarray(result)
        want = ([NEW] if func == "stack" else []) + ["x%d" % d for d in range(rank)]
        ok = list(result.dims) == want
        yield "dimensions", ok
        if not ok or sorted(common) != ["x%d" % d for d in sec]:
            return
        off = 1 if func == "stack" else 0
        R = {}
        for d in range(rank):
            Lr = result.axes[off + d].values
            R[d] = Lr
            if d in sec:
                C = common["x%d" % d]
                yield "x%d:carries-the-common-axis" % d, S.land(S.n(Lr) == S.n(C), S.forall(0, S.n(C), lambda i, Lr=Lr, C=C: S.implies(i < S.n(Lr), lambda: S.at(Lr, i) == S.at(C, i))))
        rv = result.values
        sizes0 = [S.n(env["labels"][j][0]) for j in range(k)]
        offs = [0, sizes0[0]]
        if func == "concatenate":
            Lr = R[0]
            yield "x0:labels-concatenated-in-order", S.land(S.n(Lr) == sizes0[0] + sizes0[1], *[
                S.forall(0, sizes0[j], lambda p, j=j: S.implies(offs[j] + p < S.n(Lr), lambda: S.at(Lr, offs[j] + p) == S.at(env["labels"][j][0], p))) for j in range(k)])
        for j in range(k):
            labs, old = env["labels"][j], env["old"][j]
            shape = [S.n(R[d]) if d in sec else sizes0[j] for d in range(rank)]

            def ridx(c, j=j):
                c = list(c)
                if func == "stack":
                    return [j] + c
                c[0] = offs[j] + c[0]
                return c

            def present(*c, j=j, labs=labs, old=old):
                # for every position tuple p of input j whose labels are the result's labels at c: the cell is input j's
                def inner(*p):
                    match = S.land(*[S.at(labs[d], p[i]) == S.at(R[d], c[d]) for i, d in enumerate(sec)])
                    src = [p[sec.index(d)] if d in sec else c[d] for d in range(rank)]
                    return S.implies(match, lambda: S.same(S.at(rv, *ridx(c)), S.at(old, *src)))
                return S.forall_nd([S.n(labs[d]) for d in sec], inner)
            yield "input-%d:present-labels-keep-their-data" % j, S.forall_nd(shape, present)

            def missing(*c, j=j, labs=labs):
                lacks = S.lor(*[absent(S, labs[d], S.at(R[d], c[d])) for d in sec])
                return S.implies(lacks, lambda: S.isnan(S.at(rv, *ridx(c))))
            yield "input-%d:coordinates-it-lacks-are-nan" % j, S.forall_nd(shape, missing)
        yield "inputs-untouched", _inputs_untouched(S, case, env)

    def canaries(self, S, case, env, result):
        yield "result-is-empty", S.shape(result.values)[-1] == 0
