"""Contracts for dimarray/core/align.py (and the DimArray methods it implements)"""
from dverif.contract_base import Contract
from dverif.stubs import stub_of
from .common import absent, assume_order, unique, strictly_increasing, strictly_decreasing
from . import indexing as ix
from .bases import make_dimarray, DIM_KINDS


def other_axes_equal(S, result, labels, skip, names=None):
    """every axis except `skip` has the same name and labels as the operand's"""
    cs = []
    for d, L in enumerate(labels):
        if d == skip:
            continue
        ax = result.axes[d]
        cs.append(ax.name == (names[d] if names else "x%d" % d))
        cs.append(S.n(ax.values) == S.n(L))
        cs.append(S.forall(0, S.n(L), lambda k, ax=ax, L=L: S.at(ax.values, k) == S.at(L, k)))
    return S.land(*cs)


def cell(S, arr, idx, d, k):
    """arr[idx with position d replaced by k]"""
    idx = list(idx)
    idx[d] = k
    return S.at(arr, *idx)


class TakeAxis(Contract):
    """DimArray.take_axis(indices, axis, indexing='position'): the slices at the listed positions, in the
    listed order (repeats kept), each with its label; other axes deep-copied and equal; metadata carried;
    IndexError iff a position is out of range.  [C07, C17]"""
    target = "dimarray.core.dimarraycls:DimArray.take_axis"
    props = ("C07", "C17", "C16", "C15")
    inlined = ("_get_axis_info", "Axis.take", "Axes.copy / Axis.copy (deepcopy)", "_constructor", "DimArray.__init__")

    def cases(self, tier):
        for rank in (1, 2, 3) if tier != "quick" else (1, 2):
            for d in range(rank):
                for by in ("name", "pos"):
                    yield {"name": "r%d-axis%d-by%s" % (rank, d, by), "rank": rank, "d": d, "by": by}

    def bound_lengths(self, case):
        return ["lab%d.n" % d for d in range(case["rank"])] + ["idx.n"]

    def setup(self, S, case):
        arr, labels, data = make_dimarray(S, case["rank"], attrs={"units": "K"})
        idx = S.array1d("idx", "I")
        axis = "x%d" % case["d"] if case["by"] == "name" else case["d"]
        return {"arr": arr, "labels": labels, "data": data, "idx": idx, "axis": axis}

    def call(self, fn, env):
        return env["arr"].take_axis(env["idx"], axis=env["axis"], indexing="position")

    def raises(self, S, case, env):
        n = S.n(env["labels"][case["d"]])
        q = env["idx"]
        return {IndexError: S.exists(0, S.n(q), lambda j: S.lor(S.at(q, j) < -n, S.at(q, j) >= n))}

    def post(self, S, case, env, result):
        arr, labels, data, q, d = env["arr"], env["labels"], env["data"], env["idx"], case["d"]
        n, m = S.n(labels[d]), S.n(q)
        src = lambda k: S.ite(S.at(q, k) < 0, S.at(q, k) + n, S.at(q, k))
        yield "dims-kept", tuple(result.dims) == tuple(arr.dims)
        Lr = result.axes[d].values
        yield "taken-axis-labels", S.land(S.n(Lr) == m, S.forall(0, m, lambda k: S.at(Lr, k) == S.at(labels[d], src(k))))
        yield "other-axes-equal", other_axes_equal(S, result, labels, d)
        yield "other-axes-are-copies", all(result.axes[e] is not arr.axes[e] and not S.same_buffer(result.axes[e].values, labels[e])
                                          for e in range(case["rank"]) if e != d)
        shape = [S.n(L) if e != d else m for e, L in enumerate(labels)]
        yield "cells", S.forall_nd(shape, lambda *ks: S.same(S.at(result.values, *ks), cell(S, data, ks, d, src(ks[d]))))
        yield "metadata-copied", S.land(dict(result.attrs) == {"units": "K"}, result.attrs is not arr.attrs)
        yield "operand-untouched", S.land(arr.values is data, *[arr.axes[e].values is labels[e] for e in range(case["rank"])])

    def canaries(self, S, case, env, result):
        yield "one-label-too-many", S.n(result.axes[case["d"]].values) == S.n(env["idx"]) + 1


class ReindexAxis(Contract):
    """reindex_axis(new, axis, fill_value=nan, raise_error, method): the result's axis is exactly `new`
    (same order, repeats kept); the slice at new[k] is the operand's slice at that label when the label
    exists and the fill otherwise (integer data widened to float only when something is filled);
    raise_error=True raises IndexError iff some label is missing; method='left'/'right' takes instead the
    slice of the neighbouring label in sorted order that searchsorted designates (the first label >= / >
    the requested one, or the largest label when there is none); other axes, metadata kept; the operand is
    not modified.  [C07]"""
    target = "dimarray.core.align:reindex_axis"
    props = ("C07", "C15", "C16")
    uses = (stub_of(ix.LocateMany, also=("dimarray.core.bases", "dimarray.core.align")),)
    inlined = ("take_axis (own contract: TakeAxis)", "put -> _setitem -> _get_indices -> _setvalues_ortho (own contracts)",
               "Axis.__setitem__", "_maybe_cast_type (own contract)")
    max_paths = 800

    def cases(self, tier):
        for rank in (1, 2):
            for d in range(rank):
                for lk in ("f", "O"):
                    if DIM_KINDS[d] != lk and rank == 2:
                        continue
                    for given in ("ndarray", "Axis"):
                        for method in (None, "left", "right"):
                            for raise_error in (False, True):
                                for dk in ("f", "I"):
                                    if method and (raise_error or lk == "O" and False):
                                        continue
                                    if given == "Axis" and (method or raise_error or dk == "I"):
                                        continue
                                    yield {"name": "r%d-axis%d-%s-%s-method_%s-%s-data_%s" % (rank, d, lk, given, method, "raise" if raise_error else "fill", dk),
                                           "rank": rank, "d": d, "lk": lk, "given": given, "method": method,
                                           "raise_error": raise_error, "dk": dk}

    def bound_lengths(self, case):
        return ["lab%d.n" % d for d in range(case["rank"])] + ["new.n"]

    def setup(self, S, case):
        kinds = list(DIM_KINDS)
        kinds[case["d"]] = case["lk"]
        arr, labels, data = make_dimarray(S, case["rank"], kinds=kinds, data_kind=case["dk"], attrs={"units": "K"})
        new = S.array1d("new", case["lk"])
        given = new if case["given"] == "ndarray" else S.da.Axis(new, "x%d" % case["d"])
        kw = {}
        if case["method"]:
            kw["method"] = case["method"]
        if case["raise_error"]:
            kw["raise_error"] = True
        if case["given"] == "ndarray":
            kw["axis"] = "x%d" % case["d"]
        return {"arr": arr, "labels": labels, "data": data, "old": S.snapshot(data), "new": new, "given": given, "kwargs": kw}

    def call(self, fn, env):
        return env["arr"].reindex_axis(env["given"], **env["kwargs"])

    def _missing(self, S, env, case, k):
        return absent(S, env["labels"][case["d"]], S.at(env["new"], k))

    def raises(self, S, case, env):
        L, new = env["labels"][case["d"]], env["new"]
        n, m = S.n(L), S.n(new)
        r = {}
        if case["raise_error"]:
            r[IndexError] = S.exists(0, m, lambda k: self._missing(S, env, case, k))
        else:
            # nothing to take from: an empty axis cannot be reindexed onto a non-empty one
            r[IndexError] = S.land(n == 0, m > 0)
        return r

    def post(self, S, case, env, result):
        arr, labels, data, new, d = env["arr"], env["labels"], env["old"], env["new"], case["d"]
        L = labels[d]
        n, m = S.n(L), S.n(new)
        rv = result.values
        Lr = result.axes[d].values
        yield "dims-kept", tuple(result.dims) == tuple(arr.dims)
        yield "axis-is-exactly-the-new-labels", S.land(S.n(Lr) == m, S.forall(0, m, lambda k: S.at(Lr, k) == S.at(new, k)))
        yield "other-axes-equal", other_axes_equal(S, result, labels, d)
        shape = [S.n(Lb) if e != d else m for e, Lb in enumerate(labels)]
        # slices of present labels travel with their label
        yield "present-labels-keep-their-slice", S.forall_nd(shape, lambda *ks: S.forall(0, n, lambda p: S.implies(
            S.at(L, p) == S.at(new, ks[d]) if case["method"] != "right" else False,
            lambda: S.same(S.at(rv, *ks), cell(S, data, ks, d, p)))))
        if case["method"] is None:
            yield "missing-labels-are-filled-with-nan", S.forall_nd(shape, lambda *ks: S.implies(
                self._missing(S, env, case, ks[d]), lambda: S.isnan(S.at(rv, *ks))))
            any_missing = S.exists(0, m, lambda k: self._missing(S, env, case, k))
            if case["dk"] == "I":
                yield "integer-data-widened-only-when-filling", S.iff(S.kind(rv) == "f", any_missing)
        else:
            strict = case["method"] == "right"
            above = (lambda a, b: a > b) if strict else (lambda a, b: a >= b)
            def neighbour(ks, p):
                x = S.at(new, ks[d])
                is_next = S.land(above(S.at(L, p), x), S.forall(0, n, lambda i: S.implies(above(S.at(L, i), x), lambda: S.at(L, i) >= S.at(L, p))))
                is_last = S.land(S.forall(0, n, lambda i: S.lnot(above(S.at(L, i), x))), S.forall(0, n, lambda i: S.at(L, i) <= S.at(L, p)))
                return S.lor(is_next, is_last)
            yield "neighbour-in-sorted-order-as-searchsorted", S.forall_nd(shape, lambda *ks: S.forall(0, n, lambda p: S.implies(
                neighbour(ks, p), lambda: S.same(S.at(rv, *ks), cell(S, data, ks, d, p)))))
        yield "metadata-copied", S.land(dict(result.attrs) == {"units": "K"}, result.attrs is not arr.attrs)
        yield "operand-untouched", S.land(
            S.forall_nd(S.shape(data), lambda *p: S.same(S.at(arr.values, *p), S.at(data, *p))),
            tuple(arr.dims) == tuple("x%d" % e for e in range(case["rank"])),
            *[S.forall(0, S.n(labels[e]), lambda k, e=e: S.at(arr.axes[e].values, k) == S.at(labels[e], k)) for e in range(case["rank"])])

    def canaries(self, S, case, env, result):
        d = case["d"]
        yield "axis-keeps-old-labels", S.land(S.n(result.axes[d].values) == S.n(env["labels"][d]),
                                              S.forall(0, S.n(env["labels"][d]), lambda k: S.at(result.axes[d].values, k) == S.at(env["labels"][d], k)))


class SortAxis(Contract):
    """sort_axis(axis): the same labelled slices with the axis in ascending label order.  [C17]"""
    target = "dimarray.core.align:sort_axis"
    props = ("C17", "C15", "C16")
    inlined = ("take_axis (own contract: TakeAxis)",)

    def cases(self, tier):
        for rank in (1, 2):
            for d in range(rank):
                yield {"name": "r%d-axis%d" % (rank, d), "rank": rank, "d": d}

    def bound_lengths(self, case):
        return ["lab%d.n" % d for d in range(case["rank"])]

    def setup(self, S, case):
        arr, labels, data = make_dimarray(S, case["rank"], attrs={"units": "K"})
        return {"arr": arr, "labels": labels, "data": data}

    def call(self, fn, env):
        return env["arr"].sort_axis(axis="x%d" % env["case"]["d"])

    def post(self, S, case, env, result):
        arr, labels, data, d = env["arr"], env["labels"], env["data"], case["d"]
        L = labels[d]
        n = S.n(L)
        Lr = result.axes[d].values
        rv = result.values
        yield "dims-kept", tuple(result.dims) == tuple(arr.dims)
        yield "ascending", S.land(S.n(Lr) == n, S.forall2(0, n, lambda i, j: S.at(Lr, i) <= S.at(Lr, j)))
        yield "other-axes-equal", other_axes_equal(S, result, labels, d)
        shape = [S.n(Lb) for Lb in labels]
        yield "every-slice-moves-with-its-label", S.forall_nd(shape, lambda *ks: S.forall(0, n, lambda p: S.implies(
            S.at(L, p) == S.at(Lr, ks[d]), lambda: S.same(S.at(rv, *ks), cell(S, data, ks, d, p)))))
        rank = S.sort_rank(L)
        yield "every-label-lands-at-its-sorted-rank", S.forall(0, n, lambda p: S.land(
            0 <= S.at(rank, p), S.at(rank, p) < n, S.implies(S.land(0 <= S.at(rank, p), S.at(rank, p) < n), lambda: S.at(Lr, S.at(rank, p)) == S.at(L, p))))
        yield "metadata-copied", dict(result.attrs) == {"units": "K"}
        yield "operand-untouched", S.land(arr.values is data, arr.axes[d].values is L)

    def canaries(self, S, case, env, result):
        d = case["d"]
        yield "labels-unchanged", S.forall(0, S.n(env["labels"][d]), lambda k: S.at(result.axes[d].values, k) == S.at(env["labels"][d], k))


class GetAlignedAxes(Contract):
    """_get_aligned_axes(arrays, join, axis, sort): one common axis per dimension (in first-occurrence order of the
    dimension names), ascending when sort=True -- and, the clause C06 / C15 turn on: NO axis of any input array is
    modified (labels, order, name), whatever join / sort.  The real bodies of _common_axis, Axis.union and
    Axis.intersection are executed here (not their contracts): object identity is exactly what a frame clause is about,
    and it is what a contract stub abstracts away.  Their set-level behaviour has its own contracts (AxisUnion ...).
    [C06, C15]"""
    target = "dimarray.core.align:_get_aligned_axes"
    props = ("C06", "C15")
    inlined = ("get_dims", "_common_axis", "Axis.union", "Axis.intersection", "_check_axes_merge", "Axis.sort", "Axis.copy", "Axes.append")
    max_paths = 900

    CONFIGS = {
        "one-array-x0": [["x0"]],
        "one-array-x0x1": [["x0", "x1"]],
        "two-arrays-sharing-x0": [["x0"], ["x0"]],
        "two-arrays-x0-and-x0x1": [["x0"], ["x0", "x1"]],
        "two-arrays-disjoint-dims": [["x0"], ["x1"]],
    }

    def cases(self, tier):
        for cfg in self.CONFIGS:
            for join in ("outer", "inner"):
                for sort in (False, True):
                    yield {"name": "%s-%s-%s" % (cfg, join, "sort" if sort else "nosort"), "cfg": cfg, "join": join, "sort": sort}

    def bound_lengths(self, case):
        names = []
        for t, dims in enumerate(self.CONFIGS[case["cfg"]]):
            names += ["a%d.%s.n" % (t, d) for d in dims]
        return names

    def setup(self, S, case):
        arrays, labels = [], []
        for t, dims in enumerate(self.CONFIGS[case["cfg"]]):
            axes, labs = [], {}
            for d in dims:
                L = S.array1d("a%d.%s" % (t, d), "f")
                assume_order(S, L, "unique")
                labs[d] = (L, S.snapshot(L))
                axes.append(S.da.Axis(L, d))
            data = S.arraynd("a%d.data" % t, "f", tuple(S.n(labs[d][0]) for d in dims))
            arrays.append(S.da.DimArray(data, axes=axes))
            labels.append(labs)
        return {"arrays": arrays, "labels": labels, "args": (arrays,), "kwargs": {"join": case["join"], "sort": case["sort"]}}

    def post(self, S, case, env, result):
        cfg = self.CONFIGS[case["cfg"]]
        dims = []
        for ds in cfg:
            for d in ds:
                if d not in dims:
                    dims.append(d)
        yield "one-axis-per-dimension-in-first-occurrence-order", [ax.name for ax in result] == dims
        if case["sort"]:
            for ax in result:
                v = ax.values
                yield "sorted-ascending[%s]" % ax.name, S.forall2(0, S.n(v), lambda i, j, v=v: S.at(v, i) <= S.at(v, j))
        for t, ds in enumerate(cfg):
            arr = env["arrays"][t]
            for k, d in enumerate(ds):
                L, old = env["labels"][t][d]
                now = arr.axes[k].values
                yield "input-%d-axis-%s-untouched" % (t, d), S.land(
                    arr.axes[k].name == d, S.n(now) == S.n(old),
                    S.forall(0, S.n(old), lambda i, now=now, old=old: S.implies(i < S.n(now), lambda: S.at(now, i) == S.at(old, i))))

    def canaries(self, S, case, env, result):
        yield "returns-no-axes", len(result) == 0
