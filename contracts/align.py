"""Contracts for dimarray/core/align.py (and the DimArray methods it implements)"""
from dverif.contract_base import Contract
from dverif.stubs import stub_of
from .common import absent, assume_order, unique, strictly_increasing, strictly_decreasing
from . import indexing as ix
from .bases import make_dimarray, DIM_KINDS


def other_axes_equal(S, result, labels, skip, names=None):
    """every axis except `skip` has the same name and labels as the operand's"""
    cs = []
    for d, L in enumerate(labels):
        if d == skip:
            continue
        ax = result.axes[d]
        cs.append(ax.name == (names[d] if names else "x%d" % d))
        cs.append(S.n(ax.values) == S.n(L))
        cs.append(S.forall(0, S.n(L), lambda k, ax=ax, L=L: S.at(ax.values, k) == S.at(L, k)))
    return S.land(*cs)


def cell(S, arr, idx, d, k):
    """arr[idx with position d replaced by k]"""
    idx = list(idx)
    idx[d] = k
    return S.at(arr, *idx)


class TakeAxis(Contract):
    """DimArray.take_axis(indices, axis, indexing='position'): the slices at the listed positions, in the
    listed order (repeats kept), each with its label; other axes deep-copied and equal; metadata carried;
    IndexError iff a position is out of range.  [C07, C17]"""
    target = "dimarray.core.dimarraycls:DimArray.take_axis"
    props = ("C07", "C17", "C16", "C15")
    inlined = ("_get_axis_info", "Axis.take", "Axes.copy / Axis.copy (deepcopy)", "_constructor", "DimArray.__init__")

    def cases(self, tier):
        for rank in (1, 2, 3) if tier != "quick" else (1, 2):
            for d in range(rank):
                for by in ("name", "pos"):
                    yield {"name": "r%d-axis%d-by%s" % (rank, d, by), "rank": rank, "d": d, "by": by}

    def bound_lengths(self, case):
        return ["lab%d.n" % d for d in range(case["rank"])] + ["idx.n"]

    def setup(self, S, case):
        arr, labels, data = make_dimarray(S, case["rank"], attrs={"units": "K"})
        idx = S.array1d("idx", "I")
        axis = "x%d" % case["d"] if case["by"] == "name" else case["d"]
        return {"arr": arr, "labels": labels, "data": data, "idx": idx, "axis": axis, "attrs0": dict(arr.attrs)}

    def call(self, fn, env):
        return env["arr"].take_axis(env["idx"], axis=env["axis"], indexing="position")

    def raises(self, S, case, env):
        n = S.n(env["labels"][case["d"]])
        q = env["idx"]
        return {IndexError: S.exists(0, S.n(q), lambda j: S.lor(S.at(q, j) < -n, S.at(q, j) >= n))}

    def post(self, S, case, env, result):
        arr, labels, data, q, d = env["arr"], env["labels"], env["data"], env["idx"], case["d"]
        n, m = S.n(labels[d]), S.n(q)
        src = lambda k: S.ite(S.at(q, k) < 0, S.at(q, k) + n, S.at(q, k))
        yield "dims-kept", tuple(result.dims) == tuple(arr.dims)
        Lr = result.axes[d].values
        yield "taken-axis-labels", S.land(S.n(Lr) == m, S.forall(0, m, lambda k: S.at(Lr, k) == S.at(labels[d], src(k))))
        yield "other-axes-equal", other_axes_equal(S, result, labels, d)
        yield "other-axes-are-copies", all(result.axes[e] is not arr.axes[e] and not S.same_buffer(result.axes[e].values, labels[e])
                                          for e in range(case["rank"]) if e != d)
        shape = [S.n(L) if e != d else m for e, L in enumerate(labels)]
        yield "cells", S.forall_nd(shape, lambda *ks: S.same(S.at(result.values, *ks), cell(S, data, ks, d, src(ks[d]))))
        yield "metadata-copied", S.land(dict(result.attrs) == env["attrs0"], result.attrs is not arr.attrs)
        yield "operand-untouched", S.land(arr.values is data, dict(arr.attrs) == env["attrs0"], *[arr.axes[e].values is labels[e] for e in range(case["rank"])])

    def canaries(self, S, case, env, result):
        yield "one-label-too-many", S.n(result.axes[case["d"]].values) == S.n(env["idx"]) + 1


class ReindexAxis(Contract):
    """reindex_axis(new, axis, fill_value=nan, raise_error, method): the result's axis is exactly `new`
    (same order, repeats kept); the slice at new[k] is the operand's slice at that label when the label
    exists and the fill otherwise (integer data widened to float only when something is filled);
    raise_error=True raises IndexError iff some label is missing; method='left'/'right' takes instead the
    slice of the neighbouring label in sorted order that searchsorted designates (the first label >= / >
    the requested one, or the largest label when there is none); other axes, metadata kept; the operand is
    not modified.  [C07]"""
    target = "dimarray.core.align:reindex_axis"
    props = ("C07", "C15", "C16")
    uses = (stub_of(ix.LocateMany, also=("dimarray.core.bases", "dimarray.core.align")),)
    inlined = ("take_axis (own contract: TakeAxis)", "put -> _setitem -> _get_indices -> _setvalues_ortho (own contracts)",
               "Axis.__setitem__", "_maybe_cast_type (own contract)")
    max_paths = 800

    def cases(self, tier):
        for rank in (1, 2):
            for d in range(rank):
                for lk in ("f", "O", "i"):
                    if rank == 2 and not (DIM_KINDS[d] == lk or lk == "i" and d == 0):
                        continue
                    for given in ("ndarray", "Axis"):
                        for method in (None, "left", "right"):
                            for raise_error in (False, True):
                                for dk in ("f", "I"):
                                    if method and (raise_error or lk == "O" and False):
                                        continue
                                    if given == "Axis" and (method or raise_error or dk == "I"):
                                        continue
                                    yield {"name": "r%d-axis%d-%s-%s-method_%s-%s-data_%s" % (rank, d, lk, given, method, "raise" if raise_error else "fill", dk),
                                           "rank": rank, "d": d, "lk": lk, "given": given, "method": method,
                                           "raise_error": raise_error, "dk": dk}
        # a fill value other than NaN ("for all fill values"): float data, any real fill
        for rank, d in ((1, 0), (2, 0)):
            yield {"name": "r%d-axis%d-f-ndarray-method_None-fill_value_given-data_f" % (rank, d), "rank": rank, "d": d, "lk": "f", "given": "ndarray",
                   "method": None, "raise_error": False, "dk": "f", "fill_given": True}

    def bound_lengths(self, case):
        return ["lab%d.n" % d for d in range(case["rank"])] + ["new.n"]

    def setup(self, S, case):
        kinds = list(DIM_KINDS)
        kinds[case["d"]] = case["lk"]
        arr, labels, data = make_dimarray(S, case["rank"], kinds=kinds, data_kind=case["dk"], attrs={"units": "K"})
        # on an integer axis the new labels are of FLOAT kind (fractional labels are absent from an int axis and must be
        # filled, never matched to a truncated label)
        new = S.array1d("new", "f" if case["lk"] == "i" else case["lk"])
        given = new if case["given"] == "ndarray" else S.da.Axis(new, "x%d" % case["d"])
        kw = {}
        if case["method"]:
            kw["method"] = case["method"]
        if case["raise_error"]:
            kw["raise_error"] = True
        if case["given"] == "ndarray":
            kw["axis"] = "x%d" % case["d"]
        fill = None
        if case.get("fill_given"):
            fill = S.real("fill")
            kw["fill_value"] = fill
        arr.axes[case["d"]].attrs["long_name"] = "the reindexed axis"      # axis-level metadata must survive reindexing of that axis [C16]
        return {"arr": arr, "labels": labels, "data": data, "old": S.snapshot(data), "new": new, "given": given, "kwargs": kw,
                "attrs0": dict(arr.attrs), "fill": fill}

    def call(self, fn, env):
        return env["arr"].reindex_axis(env["given"], **env["kwargs"])

    def _missing(self, S, env, case, k):
        return absent(S, env["labels"][case["d"]], S.at(env["new"], k))

    def raises(self, S, case, env):
        L, new = env["labels"][case["d"]], env["new"]
        n, m = S.n(L), S.n(new)
        # from the statement: labels that are missing are FILLED; an exception only when raise_error=True asks for it
        if case["raise_error"]:
            return {IndexError: S.exists(0, m, lambda k: self._missing(S, env, case, k))}
        return {IndexError: False}

    def post(self, S, case, env, result):
        arr, labels, data, new, d = env["arr"], env["labels"], env["old"], env["new"], case["d"]
        L = labels[d]
        n, m = S.n(L), S.n(new)
        rv = result.values
        Lr = result.axes[d].values
        yield "dims-kept", tuple(result.dims) == tuple(arr.dims)
        yield "axis-is-exactly-the-new-labels", S.land(S.n(Lr) == m, S.forall(0, m, lambda k: S.at(Lr, k) == S.at(new, k)))
        if "_fresh" not in env:
            yield "axis-metadata-survives-reindexing-of-that-axis", S.land(dict(result.axes[d].attrs) == dict(arr.axes[d].attrs), result.axes[d].name == arr.axes[d].name)
        names = env.get("dims") or ["x%d" % e for e in range(case["rank"])]
        yield "other-axes-equal", other_axes_equal(S, result, labels, d, names)
        shape = [S.n(Lb) if e != d else m for e, Lb in enumerate(labels)]
        # slices of present labels travel with their label
        yield "present-labels-keep-their-slice", S.forall_nd(shape, lambda *ks: S.forall(0, n, lambda p: S.implies(
            S.at(L, p) == S.at(new, ks[d]) if case["method"] != "right" else False,
            lambda: S.same(S.at(rv, *ks), cell(S, data, ks, d, p)))))
        if case["method"] is None and env.get("fill") is not None:
            yield "missing-labels-are-filled-with-the-given-value", S.forall_nd(shape, lambda *ks: S.implies(
                self._missing(S, env, case, ks[d]), lambda: S.same(S.at(rv, *ks), env["fill"])))
        elif case["method"] is None:
            yield "missing-labels-are-filled-with-nan", S.forall_nd(shape, lambda *ks: S.implies(
                self._missing(S, env, case, ks[d]), lambda: S.isnan(S.at(rv, *ks))))
            any_missing = S.exists(0, m, lambda k: self._missing(S, env, case, k))
            if case["dk"] == "I":
                yield "integer-data-widened-only-when-filling", S.iff(S.kind(rv) == "f", any_missing)
        else:
            strict = case["method"] == "right"
            above = (lambda a, b: a > b) if strict else (lambda a, b: a >= b)
            def neighbour(ks, p):
                x = S.at(new, ks[d])
                is_next = S.land(above(S.at(L, p), x), S.forall(0, n, lambda i: S.implies(above(S.at(L, i), x), lambda: S.at(L, i) >= S.at(L, p))))
                is_last = S.land(S.forall(0, n, lambda i: S.lnot(above(S.at(L, i), x))), S.forall(0, n, lambda i: S.at(L, i) <= S.at(L, p)))
                return S.lor(is_next, is_last)
            yield "neighbour-in-sorted-order-as-searchsorted", S.forall_nd(shape, lambda *ks: S.forall(0, n, lambda p: S.implies(
                neighbour(ks, p), lambda: S.same(S.at(rv, *ks), cell(S, data, ks, d, p)))))
        yield "metadata-copied", S.land(dict(result.attrs) == env["attrs0"], result.attrs is not arr.attrs)
        yield "operand-untouched", S.land(
            dict(arr.attrs) == env["attrs0"],
            S.forall_nd(S.shape(data), lambda *p: S.same(S.at(arr.values, *p), S.at(data, *p))),
            tuple(arr.dims) == tuple(names),
            *[S.forall(0, S.n(labels[e]), lambda k, e=e: S.at(arr.axes[e].values, k) == S.at(labels[e], k)) for e in range(case["rank"])])

    def canaries(self, S, case, env, result):
        d = case["d"]
        yield "axis-keeps-old-labels", S.land(S.n(result.axes[d].values) == S.n(env["labels"][d]),
                                              S.forall(0, S.n(env["labels"][d]), lambda k: S.at(result.axes[d].values, k) == S.at(env["labels"][d], k)))


class SortAxis(Contract):
    """sort_axis(axis): the same labelled slices with the axis in ascending label order.  [C17]"""
    target = "dimarray.core.align:sort_axis"
    props = ("C17", "C15", "C16")
    inlined = ("take_axis (own contract: TakeAxis)",)

    def cases(self, tier):
        for rank in (1, 2):
            for d in range(rank):
                yield {"name": "r%d-axis%d" % (rank, d), "rank": rank, "d": d}

    def bound_lengths(self, case):
        return ["lab%d.n" % d for d in range(case["rank"])]

    def setup(self, S, case):
        arr, labels, data = make_dimarray(S, case["rank"], attrs={"units": "K"})
        return {"arr": arr, "labels": labels, "data": data, "attrs0": dict(arr.attrs)}

    def call(self, fn, env):
        return env["arr"].sort_axis(axis="x%d" % env["case"]["d"])

    def post(self, S, case, env, result):
        arr, labels, data, d = env["arr"], env["labels"], env["data"], case["d"]
        L = labels[d]
        n = S.n(L)
        Lr = result.axes[d].values
        rv = result.values
        yield "dims-kept", tuple(result.dims) == tuple(arr.dims)
        yield "ascending", S.land(S.n(Lr) == n, S.forall2(0, n, lambda i, j: S.at(Lr, i) <= S.at(Lr, j)))
        yield "other-axes-equal", other_axes_equal(S, result, labels, d)
        shape = [S.n(Lb) for Lb in labels]
        yield "every-slice-moves-with-its-label", S.forall_nd(shape, lambda *ks: S.forall(0, n, lambda p: S.implies(
            S.at(L, p) == S.at(Lr, ks[d]), lambda: S.same(S.at(rv, *ks), cell(S, data, ks, d, p)))))
        rank = S.sort_rank(L)
        yield "every-label-lands-at-its-sorted-rank", S.forall(0, n, lambda p: S.land(
            0 <= S.at(rank, p), S.at(rank, p) < n, S.implies(S.land(0 <= S.at(rank, p), S.at(rank, p) < n), lambda: S.at(Lr, S.at(rank, p)) == S.at(L, p))))
        yield "metadata-copied", dict(result.attrs) == env["attrs0"]
        yield "operand-untouched", S.land(arr.values is data, arr.axes[d].values is L, dict(arr.attrs) == env["attrs0"])

    def canaries(self, S, case, env, result):
        d = case["d"]
        yield "labels-unchanged", S.forall(0, S.n(env["labels"][d]), lambda k: S.at(result.axes[d].values, k) == S.at(env["labels"][d], k))


class GetAlignedAxes(Contract):
    """_get_aligned_axes(arrays, join, axis, sort): one common axis per dimension (in first-occurrence order of the
    dimension names), ascending when sort=True -- and, the clause C06 / C15 turn on: NO axis of any input array is
    modified (labels, order, name), whatever join / sort.  The real bodies of _common_axis, Axis.union and
    Axis.intersection are executed here (not their contracts): object identity is exactly what a frame clause is about,
    and it is what a contract stub abstracts away.  Their set-level behaviour has its own contracts (AxisUnion ...).
    [C06, C15]"""
    target = "dimarray.core.align:_get_aligned_axes"
    props = ("C06", "C15")
    inlined = ("get_dims", "_common_axis", "Axis.union", "Axis.intersection", "_check_axes_merge", "Axis.sort", "Axis.copy", "Axes.append")
    max_paths = 900

    CONFIGS = {
        "one-array-x0": [["x0"]],
        "one-array-x0x1": [["x0", "x1"]],
        "two-arrays-sharing-x0": [["x0"], ["x0"]],
        "two-arrays-x0-and-x0x1": [["x0"], ["x0", "x1"]],
        "two-arrays-disjoint-dims": [["x0"], ["x1"]],
    }

    def cases(self, tier):
        for cfg in self.CONFIGS:
            for join in ("outer", "inner"):
                for sort in (False, True):
                    yield {"name": "%s-%s-%s" % (cfg, join, "sort" if sort else "nosort"), "cfg": cfg, "join": join, "sort": sort}

    def bound_lengths(self, case):
        names = []
        for t, dims in enumerate(self.CONFIGS[case["cfg"]]):
            names += ["a%d.%s.n" % (t, d) for d in dims]
        return names

    def setup(self, S, case):
        arrays, labels = [], []
        for t, dims in enumerate(self.CONFIGS[case["cfg"]]):
            axes, labs = [], {}
            for d in dims:
                L = S.array1d("a%d.%s" % (t, d), "f")
                assume_order(S, L, "unique")
                labs[d] = (L, S.snapshot(L))
                axes.append(S.da.Axis(L, d))
            data = S.arraynd("a%d.data" % t, "f", tuple(S.n(labs[d][0]) for d in dims))
            arrays.append(S.da.DimArray(data, axes=axes))
            labels.append(labs)
        return {"arrays": arrays, "labels": labels, "args": (arrays,), "kwargs": {"join": case["join"], "sort": case["sort"]}}

    def post(self, S, case, env, result):
        cfg = self.CONFIGS[case["cfg"]]
        dims = []
        for ds in cfg:
            for d in ds:
                if d not in dims:
                    dims.append(d)
        yield "one-axis-per-dimension-in-first-occurrence-order", [ax.name for ax in result] == dims
        if case["sort"]:
            for ax in result:
                v = ax.values
                yield "sorted-ascending[%s]" % ax.name, S.forall2(0, S.n(v), lambda i, j, v=v: S.at(v, i) <= S.at(v, j))
        if not case["sort"]:
            # a dimension exactly one input has: the common axis carries that input's labels, in its order
            for ax in result:
                owners = [t for t, ds in enumerate(cfg) if ax.name in ds]
                if len(owners) == 1:
                    old = env["labels"][owners[0]][ax.name][1]
                    v = ax.values
                    yield "sole-owner[%s]-keeps-its-labels" % ax.name, S.land(S.n(v) == S.n(old), S.forall(0, S.n(old), lambda i, v=v, old=old: S.implies(
                        i < S.n(v), lambda: S.at(v, i) == S.at(old, i))))
        for t, ds in enumerate(cfg):
            arr = env["arrays"][t]
            for k, d in enumerate(ds):
                L, old = env["labels"][t][d]
                now = arr.axes[k].values
                yield "input-%d-axis-%s-untouched" % (t, d), S.land(
                    arr.axes[k].name == d, S.n(now) == S.n(old),
                    S.forall(0, S.n(old), lambda i, now=now, old=old: S.implies(i < S.n(now), lambda: S.at(now, i) == S.at(old, i))))

    def canaries(self, S, case, env, result):
        yield "returns-no-axes", len(result) == 0


# --------------------------------------------------------------------------
# ReindexAxis as a callee contract (used while verifying align)
# --------------------------------------------------------------------------

def _reindex_bind(self_arr, values, axis=0, fill_value=None, raise_error=False, method=None):
    from dverif import symnp
    from .common import order_of
    if fill_value is not None and not (isinstance(fill_value, float) and fill_value != fill_value):
        raise NotImplementedError("fill_value other than NaN")
    given = "ndarray"
    if isinstance(values, type(self_arr.axes[0])) or hasattr(values, "union"):
        given, axis, new = "Axis", values.name, values.values
    else:
        new = symnp.asarray(values)
    if not isinstance(axis, str):
        axis = self_arr.dims[axis]
    dims = list(self_arr.dims)
    if axis not in dims:
        raise NotImplementedError("unknown axis")
    d = dims.index(axis)
    if self_arr.values.dtype.kind != "f":
        raise NotImplementedError("non-float data at a stubbed call site")
    labels = [ax.values for ax in self_arr.axes]
    if order_of(labels[d]) is None:
        raise NotImplementedError("source axis without order tag")
    case = {"name": "bound", "rank": len(dims), "d": d, "lk": labels[d].dtype.kind, "given": given, "method": method,
            "raise_error": bool(raise_error), "dk": "f"}
    env = {"arr": self_arr, "labels": labels, "data": self_arr.values, "old": self_arr.values, "new": new, "given": values,
           "kwargs": {}, "dims": dims, "attrs0": dict(self_arr.attrs)}
    return case, env


def _reindex_requires(self, S, case, env):
    yield "source-labels-unique", unique(S, env["labels"][case["d"]])


def _reindex_fresh(self, S, case, env):
    f = env["_fresh"]
    d = case["d"]
    m = S.n(env["new"])
    axes = []
    shape = []
    for e, L in enumerate(env["labels"]):
        n_e = m if e == d else S.n(L)
        kind = L.dtype.kind
        lab = S.fresh_array1d("%s.lab%d" % (f, e), {"f": "f", "i": "i", "O": "O"}.get(kind, "f"), n_e)
        S.tag(lab, "order", "any" if e == d else "unique")
        axes.append(S.da.Axis(lab, env["dims"][e]))
        shape.append(n_e)
    data = S.fresh_arraynd("%s.data" % f, "f", tuple(shape))
    out = S.da.DimArray(data, axes=axes)
    out.attrs.update(env["arr"].attrs)
    return out


ReindexAxis.bind = staticmethod(_reindex_bind)
ReindexAxis.requires = _reindex_requires
ReindexAxis.fresh_result = _reindex_fresh
ReindexAxis.stub_target = "dimarray.core.dimarraycls:DimArray.reindex_axis"     # called as a method (class attribute)


def _reindex_post_for_stub(orig_post):
    """the post of ReindexAxis refers to dims as x0, x1, ...; at a call site the real names are in env['dims']"""
    return orig_post


# --------------------------------------------------------------------------
# GetAlignedAxes as a callee contract
# --------------------------------------------------------------------------

def _gaa_bind(arrays, join="outer", axis=None, sort=False, strict=False):
    if strict:
        # strict=True only adds a ValueError when some array lacks an aligned dimension: inside the contract when none does
        wanted = [axis] if isinstance(axis, str) else sorted({ax.name for o in arrays for ax in o.axes})
        if not all(d in o.dims for o in arrays for d in wanted):
            raise NotImplementedError("strict with an array lacking a dimension")
    dims = []
    for o in arrays:
        for ax in o.axes:
            if ax.name not in dims:
                dims.append(ax.name)
    if axis is not None:
        if not isinstance(axis, str):
            raise NotImplementedError("axis not a string")
        dims = [axis]
    case = {"name": "bound", "cfg": None, "join": join, "sort": bool(sort)}
    env = {"arrays": list(arrays), "dims_out": dims, "join": join, "sort": sort, "axis": axis,
           "labels": [{ax.name: (ax.values, ax.values) for ax in o.axes} for o in arrays]}
    return case, env


def _gaa_fresh(self, S, case, env):
    f = env["_fresh"]
    axes = S.da.Axes()
    for d in env["dims_out"]:
        kinds = [o.axes[d].values.dtype.kind for o in env["arrays"] if d in o.dims]
        kind = "O" if "O" in kinds else ("f" if "f" in kinds else kinds[0])
        lab = S.fresh_array1d("%s.%s" % (f, d), {"f": "f", "i": "i", "O": "O"}[kind], S.fresh_length("%s.%s.n" % (f, d)))
        S.tag(lab, "order", "any")
        axes.append(S.da.Axis(lab, d))
    return axes


def _gaa_post(self, S, case, env, result):
    if case.get("cfg") is not None:
        for c in GetAlignedAxes._post_checked(self, S, case, env, result):
            yield c
        return
    # bound at a call site: what the contract PROVES (names / order, ascending under sort, inputs untouched)
    yield "one-axis-per-dimension-in-first-occurrence-order", [ax.name for ax in result] == env["dims_out"]
    if case["sort"]:
        for ax in result:
            v = ax.values
            yield "sorted-ascending[%s]" % ax.name, S.forall2(0, S.n(v), lambda i, j, v=v: S.at(v, i) <= S.at(v, j))
    else:
        for ax in result:
            owners = [t for t, o in enumerate(env["arrays"]) if ax.name in o.dims]
            if len(owners) == 1 and env["axis"] is None:
                old = env["labels"][owners[0]][ax.name][1]
                v = ax.values
                yield "sole-owner[%s]-keeps-its-labels" % ax.name, S.land(S.n(v) == S.n(old), S.forall(0, S.n(old), lambda i, v=v, old=old: S.implies(
                    i < S.n(v), lambda: S.at(v, i) == S.at(old, i))))


GetAlignedAxes._post_checked = GetAlignedAxes.post
GetAlignedAxes.post = _gaa_post
GetAlignedAxes.bind = staticmethod(_gaa_bind)
GetAlignedAxes.fresh_result = _gaa_fresh


class Align(Contract):
    """align(arrays, join, sort, axis), compositionally: with `common` the axes _get_aligned_axes returns for the same
    arguments (whose label SETS are specified by AxisUnion / AxisIntersection), every output array has, on each aligned
    dimension it owns, exactly the common axis' labels in the common order; each of its slices at a label the input had is
    the input's slice at that label and every other slice is NaN (reindex_axis' contract); dimensions an array lacks and
    its other dimensions are untouched; the outputs come in the inputs' order; join / sort / axis are forwarded; no input
    array is modified; nothing is raised (empty label sets included).  [C06, C15]"""
    target = "dimarray.core.align:align"
    props = ("C06", "C15")
    uses = (stub_of(ReindexAxis), stub_of(GetAlignedAxes))
    inlined = ("Axis.__eq__ (decides whether an array already has the common axis)",)
    max_paths = 600

    def bounded_obligations(self, case):
        # join='inner': that nothing is raised needs "the common axis is a subset of every input's labels" (an empty input
        # then forces an empty common axis, and reindex_axis' recorded region is unreachable).  That is AxisIntersection's
        # set-level clause, carried by a bounded stand-in only -- so it is not assumed here and this obligation inherits the
        # bounded status: it is decided by exhaustive native enumeration, not counted as discharged.
        return ("raises[IndexError]",) if case["join"] == "inner" else ()

    CONFIGS = {
        "x0|x0": [["x0"], ["x0"]],
        "x0|x0x1": [["x0"], ["x0", "x1"]],
        "x0x1|x1": [["x0", "x1"], ["x1"]],
        "x0": [["x0"]],
        "x0|x0|x0": [["x0"], ["x0"], ["x0"]],
    }

    def cases(self, tier):
        for cfg in self.CONFIGS:
            if cfg == "x0|x0|x0" and tier == "quick":
                continue
            for join in ("outer", "inner"):
                for sort in (False, True):
                    yield {"name": "%s-%s-%s" % (cfg, join, "sort" if sort else "nosort"), "cfg": cfg, "join": join, "sort": sort}
        # axis=<one dimension>: only that dimension is aligned, the others are left alone
        for cfg, axis in (("x0|x0x1", "x0"), ("x0x1|x1", "x1"), ("x0|x0", "x0")):
            yield {"name": "%s-outer-nosort-axis_%s" % (cfg, axis), "cfg": cfg, "join": "outer", "sort": False, "axis": axis}

    def bound_lengths(self, case):
        names = []
        for t, dims in enumerate(self.CONFIGS[case["cfg"]]):
            names += ["a%d.%s.n" % (t, d) for d in dims]
        return names

    def setup(self, S, case):
        arrays, labels, datas = [], [], []
        for t, dims in enumerate(self.CONFIGS[case["cfg"]]):
            axes, labs = [], {}
            for d in dims:
                L = S.array1d("a%d.%s" % (t, d), "f")
                assume_order(S, L, "unique")
                labs[d] = L
                axes.append(S.da.Axis(L, d))
            data = S.arraynd("a%d.data" % t, "f", tuple(S.n(labs[d]) for d in dims))
            arrays.append(S.da.DimArray(data, axes=axes))
            labels.append(labs)
            datas.append(data)
        return {"arrays": arrays, "labels": labels, "datas": datas, "old": [S.snapshot(x) for x in datas],
                "args": (list(arrays),), "kwargs": dict({"join": case["join"], "sort": case["sort"]}, **({"axis": case["axis"]} if case.get("axis") else {}))}

    def raises(self, S, case, env):
        return {IndexError: False}

    def _common(self, S, case, env):
        calls = S.calls("GetAlignedAxes")
        if calls:
            cenv = calls[-1][2]
            return calls[-1][3], {"join": cenv["join"], "sort": cenv["sort"], "axis": cenv["axis"]}
        import importlib
        mod = importlib.import_module("dimarray.core.align")      # (the attribute dimarray.core.align is the function align)
        return mod._get_aligned_axes(list(env["arrays"]), join=case["join"], sort=case["sort"], axis=case.get("axis")), None

    def post(self, S, case, env, result):
        cfg = self.CONFIGS[case["cfg"]]
        common, fwd = self._common(S, case, env)
        if fwd is not None:
            yield "join-sort-axis-forwarded", fwd["join"] == case["join"] and bool(fwd["sort"]) == case["sort"] and fwd["axis"] == case.get("axis")
        yield "one-output-per-input-in-order", isinstance(result, list) and len(result) == len(cfg)
        cax = {ax.name: ax.values for ax in common}
        if case.get("axis"):
            yield "only-the-requested-dimension-is-aligned", sorted(cax) == [case["axis"]]
            # the dimensions that are not aligned keep each array's own labels: the clauses below read them as that array's "common" axis
            own = [dict(labs) for labs in env["labels"]]
        for t, ds in enumerate(cfg):
            if case.get("axis"):
                cax = dict(own[t], **{ax.name: ax.values for ax in common})
            out, inp = result[t], env["arrays"][t]
            yield "out%d:dims-kept" % t, tuple(out.dims) == tuple(ds)
            for k, d in enumerate(ds):
                Lo, Li, C = out.axes[k].values, env["labels"][t][d], cax[d]
                yield "out%d:%s-is-the-common-axis" % (t, d), S.land(S.n(Lo) == S.n(C), S.forall(0, S.n(C), lambda j, Lo=Lo, C=C: S.implies(
                    j < S.n(Lo), lambda: S.at(Lo, j) == S.at(C, j))))
            old = env["old"][t]
            shape = [S.n(cax[d]) for d in ds]
            ov = out.values
            fits = S.land(len(S.shape(ov)) == len(shape), *[S.shape(ov)[i] == shape[i] for i in range(min(len(shape), len(S.shape(ov))))])
            yield "out%d:shape-follows-the-common-axes" % t, fits
            if S.mode == "nat" and not fits:
                continue          # (the cell clauses below are stated over that shape; natively they could not even be evaluated)

            def src_ok(ks, ps, ds=ds, t=t):
                return S.land(*[S.land(0 <= p, p < S.n(env["labels"][t][d]),
                                       S.implies(S.land(0 <= p, p < S.n(env["labels"][t][d])), lambda p=p, d=d, k=k: S.at(env["labels"][t][d], p) == S.at(cax[d], k)))
                                for d, k, p in zip(ds, ks, ps)])
            if len(ds) == 1:
                n0 = S.n(env["labels"][t][ds[0]])
                yield "out%d:present-labels-keep-their-data" % t, S.forall(0, shape[0], lambda k: S.forall(0, n0, lambda p: S.implies(
                    S.at(env["labels"][t][ds[0]], p) == S.at(cax[ds[0]], k), lambda: S.same(S.at(ov, k), S.at(old, p)))))
                yield "out%d:missing-labels-are-nan" % t, S.forall(0, shape[0], lambda k: S.implies(
                    absent(S, env["labels"][t][ds[0]], S.at(cax[ds[0]], k)), lambda: S.isnan(S.at(ov, k))))
            else:
                n0, n1 = S.n(env["labels"][t][ds[0]]), S.n(env["labels"][t][ds[1]])
                L0, L1, C0, C1 = env["labels"][t][ds[0]], env["labels"][t][ds[1]], cax[ds[0]], cax[ds[1]]
                yield "out%d:present-labels-keep-their-data" % t, S.forall_nd(shape, lambda k0, k1: S.forall(0, n0, lambda p0: S.forall(0, n1, lambda p1: S.implies(
                    S.land(S.at(L0, p0) == S.at(C0, k0), S.at(L1, p1) == S.at(C1, k1)), lambda: S.same(S.at(ov, k0, k1), S.at(old, p0, p1))))))
                yield "out%d:missing-labels-are-nan" % t, S.forall_nd(shape, lambda k0, k1: S.implies(
                    S.lor(absent(S, L0, S.at(C0, k0)), absent(S, L1, S.at(C1, k1))), lambda: S.isnan(S.at(ov, k0, k1))))
        for t, ds in enumerate(cfg):
            inp = env["arrays"][t]
            yield "input-%d-untouched" % t, S.land(
                tuple(inp.dims) == tuple(ds),
                S.forall_nd(S.shape(env["old"][t]), lambda *p, t=t, inp=inp: S.same(S.at(inp.values, *p), S.at(env["old"][t], *p))),
                *[S.land(S.n(inp.axes[k].values) == S.n(env["labels"][t][d]),
                         S.forall(0, S.n(env["labels"][t][d]), lambda j, k=k, d=d, t=t, inp=inp: S.implies(
                             j < S.n(inp.axes[k].values), lambda: S.at(inp.axes[k].values, j) == S.at(env["labels"][t][d], j))))
                  for k, d in enumerate(ds)])

    def canaries(self, S, case, env, result):
        if len(self.CONFIGS[case["cfg"]]) == 1 and not case["sort"]:
            # one array, no sort: the common axis IS the input's (GetAlignedAxes' sole-owner clause), so align does return the
            # input itself -- a canary must be something false
            yield "output-axis-is-empty", S.n(result[0].axes[0].values) == 0
        else:
            yield "returns-the-inputs-themselves", all(result[t] is env["arrays"][t] for t in range(len(result)))


class ReindexLike(Contract):
    """a.reindex_like(other) for `other` a DimArray or an Axes object: along every dimension a shares with other the result
    carries other's labels; the cell at every label coordinate is a's cell at that coordinate where a has every one of those
    labels and NaN otherwise; dimensions other lacks are untouched; metadata kept; a is untouched.  Proved against
    reindex_axis' contract (the real loop over the axes runs).  [C07]"""
    target = "dimarray.core.align:reindex_like"
    props = ("C07", "C15")
    uses = (stub_of(ReindexAxis),)

    CONFIGS = {"x0|x0": (["x0"], ["x0"]), "x0x1|x0": (["x0", "x1"], ["x0"]), "x0x1|x1x0": (["x0", "x1"], ["x1", "x0"]), "x0x1|x1z": (["x0", "x1"], ["x1", "z"])}

    def cases(self, tier):
        for cfg in self.CONFIGS:
            for form in ("dimarray", "axes"):
                yield {"name": "%s-%s" % (cfg, form), "cfg": cfg, "form": form}
        # "reindex_like applies the same rule to every dimension shared with the template": the keywords are part of the rule
        for cfg in ("x0|x0", "x0x1|x1x0"):
            for method in ("left", "right"):
                yield {"name": "%s-dimarray-method_%s" % (cfg, method), "cfg": cfg, "form": "dimarray", "method": method}
        yield {"name": "x0|x0-dimarray-raise_error", "cfg": "x0|x0", "form": "dimarray", "raise_error": True}

    def bound_lengths(self, case):
        da_, do_ = self.CONFIGS[case["cfg"]]
        return ["a.%s.n" % d for d in da_] + ["o.%s.n" % d for d in do_]

    def setup(self, S, case):
        kinds = {"x0": "f", "x1": "O", "z": "f"}
        da_, do_ = self.CONFIGS[case["cfg"]]
        la, axes = {}, []
        for d in da_:
            L = S.array1d("a.%s" % d, kinds[d])
            assume_order(S, L, "unique")
            la[d] = L
            axes.append(S.da.Axis(L, d))
        data = S.arraynd("a.data", "f", tuple(S.n(la[d]) for d in da_))
        arr = S.da.DimArray(data, axes=axes)
        arr.attrs.update({"units": "K"})
        lo, oaxes = {}, []
        for d in do_:
            L = S.array1d("o.%s" % d, kinds[d])
            lo[d] = L
            oaxes.append(S.da.Axis(L, d))
        other = S.da.Axes(oaxes)
        if case["form"] == "dimarray":
            other = S.da.DimArray(S.arraynd("o.data", "f", tuple(S.n(lo[d]) for d in do_)), axes=oaxes)
        return {"arr": arr, "la": la, "lo": lo, "data": data, "old": S.snapshot(data), "other": other, "da": da_, "do": do_, "axes0": list(arr.axes)}

    def call(self, fn, env):
        case = env["case"]
        kw = {}
        if case.get("method"):
            kw["method"] = case["method"]
        if case.get("raise_error"):
            kw["raise_error"] = True
        return env["arr"].reindex_like(env["other"], **kw)

    def raises(self, S, case, env):
        if case.get("raise_error"):
            da_, do_, la, lo = env["da"], env["do"], env["la"], env["lo"]
            return {IndexError: S.lor(*[S.exists(0, S.n(lo[d]), lambda k, d=d: absent(S, la[d], S.at(lo[d], k))) for d in da_ if d in do_])}
        return {IndexError: False}

    def post(self, S, case, env, result):
        da_, do_, la, lo = env["da"], env["do"], env["la"], env["lo"]
        yield "is-dimarray-with-the-same-dims", S.is_dimarray(result) and tuple(result.dims) == tuple(da_)
        R = {}
        for i, d in enumerate(da_):
            Lr = result.axes[i].values
            want = lo[d] if d in do_ else la[d]
            R[d] = Lr
            yield "%s:%s" % (d, "carries-the-others-labels" if d in do_ else "untouched"), S.land(S.n(Lr) == S.n(want), S.forall(0, S.n(want), lambda k, Lr=Lr, want=want: S.implies(
                k < S.n(Lr), lambda: S.at(Lr, k) == S.at(want, k))))
        shape = [S.n(R[d]) for d in da_]
        rv, old = result.values, env["old"]
        calls = S.calls("ReindexAxis")
        if calls:
            shared = [d for d in da_ if d in do_]
            yield "one-reindex_axis-call-per-shared-dimension-with-the-keywords-forwarded", S.land(
                len(calls) == len(shared), *[cl[1]["method"] == case.get("method") and cl[1]["raise_error"] == bool(case.get("raise_error")) for cl in calls])
        if case.get("method"):
            # the neighbour rule itself is reindex_axis' contract (ReindexAxis, method cases); here: what is shared with the plain rule
            strict = case["method"] == "right"
            above = (lambda u, v: u > v) if strict else (lambda u, v: u >= v)

            def neighbour(d, k, p):
                x, L, n = S.at(R[d], k), la[d], S.n(la[d])
                is_next = S.land(above(S.at(L, p), x), S.forall(0, n, lambda i: S.implies(above(S.at(L, i), x), lambda: S.at(L, i) >= S.at(L, p))))
                is_last = S.land(S.forall(0, n, lambda i: S.lnot(above(S.at(L, i), x))), S.forall(0, n, lambda i: S.at(L, i) <= S.at(L, p)))
                return S.lor(is_next, is_last)
            if len(da_) == 1:
                d0 = da_[0]
                yield "neighbour-in-sorted-order-as-searchsorted", S.forall(0, shape[0], lambda k: S.forall(0, S.n(la[d0]), lambda p: S.implies(
                    neighbour(d0, k, p), lambda: S.same(S.at(rv, k), S.at(old, p)))))
            else:
                yield "neighbour-in-sorted-order-as-searchsorted", S.forall_nd(shape, lambda k0, k1: S.forall_nd([S.n(la[da_[0]]), S.n(la[da_[1]])], lambda p0, p1: S.implies(
                    S.land(neighbour(da_[0], k0, p0), neighbour(da_[1], k1, p1)), lambda: S.same(S.at(rv, k0, k1), S.at(old, p0, p1)))))
            yield "metadata-kept", dict(result.attrs) == {"units": "K"}
            return

        def present(*k):
            def inner(*p):
                match = S.land(*[S.at(la[d], p[i]) == S.at(R[d], k[i]) for i, d in enumerate(da_)])
                return S.implies(match, lambda: S.same(S.at(rv, *k), S.at(old, *p)))
            return S.forall_nd([S.n(la[d]) for d in da_], inner)
        yield "cells-stay-at-their-label-coordinates", S.forall_nd(shape, present)
        yield "nan-where-a-label-is-missing", S.forall_nd(shape, lambda *k: S.implies(
            S.lor(*[absent(S, la[d], S.at(R[d], k[i])) for i, d in enumerate(da_)]), lambda: S.isnan(S.at(rv, *k))))
        yield "metadata-kept", dict(result.attrs) == {"units": "K"}
        arr = env["arr"]
        yield "operand-untouched", S.land(arr.values is env["data"], all(u is v for u, v in zip(arr.axes, env["axes0"])), dict(arr.attrs) == {"units": "K"},
                                          S.forall_nd([S.n(la[d]) for d in da_], lambda *p: S.same(S.at(env["data"], *p), S.at(old, *p))))

    def canaries(self, S, case, env, result):
        yield "result-is-empty", S.shape(result.values)[0] == 0


class ReindexFillPrecision(Contract):
    """BOUNDED STAND-IN ONLY (never counted as proved).  reindex_axis / reindex_like on INTEGER data beyond 2**24 with a missing
    label and a fill value given as a NARROW NumPy float (np.float32 / np.float16 NaN or number): the slices at labels that
    exist come back EXACTLY (the widening must be wide enough for the data, whatever the type of the fill), the missing
    ones hold the fill.  Float precision does not exist in the symbolic model.  [C07]"""
    target = "dimarray.core.align:reindex_axis"
    props = ("C07",)
    native_only = True

    def cases(self, tier):
        for fill in ("float32-nan", "float32-number", "float16-nan", "float64-nan"):
            for via in ("reindex_axis", "reindex_like"):
                yield {"name": "%s-%s" % (fill, via), "fill": fill, "via": via}
        # UNSIGNED integer data is integer data: promoted to float when something is filled (not to object)
        for via in ("reindex_axis", "reindex_like"):
            yield {"name": "uint8-data-float64-nan-%s" % via, "fill": "float64-nan", "via": via, "uint": True}

    def setup(self, S, case):
        L = S.array1d("lab", "f")
        assume_order(S, L, "unique")
        S.assume(S.n(L) >= 1, "non-empty")
        return {"L": L, "q": S.array1d("q", "I")}

    def call(self, fn, env):
        import numpy as np
        S, case = env["S"], env["case"]
        L = np.asarray(env["L"], dtype=float)
        n = len(L)
        data = (np.arange(n * 2, dtype=np.int64).reshape(n, 2) * 2 + 2 ** 25 + 1)
        if case.get("uint"):
            data = (np.arange(n * 2).reshape(n, 2) * 3 + 1).astype(np.uint8)
        a = S.da.DimArray(data.copy(), axes=[("x", L.copy()), ("y", ["u", "v"])])
        q = [int(t) % n for t in np.asarray(env["q"])]
        new = np.concatenate([L[q], [L.max() + 7.0]])            # some existing labels (any order, repeats) and one that is missing
        fill = {"float32-nan": np.float32("nan"), "float32-number": np.float32(-9999.0), "float16-nan": np.float16("nan"), "float64-nan": np.nan}[case["fill"]]
        env.update({"a": a, "data": data, "q": q, "fill": fill})
        if case["via"] == "reindex_axis":
            return a.reindex_axis(new, axis="x", fill_value=fill)
        return a.reindex_like(S.da.Axes([S.da.Axis(new, "x")]), fill_value=fill)

    def post(self, S, case, env, result):
        import numpy as np
        q, data, fill = env["q"], env["data"], env["fill"]
        got = np.asarray(result.values)
        yield "present-labels-keep-their-slice-exactly", got.shape == (len(q) + 1, 2) and all(int(got[i, j]) == int(data[p, j]) for i, p in enumerate(q) for j in range(2))
        last = got[-1].astype(float)
        yield "missing-label-holds-the-fill", bool(np.all(np.isnan(last))) if np.isnan(float(fill)) else bool(np.all(last == float(fill)))
        yield "operand-untouched", bool(np.all(env["a"].values == data)) and env["a"].values.dtype == data.dtype
        yield "integer-data-promoted-to-float-not-to-object", got.dtype.kind == "f"
