"""Contracts for dimarray/core/axes.py"""
from dverif.contract_base import Contract
from dverif.stubs import stub_of
from .common import absent, assume_order, unique, strictly_increasing, strictly_decreasing, order_of


PAIRS = (("inc", "inc"), ("dec", "dec"), ("inc", "dec"), ("dec", "inc"), ("unique", "unique"), ("inc", "unique"), ("unique", "dec"))


def _labels_eq(S, a, b):
    return S.land(S.n(a) == S.n(b), S.forall(0, S.n(a), lambda i: S.implies(i < S.n(b), lambda: S.at(a, i) == S.at(b, i))))


class AxisMerge(Contract):
    """Axis.union(other) / Axis.intersection(other) for two axes of the same name with unique labels.
    union: the label set is L1 u L2 with each label once; two strictly monotonic axes of the same
    direction give a strictly monotonic result of that direction, otherwise self's labels come first,
    followed by the new ones in other's order.  intersection: the labels of self that also occur in
    other, in self's order.  The result keeps self's name and metadata.  [C06, C04, C12, C13]"""
    target = "dimarray.core.axes:Axis.union"
    props = ("C06",)
    inlined = ("_check_axes_merge", "_get_cast_kind", "Axis.cast", "Axis.is_monotonic", "is_monotonic", "Axis.copy", "Axis.__init__")
    bound_names = ("a.n", "b.n")
    op = "union"
    # The set-inclusion clauses chain two quantified library axioms through a witness; after the naming / located-element
    # work they prove on most paths but not stably (DESIGN 14.5).  They are carried by the bounded stand-in: the same clause
    # text evaluated on the real code over every pair of label arrays of length <= 3 (quick) / 4 (thorough).
    bounded_clauses = ()      # set per operation below

    def cases(self, tier):
        for kinds in (("f", "f"), ("O", "O"), ("i", "f")):
            for oa, ob in PAIRS:
                if kinds[0] == "O" and (oa, ob) != ("unique", "unique"):
                    continue
                yield {"name": "%s-%s%s-%s-%s" % (self.op, kinds[0], kinds[1], oa, ob), "kinds": list(kinds), "orders": [oa, ob]}

    def setup(self, S, case):
        a = S.array1d("a", case["kinds"][0])
        b = S.array1d("b", case["kinds"][1])
        assume_order(S, a, case["orders"][0])
        assume_order(S, b, case["orders"][1])
        ax1 = S.da.Axis(a, "x0", units="m")
        ax2 = S.da.Axis(b, "x0")
        return {"a": a, "b": b, "ax1": ax1, "ax2": ax2, "old_a": S.snapshot(a), "old_b": S.snapshot(b)}

    def call(self, fn, env):
        return getattr(env["ax1"], self.op)(env["ax2"])

    def bind(self, self_axis, other):
        a, b = self_axis.values, other.values
        oa, ob = order_of(a), order_of(b)
        if oa is None or ob is None:
            raise NotImplementedError("axis without order tag")
        if self_axis.name != other.name:
            raise NotImplementedError("different names")
        return ({"name": "bound", "kinds": [a.dtype.kind, b.dtype.kind], "orders": [oa, ob]},
                {"a": a, "b": b, "ax1": self_axis, "ax2": other, "old_a": a, "old_b": b})

    def requires(self, S, case, env):
        for nm, arr, o in (("a", env["a"], case["orders"][0]), ("b", env["b"], case["orders"][1])):
            if o == "inc":
                yield nm + "-increasing", strictly_increasing(S, arr)
            elif o == "dec":
                yield nm + "-decreasing", S.land(strictly_decreasing(S, arr), S.n(arr) >= 2)
            else:
                yield nm + "-unique", unique(S, arr)

    def fresh_result(self, S, case, env):
        kind = "O" if "O" in case["kinds"] else ("f" if "f" in case["kinds"] else case["kinds"][0])
        u = S.fresh_array1d(env["_fresh"] + ".labels", kind, S.fresh_length(env["_fresh"] + ".n"))
        ax = S.da.Axis(u, env["ax1"].name)
        ax.attrs.update(env["ax1"].attrs)
        S.tag(u, "order", self._result_order(case))
        return ax

    def _result_order(self, case):
        oa, ob = case["orders"]
        if oa == ob and oa in ("inc", "dec") and self.op == "union":
            return "unique"       # monotonic as stated by the post; tagged only as unique (length may be < 2)
        return "unique"

    def post(self, S, case, env, result):
        a, b = env["old_a"], env["old_b"]
        na, nb = S.n(a), S.n(b)
        U = result.values
        m = S.n(U)
        oa, ob = case["orders"]
        yield "is-axis-with-selfs-name", S.land(isinstance(result, S.da.Axis), result.name == env["ax1"].name)
        yield "each-label-once", unique(S, U)
        # NOTE each library predicate (two quantified axioms) is created only inside the clause that needs it:
        # clauses are generated lazily, so earlier clauses are proved in a smaller context
        if self.op == "union":
            inc_U, dec_U = (lambda: strictly_increasing(S, U)), (lambda: strictly_decreasing(S, U))
            if oa == ob == "inc":
                yield "common-direction-kept", S.lor(inc_U(), S.land(na < 2, nb < 2, dec_U()))
            elif oa == ob == "dec":
                yield "common-direction-kept", dec_U()
            elif (oa, ob) == ("inc", "dec"):
                yield "common-direction-kept", S.implies(na < 2, dec_U)     # a short self is also sorted decreasing
            elif (oa, ob) == ("dec", "inc"):
                yield "common-direction-kept", S.implies(nb < 2, dec_U)     # a short other is also sorted decreasing
            # set-level clauses: carried by the bounded stand-in (see bounded_clauses); thunks, never built symbolically
            yield "selfs-labels-kept", lambda: S.forall(0, na, lambda i, a_in=S.isin(a, U): S.at(a_in, i))
            yield "others-labels-kept", lambda: S.forall(0, nb, lambda j, b_in=S.isin(b, U): S.at(b_in, j))
            yield "nothing-invented", lambda: S.forall(0, m, lambda k, ina=S.isin(U, a), inb=S.isin(U, b): S.lor(S.at(ina, k), S.at(inb, k)))
        else:
            yield "selfs-order-kept", S.forall2(0, m, lambda k, l: S.forall(0, na, lambda i: S.forall(0, na, lambda j: S.implies(
                S.land(S.at(a, i) == S.at(U, k), S.at(a, j) == S.at(U, l)), i < j))))
            yield "only-labels-of-self", lambda: S.forall(0, m, lambda k, ina=S.isin(U, a): S.at(ina, k))
            yield "only-labels-of-other", lambda: S.forall(0, m, lambda k, inb=S.isin(U, b): S.at(inb, k))
            yield "every-common-label-kept", lambda: S.forall(0, na, lambda i, b_has=S.isin(a, b), a_in=S.isin(a, U): S.implies(
                S.at(b_has, i), lambda: S.at(a_in, i)))
        yield "operands-untouched", S.land(_labels_eq(S, env["ax1"].values, a), _labels_eq(S, env["ax2"].values, b),
                                           env["ax1"].name == "x0" if "_fresh" not in env else True)

    def canaries(self, S, case, env, result):
        yield "result-is-always-self", _labels_eq(S, result.values, env["old_a"])


class AxisUnion(AxisMerge):
    target = "dimarray.core.axes:Axis.union"
    op = "union"
    bounded_clauses = ("selfs-labels-kept", "others-labels-kept", "nothing-invented")

    def post(self, S, case, env, result):
        for c in AxisMerge.post(self, S, case, env, result):
            yield c
        a, b = env["old_a"], env["old_b"]
        na, nb = S.n(a), S.n(b)
        U = result.values
        m = S.n(U)
        oa, ob = case["orders"]
        if (oa, ob) in (("inc", "dec"), ("dec", "inc")):
            # no common direction: self's labels first, then the new ones in other's order
            # (when one side has fewer than two labels it is monotonic in both directions and the sorted merge applies)
            guard = S.land(na >= 2, nb >= 2)
            lead = S.forall(0, na, lambda i: S.implies(i < m, lambda: S.at(U, i) == S.at(a, i)))
            tail = S.forall2(0, m, lambda k, l: S.implies(k >= na, lambda: S.forall(0, nb, lambda i: S.forall(0, nb, lambda j: S.implies(
                S.land(S.at(b, i) == S.at(U, k), S.at(b, j) == S.at(U, l)), i < j)))))
            yield "opposite-directions:self-first-then-new-in-others-order", S.implies(guard, lambda: S.land(lead, tail))


class AxisIntersection(AxisMerge):
    target = "dimarray.core.axes:Axis.intersection"
    op = "intersection"
    bounded_clauses = ("only-labels-of-self", "only-labels-of-other", "every-common-label-kept")


class CommonAxis(Contract):
    """_common_axis(axes, join): fold of union / intersection over the list (recursion on its length,
    decreasing).  One axis: that axis.  [C06]"""
    target = "dimarray.core.align:_common_axis"
    props = ("C06",)
    uses = (stub_of(AxisUnion), stub_of(AxisIntersection))
    # The set-level clauses depend on union's / intersection's set-level clauses, which are only carried by a bounded
    # stand-in and therefore are NOT assumed here (a caller may rely only on what the callee's contract proves).  They
    # inherit the bounded status.  Proved against the callee contracts: the result is an Axis of the inputs' name, a
    # single input is returned as is, and each label occurs once.
    bounded_clauses = ("nothing-invented", "labels-of-input-0-kept", "labels-of-input-1-kept", "labels-of-input-2-kept",
                       "only-common-labels", "every-common-label-kept")

    def cases(self, tier):
        for n in (1, 2, 3):
            for join in ("outer", "inner"):
                yield {"name": "%d-axes-%s" % (n, join), "n": n, "join": join}

    def bound_lengths(self, case):
        return ["a%d.n" % i for i in range(case["n"])]

    def setup(self, S, case):
        arrs, axes = [], []
        for i in range(case["n"]):
            a = S.array1d("a%d" % i, "f")
            assume_order(S, a, "unique")
            S.assume(S.n(a) > 0, "non-empty axis")
            arrs.append(a)
            axes.append(S.da.Axis(a, "x0"))
        return {"arrs": arrs, "axes": axes, "args": (list(axes), case["join"])}

    def post(self, S, case, env, result):
        arrs = env["arrs"]
        U = result.values
        m = S.n(U)
        yield "is-axis-named-like-the-inputs", S.land(isinstance(result, S.da.Axis), result.name == "x0")
        if case["n"] == 1:
            yield "single-axis-is-returned-as-is", result is env["axes"][0]
            return
        yield "each-label-once", unique(S, U)
        if case["join"] == "outer":
            yield "nothing-invented", lambda: S.forall(0, m, lambda k, ins=[S.isin(U, a) for a in arrs]: S.lor(*[S.at(i_, k) for i_ in ins]))
            for t, a in enumerate(arrs):
                yield "labels-of-input-%d-kept" % t, (lambda a=a: S.forall(0, S.n(a), lambda i, a_in=S.isin(a, U): S.at(a_in, i)))
        else:
            yield "only-common-labels", lambda: S.forall(0, m, lambda k, ins=[S.isin(U, a) for a in arrs]: S.land(*[S.at(i_, k) for i_ in ins]))
            first = arrs[0]
            yield "every-common-label-kept", lambda: S.forall(0, S.n(first), lambda i, others=[S.isin(first, a) for a in arrs[1:]], f_in=S.isin(first, U): S.implies(
                S.land(*[S.at(o, i) for o in others]), lambda: S.at(f_in, i)))

    def canaries(self, S, case, env, result):
        yield "result-is-empty", S.n(result.values) == 0


class UnionLabelPrecision(Contract):
    """BOUNDED STAND-IN ONLY (never counted as proved).  Labels of MIXED integer / float kinds: Axis.union / intersection, align
    and a + b must carry every input label EXACTLY -- integer labels beyond 2**24 (what a single-precision cast destroys)
    and beyond 2**31 (what a 32-bit integer cast destroys) next to float labels, resp. next to unsigned labels -- and each
    array must keep its values at its own labels.  The verifier's labels are mathematical numbers; the width of the type
    a label passes through exists only natively.  [C06, C04]"""
    target = "dimarray.core.axes:_check_axes_merge"
    props = ("C06", "C04")
    native_only = True

    def cases(self, tier):
        for op in ("union", "intersection", "align-outer", "add"):
            for mix in ("int64|float", "float|int64", "int64|uint8"):
                yield {"name": "%s-%s" % (op, mix), "op": op, "mix": mix}

    def setup(self, S, case):
        La, Lb = S.array1d("la", "i"), S.array1d("lb", "i")
        assume_order(S, La, "unique")
        assume_order(S, Lb, "unique")
        S.assume(S.n(La) >= 1, "non-empty")
        S.assume(S.n(Lb) >= 1, "non-empty")
        return {"La": La, "Lb": Lb, "off": S.int("off")}

    def _labels(self, env):
        import numpy as np
        mix = env["case"]["mix"]
        base = [2 ** 24 + 1, 2 ** 31 + 5, 2 ** 40 + 3][int(env["off"]) % 3]
        big = (np.abs(np.asarray(env["La"], dtype=np.int64)) * 2 + base).astype(np.int64)          # distinct, odd offsets beyond the width
        small = np.asarray(env["Lb"], dtype=np.int64)
        if mix == "int64|float":
            return big, small.astype(float) + 0.5
        if mix == "float|int64":
            return small.astype(float) + 0.5, big
        return big, (np.abs(small) % 200).astype(np.uint8)

    def call(self, fn, env):
        import numpy as np
        S, case = env["S"], env["case"]
        la, lb = self._labels(env)
        if len(set(la.tolist())) != len(la) or len(set(lb.tolist())) != len(lb):
            raise S.PreconditionNotMet() if hasattr(S, "PreconditionNotMet") else ValueError("labels not distinct")
        da = S.da
        a = da.DimArray(np.arange(len(la), dtype=float) + 1, axes=[("x", la)])
        b = da.DimArray(np.arange(len(lb), dtype=float) + 100, axes=[("x", lb)])
        env.update({"a": a, "b": b, "la": la, "lb": lb})
        op = case["op"]
        if op == "union":
            return da.Axis(la, "x").union(da.Axis(lb, "x"))
        if op == "intersection":
            return da.Axis(la, "x").intersection(da.Axis(np.concatenate([lb, la[:1].astype(lb.dtype) if lb.dtype.kind == "f" else la[:1]]) if lb.dtype.kind != "u" else lb, "x"))
        if op == "align-outer":
            return da.align([a, b])
        return a + b

    def raises(self, S, case, env):
        return {ValueError: (False, True)}        # (a family member whose derived labels collide is skipped)

    def post(self, S, case, env, result):
        import numpy as np
        from fractions import Fraction
        op = case["op"]
        la, lb = env["la"], env["lb"]
        exact = lambda v: Fraction(float(v)) if isinstance(v, (float, np.floating)) else Fraction(int(v))
        want = {exact(v) for v in la} | {exact(v) for v in lb}
        if op == "union":
            got = [exact(v) for v in result.values]
            yield "every-input-label-exactly-once-nothing-invented", sorted(got) == sorted(want)
        elif op == "intersection":
            got = {exact(v) for v in result.values}
            yield "only-common-labels-each-exact", got <= {exact(v) for v in la} and all(g in {exact(v) for v in la} for g in got)
        elif op == "align-outer":
            ra, rb = result
            yield "common-axis-holds-every-label-exactly", sorted(exact(v) for v in ra.axes[0].values) == sorted(want) and \
                [exact(v) for v in ra.axes[0].values] == [exact(v) for v in rb.axes[0].values]
            pos = {exact(v): i for i, v in enumerate(ra.axes[0].values)}
            yield "each-array-keeps-its-values-at-its-labels", all(ra.values[pos[exact(v)]] == env["a"].values[i] for i, v in enumerate(la) if exact(v) in pos) and \
                all(rb.values[pos[exact(v)]] == env["b"].values[i] for i, v in enumerate(lb) if exact(v) in pos) and len(pos) == len(want)
        else:
            yield "result-axis-holds-every-label-exactly", sorted(exact(v) for v in result.axes[0].values) == sorted(want)
            common = {exact(v) for v in la} & {exact(v) for v in lb}
            pos = {exact(v): i for i, v in enumerate(result.axes[0].values)}
            va = {exact(v): env["a"].values[i] for i, v in enumerate(la)}
            vb = {exact(v): env["b"].values[i] for i, v in enumerate(lb)}
            yield "value-where-both-define-the-label-nan-elsewhere", len(pos) == len(want) and all(
                (result.values[pos[l]] == va[l] + vb[l]) if l in common else np.isnan(result.values[pos[l]]) for l in want if l in pos)


class CommonDirectionNative(Contract):
    """BOUNDED STAND-IN ONLY (never counted as proved).  "Inputs that are all sorted in the same direction give a result sorted in
    that direction", for THREE inputs (the proved contracts state it for Axis.union of two axes and for the fold as a whole only
    through them): align([a, b, c], join='outer') where every input is sorted in one direction -- inputs of a single label are
    sorted in both -- gives a common axis sorted in that direction holding every label once.  Cases by which inputs have one
    label only.  [C06]"""
    target = "dimarray.core.align:_common_axis"
    props = ("C06",)
    native_only = True

    def cases(self, tier):
        for direction in ("inc", "dec"):
            for singles in ("none", "last", "last-two", "first", "middle"):
                yield {"name": "%s-single-label-inputs_%s" % (direction, singles), "dir": direction, "singles": singles}

    def setup(self, S, case):
        Ls = [S.array1d("l%d" % i, "f") for i in range(3)]
        for L in Ls:
            assume_order(S, L, "unique")
            S.assume(S.n(L) >= 1, "non-empty")
        return {"Ls": Ls}

    def call(self, fn, env):
        import numpy as np
        S, case = env["S"], env["case"]
        single = {"none": (), "last": (2,), "last-two": (1, 2), "first": (0,), "middle": (1,)}[case["singles"]]
        labs = []
        for i, L in enumerate(env["Ls"]):
            v = np.sort(np.asarray(L, dtype=float))
            if case["dir"] == "dec":
                v = v[::-1]
            if i in single:
                v = v[:1] + 0.25 * (i + 1)            # one label, distinct from the others' (quarter offsets)
            labs.append(v.copy())
        arrays = [S.da.DimArray(np.arange(len(v), dtype=float) + 10 * i, axes=[("x", v)]) for i, v in enumerate(labs)]
        env["labs"] = labs
        import importlib
        return importlib.import_module("dimarray.core.align").align(arrays, join="outer")

    def post(self, S, case, env, result):
        import numpy as np
        want = sorted({float(t) for v in env["labs"] for t in v}, reverse=case["dir"] == "dec")
        multi = [v for v in env["labs"] if len(v) >= 2]
        got = [float(t) for t in result[0].axes[0].values]
        yield "every-label-once", sorted(got) == sorted(want)
        if multi:          # (with single-label inputs only there is no direction to keep)
            yield "common-axis-sorted-in-the-inputs-direction", got == want
