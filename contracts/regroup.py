"""Contracts for flatten / unflatten / reshape and MultiAxis  [C11]"""
import itertools

from dverif.contract_base import Contract
from .bases import make_dimarray

ATTRS = {"units": "K", "history": ["made"]}


def _multiaxis():
    import importlib
    return importlib.import_module("dimarray.core.axes").MultiAxis


def _untouched(S, env, rank):
    arr = env["arr"]
    return S.land(arr.values is env["data"], tuple(arr.dims) == tuple("x%d" % d for d in range(rank)), dict(arr.attrs) == env["attrs0"],
                  *[arr.axes[d].values is env["labels"][d] for d in range(rank)])


def _selections(rank, tier):
    """ordered selections of dimensions"""
    out = []
    for k in range(1, rank + 1):
        for sel in itertools.permutations(range(rank), k):
            out.append(sel)
    return out


def _expected_layout(rank, D, insert):
    others = [d for d in range(rank) if d not in D]
    pos = D_first = list(range(rank)).index(D[0])
    if insert is not None:
        pos = insert
    return others, pos


class Flatten(Contract):
    """a.flatten(dims, insert=p): ONE grouped axis replaces the listed dimensions, at position p among the remaining ones (by
    default where the first listed dimension was); it is a MultiAxis whose members are the operand's own Axis objects in the
    listed order and whose name joins their names with commas; the cell at grouped position g is the operand's cell at the
    g-th combination of member positions in ROW-MAJOR order of the listed dimensions (g = rowmajor(i_1..i_k)), whatever order
    the operand stores its dimensions in; the remaining dimensions keep their Axis objects and order; metadata kept; operand
    untouched.  Dimensions given as separate names, a tuple, a list, a set (then taken in the operand's order), by position,
    or as the complement (reverse=True).  [C11, C15, C16]"""
    target = "dimarray.core.reshape:flatten"
    props = ("C11", "C15", "C16")
    inlined = ("_get_axes_info", "transpose (own contract: Transpose)", "MultiAxis.__init__", "MultiAxis.size", "_constructor", "DimArray.__init__")

    def cases(self, tier):
        for rank in (1, 2, 3) if tier == "quick" else (1, 2, 3, 4):
            for D in _selections(rank, tier):
                if rank == 4 and len(D) not in (2, 3):
                    continue
                others = rank - len(D)
                for insert in [None] + list(range(others + 1)):
                    if rank >= 3 and tier == "quick" and insert not in (None, 0, others):
                        continue
                    for form in ("names", "tuple", "list", "set", "positions", "reverse", "noargs"):
                        if form == "noargs" and (list(D) != list(range(rank)) or insert is not None):
                            continue
                        if form == "set" and list(D) != sorted(D):
                            continue          # a set has no order: the operand's order is used
                        if form == "reverse" and (others == 0 or list(D) != sorted(D)):
                            continue
                        if form in ("tuple", "positions", "list") and rank >= 3 and tier == "quick" and insert is not None:
                            continue
                        yield {"name": "r%d-dims%s-insert_%s-%s" % (rank, "".join(map(str, D)), insert, form), "rank": rank, "D": list(D),
                               "insert": insert, "form": form}

    def bound_lengths(self, case):
        return ["lab%d.n" % d for d in range(case["rank"])]

    def setup(self, S, case):
        arr, labels, data = make_dimarray(S, case["rank"], attrs=ATTRS)
        return {"arr": arr, "labels": labels, "data": data, "attrs0": dict(arr.attrs), "axes0": list(arr.axes)}

    def call(self, fn, env):
        case, arr = env["case"], env["arr"]
        D, form = case["D"], case["form"]
        names = ["x%d" % d for d in D]
        kw = {} if case["insert"] is None else {"insert": case["insert"]}
        if form == "noargs":
            return arr.flatten()
        if form == "names":
            return arr.flatten(*names, **kw)
        if form == "tuple":
            return arr.flatten(tuple(names), **kw)
        if form == "list":
            return arr.flatten(list(names), **kw)
        if form == "set":
            return arr.flatten(set(names), **kw)
        if form == "positions":
            return arr.flatten(tuple(D), **kw)
        return arr.flatten(tuple("x%d" % d for d in range(case["rank"]) if d not in D), reverse=True, **kw)

    def post(self, S, case, env, result):
        rank, D = case["rank"], case["D"]
        arr, labels = env["arr"], env["labels"]
        others, pos = _expected_layout(rank, D, case["insert"])
        pos = min(pos, len(others))
        gname = ",".join("x%d" % d for d in D)
        want_dims = ["x%d" % d for d in others[:pos]] + [gname] + ["x%d" % d for d in others[pos:]]
        yield "is-dimarray", S.is_dimarray(result)
        ok = tuple(result.dims) == tuple(want_dims)
        yield "one-grouped-dimension-named-by-the-comma-joined-members-at-the-insert-position", ok
        if not ok:
            return
        group = result.axes[pos]
        ok = isinstance(group, _multiaxis()) and len(group.axes) == len(D)
        yield "grouped-axis-is-a-multiaxis-over-the-members", ok
        if not ok:
            return
        yield "members-are-the-operands-axis-objects-in-listed-order", all(group.axes[i] is env["axes0"][d] for i, d in enumerate(D))
        sizes = [S.n(labels[d]) for d in D]
        yield "grouped-extent-is-the-product", S.land(group.size == S.prod(sizes), S.shape(result.values)[pos] == S.prod(sizes))
        yield "remaining-axes-travel", all(result.axes[k if k < pos else k + 1] is env["axes0"][d] for k, d in enumerate(others))
        shape = [S.n(labels[d]) for d in range(rank)]
        rv = result.values

        def cell(*c):
            g = S.rowmajor([c[d] for d in D], sizes)
            ridx = [c[d] for d in others[:pos]] + [g] + [c[d] for d in others[pos:]]
            return S.same(S.at(rv, *ridx), S.at(env["data"], *c))
        yield "cell-at-the-row-major-position-of-every-label-combination", S.forall_nd(shape, cell)
        yield "metadata-kept", S.land(dict(result.attrs) == env["attrs0"], result.attrs is not arr.attrs)
        yield "operand-untouched", _untouched(S, env, rank)

    def canaries(self, S, case, env, result):
        yield "result-is-empty", S.shape(result.values)[0] == 0


class Unflatten(Contract):
    """a.unflatten(axis): the grouped (MultiAxis) dimension is replaced, in place, by its member axes -- the very member Axis
    objects, in their order -- and the cell at member positions (i_1..i_k) is the operand's cell at grouped position
    rowmajor(i_1..i_k); the other dimensions, the metadata and the operand are untouched.  axis by name, by position, or
    omitted (every grouped dimension).  [C11]"""
    target = "dimarray.core.reshape:unflatten"
    props = ("C11", "C15", "C16")
    inlined = ("MultiAxis.size", "_constructor", "DimArray.__init__")

    def cases(self, tier):
        for k in (1, 2, 3):
            for before in (0, 1):
                for after in (0, 1):
                    if k == 3 and (before or after) and tier == "quick":
                        continue
                    for by in ("name", "position", "all"):
                        yield {"name": "group%d-before%d-after%d-by_%s" % (k, before, after, by), "k": k, "before": before, "after": after, "by": by}

    def bound_lengths(self, case):
        return ["m%d.n" % i for i in range(case["k"])] + (["b.n"] if case["before"] else []) + (["a.n"] if case["after"] else [])

    def setup(self, S, case):
        Axis = S.da.Axis
        members = [S.array1d("m%d" % i, ("f", "O", "f")[i]) for i in range(case["k"])]
        maxes = [Axis(L, "g%d" % i) for i, L in enumerate(members)]
        group = _multiaxis()(*maxes)
        axes, shape = [], []
        if case["before"]:
            B = S.array1d("b", "f")
            axes.append(Axis(B, "b")); shape.append(S.n(B))
        N = S.prod([S.n(L) for L in members])
        axes.append(group); shape.append(N)
        if case["after"]:
            A = S.array1d("a", "O")
            axes.append(Axis(A, "a")); shape.append(S.n(A))
        data = S.arraynd("data", "f", tuple(shape))
        arr = S.da.DimArray(data, axes=axes)
        arr.attrs.update(ATTRS)
        return {"arr": arr, "data": data, "members": members, "maxes": maxes, "group": group, "axes0": list(arr.axes), "attrs0": dict(arr.attrs),
                "pos": case["before"]}

    def call(self, fn, env):
        case, arr = env["case"], env["arr"]
        if case["by"] == "all":
            return arr.unflatten()
        return arr.unflatten(axis=env["group"].name if case["by"] == "name" else env["pos"])

    def post(self, S, case, env, result):
        k, pos = case["k"], env["pos"]
        arr = env["arr"]
        names = (["b"] if case["before"] else []) + ["g%d" % i for i in range(k)] + (["a"] if case["after"] else [])
        yield "is-dimarray", S.is_dimarray(result)
        ok = tuple(result.dims) == tuple(names)
        yield "members-replace-the-group-in-place", ok
        if not ok:
            return
        yield "member-axes-are-the-groups-own", all(result.axes[pos + i] is env["maxes"][i] for i in range(k))
        if case["before"]:
            yield "dimension-before-untouched", result.axes[0] is env["axes0"][0]
        if case["after"]:
            yield "dimension-after-untouched", result.axes[-1] is env["axes0"][-1]
        sizes = [S.n(L) for L in env["members"]]
        shape = ([S.n(env["axes0"][0].values)] if case["before"] else []) + sizes + ([S.n(env["axes0"][-1].values)] if case["after"] else [])
        yield "extents-are-the-members", S.land(len(S.shape(result.values)) == len(shape), *[S.shape(result.values)[i] == shape[i] for i in range(len(shape))])
        rv = result.values

        def cell(*c):
            g = S.rowmajor(list(c[pos:pos + k]), sizes)
            src = list(c[:pos]) + [g] + list(c[pos + k:])
            return S.same(S.at(rv, *c), S.at(env["data"], *src))
        yield "cell-at-member-positions-is-the-cell-at-their-row-major-position", S.forall_nd(shape, cell)
        yield "metadata-kept", dict(result.attrs) == env["attrs0"]
        yield "operand-untouched", S.land(arr.values is env["data"], all(a is b for a, b in zip(arr.axes, env["axes0"])), len(arr.axes) == len(env["axes0"]),
                                          dict(arr.attrs) == env["attrs0"])

    def canaries(self, S, case, env, result):
        yield "result-is-empty", S.shape(result.values)[0] == 0


class FlattenUnflatten(Contract):
    """a.flatten(dims, insert=p).unflatten() keeps every element at its label coordinates: the result has the listed
    dimensions, in listed order, at position p among the others, every Axis object is the operand's own, and the cell at
    every coordinate (matched by dimension NAME) is the operand's cell.  For every subset and order of dimensions.  [C11]"""
    target = "dimarray.core.reshape:flatten"
    props = ("C11",)
    inlined = ("flatten (own contract: Flatten)", "unflatten (own contract: Unflatten)")

    def cases(self, tier):
        for rank in (2, 3):
            for D in _selections(rank, tier):
                if len(D) < 2 and tier == "quick":
                    continue
                others = rank - len(D)
                for insert in (None, 0, others):
                    if insert == others and others == 0:
                        continue
                    yield {"name": "r%d-dims%s-insert_%s" % (rank, "".join(map(str, D)), insert), "rank": rank, "D": list(D), "insert": insert}

    def bound_lengths(self, case):
        return ["lab%d.n" % d for d in range(case["rank"])]

    def setup(self, S, case):
        arr, labels, data = make_dimarray(S, case["rank"], attrs=ATTRS)
        return {"arr": arr, "labels": labels, "data": data, "attrs0": dict(arr.attrs), "axes0": list(arr.axes)}

    def call(self, fn, env):
        case, arr = env["case"], env["arr"]
        kw = {} if case["insert"] is None else {"insert": case["insert"]}
        return arr.flatten(tuple("x%d" % d for d in case["D"]), **kw).unflatten()

    def post(self, S, case, env, result):
        rank, D = case["rank"], case["D"]
        others, pos = _expected_layout(rank, D, case["insert"])
        pos = min(pos, len(others))
        order = others[:pos] + list(D) + others[pos:]
        ok = tuple(result.dims) == tuple("x%d" % d for d in order)
        yield "dimensions-restored-in-grouped-order", ok
        if not ok:
            return
        yield "every-axis-is-the-operands-own", all(result.axes[i] is env["axes0"][d] for i, d in enumerate(order))
        shape = [S.n(env["labels"][d]) for d in range(rank)]
        yield "every-element-keeps-its-label-coordinates", S.forall_nd(shape, lambda *c: S.same(S.at(result.values, *[c[d] for d in order]), S.at(env["data"], *c)))
        yield "metadata-kept", dict(result.attrs) == env["attrs0"]
        yield "operand-untouched", _untouched(S, env, rank)

    def canaries(self, S, case, env, result):
        yield "result-is-empty", S.shape(result.values)[0] == 0


class MultiAxisLabels(Contract):
    """BOUNDED STAND-IN ONLY (never counted as proved).  The labels of a grouped axis are built lazily by Python-level zip /
    meshgrid / tolist code outside the symbolic engine's reach: MultiAxis(ax_1..ax_k).values[g] is the tuple of member labels
    at the g-th combination in row-major order (the member's own labels for k = 1), its size the product of the member
    sizes, its name the comma-joined member names.  Evaluated on the real code over member label arrays of length 0-3.  [C11]"""
    target = "dimarray.core.axes:MultiAxis"
    props = ("C11",)
    native_only = True

    def cases(self, tier):
        for k in (1, 2, 3):
            for kinds in ("fff", "OOO", "fOf", "iii", "fif"):
                if k == 1 and kinds not in ("fff", "OOO"):
                    continue
                yield {"name": "members%d-%s" % (k, kinds[:k]), "k": k, "kinds": kinds[:k]}
        # integer labels that no float can hold (time stamps in nanoseconds) next to float labels: each member label must come back
        # EXACTLY, as the member axis has it
        yield {"name": "members2-if-beyond-2**53", "k": 2, "kinds": "if", "big": True}
        yield {"name": "members3-fiO-beyond-2**53", "k": 3, "kinds": "fiO", "big": True}

    def setup(self, S, case):
        members = [S.array1d("m%d" % i, case["kinds"][i]) for i in range(case["k"])]
        return {"members": members}

    def _members(self, env):
        import numpy as np
        out = []
        for i, L in enumerate(env["members"]):
            L = np.asarray(L)
            if env["case"].get("big") and env["case"]["kinds"][i] == "i":
                L = L.astype(np.int64) + (1600000000000000001 if L.size else 0)
            out.append(L)
        return out

    def call(self, fn, env):
        S = env["S"]
        return _multiaxis()(*[S.da.Axis(L, "g%d" % i) for i, L in enumerate(self._members(env))])

    def post(self, S, case, env, result):
        import numpy as np
        k = case["k"]
        Ls = [list(L) for L in self._members(env)]
        total = 1
        for L in Ls:
            total *= len(L)
        yield "name-joins-the-member-names", result.name == ",".join("g%d" % i for i in range(k))
        yield "size-is-the-product", int(result.size) == total
        vals = result.values
        ok = len(vals) == total
        if ok:
            for c in np.ndindex(*[len(L) for L in Ls]):
                g = S.rowmajor(list(c), [len(L) for L in Ls])
                want = tuple(Ls[i][c[i]] for i in range(k)) if k > 1 else Ls[0][c[0]]
                got = vals[g]
                got = tuple(got) if k > 1 else got
                ok = ok and got == want and (k == 1 or all(isinstance(x, str) == isinstance(y, str) for x, y in zip(got, want)))
                if case.get("big") and k > 1:
                    ok = ok and all(int(x) == int(y) for x, y, kd in zip(got, want, case["kinds"]) if kd == "i")      # exact, not float-equal
        yield "labels-are-the-member-label-combinations-in-row-major-order", ok


class Reshape(Contract):
    """a.reshape(newdims): the result's dimensions are exactly newdims; a name with commas is the grouped (MultiAxis) dimension
    over the listed members -- the operand's own Axis objects, or the members of the operand's grouped axes, which are first
    ungrouped --; names the operand does not have are new singleton dimensions and the operand's singleton dimensions that
    are not listed are dropped; every element keeps its LABEL coordinates: the cell at member positions (c_d) sits at
    rowmajor(c_members) along each grouped dimension and at c_d along each plain one, whatever transposes that takes;
    metadata kept, operand untouched.  [C11]"""
    target = "dimarray.core.reshape:reshape"
    props = ("C11", "C15", "C16")
    inlined = ("unflatten (own contract: Unflatten)", "squeeze (own contract: Squeeze)", "transpose (own contract: Transpose)",
               "newaxis (own contract: NewAxis)", "flatten (own contract: Flatten)", "_unflatten_dims")

    # source: list of source dimensions, each a list of member names (a grouped axis has several); singles: members of extent 1
    SOURCES = {
        "xy": ([["x0"], ["x1"]], ()),
        "xyz": ([["x0"], ["x1"], ["x2"]], ()),
        "x1y": ([["x0"], ["x1"]], ("x1",)),
        "x1yz": ([["x0"], ["x1"], ["x2"]], ("x1",)),
        "(xy)": ([["x0", "x1"]], ()),
        "(xy)z": ([["x0", "x1"], ["x2"]], ()),
        "z(xy)": ([["x2"], ["x0", "x1"]], ()),
    }
    TARGETS = {
        "xy": ["x0,x1", "x1,x0", "x1|x0", "x0|x1|w", "w|x0,x1", "x0|w|x1", "x0|x1"],
        "xyz": ["x0|x1,x2", "x0,x1|x2", "x0,x2|x1", "x2|x0,x1", "x2,x1,x0", "x1|x0|x2", "x2,x0|w|x1"],
        "x1y": ["x0", "x1,x0", "w|x0"],
        "x1yz": ["x0|x2", "x2,x0", "x2|x1,x0"],
        "(xy)": ["x0|x1", "x1|x0", "x1,x0", "x0,x1", "w|x0,x1"],
        "(xy)z": ["x0|x1|x2", "x0|x1,x2", "x2,x0|x1", "x0,x1,x2", "x2|x0,x1"],
        "z(xy)": ["x2|x0|x1", "x2,x0|x1", "x0,x1|x2"],
    }

    def cases(self, tier):
        for src, targets in self.TARGETS.items():
            for t in targets:
                for form in ("varargs", "tuple", "list"):
                    if form != "varargs" and (tier == "quick" and t != targets[0]):
                        continue
                    yield {"name": "%s->%s-%s" % (src, t, form), "src": src, "target": t.split("|"), "form": form}

    def bound_lengths(self, case):
        return ["lab_%s.n" % m for grp in self.SOURCES[case["src"]][0] for m in grp]

    def setup(self, S, case):
        groups, singles = self.SOURCES[case["src"]]
        Axis = S.da.Axis
        labs, member_axis, axes, shape = {}, {}, [], []
        kinds = {"x0": "f", "x1": "O", "x2": "f"}
        for grp in groups:
            for m in grp:
                L = S.array1d("lab_%s" % m, kinds[m])
                if m in singles:
                    S.assume(S.n(L) == 1, "%s is a singleton dimension" % m)
                labs[m] = L
                member_axis[m] = Axis(L, m)
            if len(grp) == 1:
                axes.append(member_axis[grp[0]]); shape.append(S.n(labs[grp[0]]))
            else:
                axes.append(_multiaxis()(*[member_axis[m] for m in grp])); shape.append(S.prod([S.n(labs[m]) for m in grp]))
        data = S.arraynd("data", "f", tuple(shape))
        arr = S.da.DimArray(data, axes=axes)
        arr.attrs.update(ATTRS)
        return {"arr": arr, "data": data, "labs": labs, "member_axis": member_axis, "axes0": list(arr.axes), "attrs0": dict(arr.attrs),
                "dims0": tuple(arr.dims)}

    def call(self, fn, env):
        case, arr = env["case"], env["arr"]
        t = case["target"]
        if case["form"] == "varargs":
            return arr.reshape(*t)
        return arr.reshape(tuple(t) if case["form"] == "tuple" else list(t))

    def post(self, S, case, env, result):
        groups, singles = self.SOURCES[case["src"]]
        labs, target = env["labs"], case["target"]
        members = [m for grp in groups for m in grp]
        yield "is-dimarray", S.is_dimarray(result)
        ok = tuple(result.dims) == tuple(target)
        yield "dimensions-are-exactly-the-requested-ones", ok
        if not ok:
            return
        def same_axis(ax, m):
            # (reshape may go through newaxis, which copies the axes: equal name and labels, not identity, is what is required)
            L = labs[m]
            return S.land(ax.name == m, S.n(ax.values) == S.n(L), S.forall(0, S.n(L), lambda k: S.implies(k < S.n(ax.values), lambda: S.at(ax.values, k) == S.at(L, k))))
        for i, t in enumerate(target):
            ms = t.split(",")
            if len(ms) > 1:
                ax = result.axes[i]
                ok = isinstance(ax, _multiaxis()) and len(ax.axes) == len(ms)
                yield "%s:grouped-axis-over-the-listed-members" % t, ok and S.land(*[same_axis(ax.axes[k], m) for k, m in enumerate(ms)])
            elif t in env["member_axis"]:
                yield "%s:axis-carries-the-operands-labels" % t, same_axis(result.axes[i], t)
            else:
                yield "%s:new-singleton-dimension" % t, S.n(result.axes[i].values) == 1
        n = {m: S.n(labs[m]) for m in members}
        rv = result.values

        def cell(*c):
            pos = dict(zip(members, c))
            ridx = []
            for t in target:
                ms = t.split(",")
                if len(ms) > 1:
                    ridx.append(S.rowmajor([pos[m] for m in ms], [n[m] for m in ms]))
                elif t in pos:
                    ridx.append(pos[t])
                else:
                    ridx.append(0)
            sidx = [S.rowmajor([pos[m] for m in grp], [n[m] for m in grp]) for grp in groups]
            return S.same(S.at(rv, *ridx), S.at(env["data"], *sidx))
        yield "every-element-keeps-its-label-coordinates", S.forall_nd([n[m] for m in members], cell)
        yield "metadata-kept", dict(result.attrs) == env["attrs0"]
        arr = env["arr"]
        yield "operand-untouched", S.land(arr.values is env["data"], tuple(arr.dims) == env["dims0"], len(arr.axes) == len(env["axes0"]),
                                          all(a is b for a, b in zip(arr.axes, env["axes0"])), dict(arr.attrs) == env["attrs0"],
                                          *[env["member_axis"][m].name == m and env["member_axis"][m].values is labs[m] for m in members])

    def canaries(self, S, case, env, result):
        yield "result-is-empty", S.shape(result.values)[0] == 0


class UnflattenSeveralGroups(Contract):
    """BOUNDED STAND-IN ONLY (never counted as proved).  An array carrying TWO grouped dimensions at once (reshape('a,b', 'c,d') of
    a 4-d array, or two successive flatten calls): unflatten() restores every member axis -- dims (a, b, c, d), the member
    labels, every element at its label coordinates --, unflatten(axis=one group) ungroups that one only, and reshape to the
    plain dimensions does the same.  (The symbolic Unflatten contract has one grouped dimension per array.)  Member labels of
    length 1-2.  [C11]"""
    target = "dimarray.core.reshape:unflatten"
    props = ("C11",)
    native_only = True

    def cases(self, tier):
        for how in ("reshape", "two-flattens"):
            for then in ("unflatten-all", "unflatten-first", "unflatten-second", "reshape-plain"):
                yield {"name": "%s-%s" % (how, then), "how": how, "then": then}

    def setup(self, S, case):
        from .common import assume_order
        Ls = [S.array1d("l%d" % i, ("f", "O", "f", "O")[i]) for i in range(4)]
        for L in Ls:
            assume_order(S, L, "unique")
            S.assume(S.n(L) >= 1, "non-empty")
            S.assume(S.n(L) <= 2, "at most two labels per member (four members)")
        return {"Ls": Ls}

    def call(self, fn, env):
        import numpy as np
        S, case = env["S"], env["case"]
        labs = [np.asarray(L) for L in env["Ls"]]
        shape = tuple(len(L) for L in labs)
        v = S.da.DimArray(np.arange(int(np.prod(shape)), dtype=float).reshape(shape) + 0.5, axes=[(n, L.copy()) for n, L in zip("abcd", labs)])
        g = v.reshape("a,b", "c,d") if case["how"] == "reshape" else v.flatten(("a", "b")).flatten(("c", "d"))
        env.update({"v": v, "g": g, "labs": labs})
        t = case["then"]
        if t == "unflatten-all":
            return g.unflatten()
        if t == "unflatten-first":
            return g.unflatten(axis="a,b")
        if t == "unflatten-second":
            return g.unflatten(axis="c,d")
        return g.reshape("a", "b", "c", "d")

    def post(self, S, case, env, result):
        import numpy as np
        v, g, t = env["v"], env["g"], case["then"]
        yield "two-grouped-dimensions-to-start-with", tuple(g.dims) == ("a,b", "c,d")
        want = {"unflatten-all": ("a", "b", "c", "d"), "reshape-plain": ("a", "b", "c", "d"), "unflatten-first": ("a", "b", "c,d"), "unflatten-second": ("a,b", "c", "d")}[t]
        ok = S.is_dimarray(result) and tuple(result.dims) == want
        yield "dims-are-the-member-dimensions-of-what-was-ungrouped", ok
        if not ok:
            return
        full = result if len(want) == 4 else result.unflatten()
        yield "every-element-at-its-label-coordinates", tuple(full.dims) == ("a", "b", "c", "d") and full.values.shape == v.values.shape and bool(np.all(full.values == v.values)) and \
            all(list(r.values) == list(o.values) for r, o in zip(full.axes, v.axes))
