"""Shared semantic definitions (DESIGN Appendix B), written against the dual spec API."""


def _max(S, a, b):
    return S.ite(a >= b, a, b)


def _min(S, a, b):
    return S.ite(a <= b, a, b)


def _clamp(S, x, L, U, default, n):
    """CPython PySlice_AdjustIndices for one bound"""
    if x is None:
        return default
    return S.ite(x < 0, _max(S, x + n, L), _min(S, x, U))


def slice_bounds(S, n, a, b, step):
    """(lo, hi) visited positions are lo, lo+step, ... strictly before hi (in travel direction)"""
    if step > 0:
        return _clamp(S, a, 0, n, 0, n), _clamp(S, b, 0, n, n, n)
    return _clamp(S, a, -1, n - 1, n - 1, n), _clamp(S, b, -1, n - 1, -1, n)


def in_slice(S, n, a, b, step, p):
    """does python/numpy slice(a, b, step) on length n visit position p?"""
    step = 1 if step is None else step
    lo, hi = slice_bounds(S, n, a, b, step)
    if step > 0:
        return S.land(lo <= p, p < hi, S.mod(p - lo, step) == 0)
    return S.land(hi < p, p <= lo, S.mod(lo - p, -step) == 0)


def strictly_increasing(S, arr):
    return S.forall2(0, S.n(arr), lambda i, j: S.at(arr, i) < S.at(arr, j))


def strictly_decreasing(S, arr):
    return S.forall2(0, S.n(arr), lambda i, j: S.at(arr, i) > S.at(arr, j))


def unique(S, arr):
    return S.forall2(0, S.n(arr), lambda i, j: S.at(arr, i) != S.at(arr, j))


def first_occurrence(S, arr, x, i):
    """i is the least position holding x"""
    return S.land(0 <= i, i < S.n(arr), S.at(arr, i) == x, S.forall(0, i, lambda k: S.at(arr, k) != x))


def absent(S, arr, x):
    return S.forall(0, S.n(arr), lambda k: S.at(arr, k) != x)


def assume_order(S, arr, order):
    """assume an order property of a label array and tag the array with it (the tag only selects which
    case of a callee contract applies at a call site; the callee's requires is still *proved* there)"""
    n = S.n(arr)
    if order == "inc":
        S.assume(strictly_increasing(S, arr), "labels strictly increasing")
    elif order == "dec":
        S.assume(n >= 2, "a decreasing axis has at least two labels (shorter axes count as increasing)")
        S.assume(strictly_decreasing(S, arr), "labels strictly decreasing")
    elif order == "unique":
        S.assume(unique(S, arr), "labels pairwise distinct")
    elif order == "any":
        pass
    else:
        raise ValueError(order)
    S.tag(arr, "order", order)


def order_of(arr):
    buf = getattr(arr, "buf", None)
    return getattr(buf, "tags", {}).get("order") if buf is not None else None


def slice_count(S, n, a, b, step):
    """number of positions visited by slice(a, b, step) on length n, and the first one"""
    step = 1 if step is None else step
    lo, hi = slice_bounds(S, n, a, b, step)
    if step > 0:
        cnt = S.ite(hi > lo, S.div(hi - lo + (step - 1), step), 0)
    else:
        cnt = S.ite(lo > hi, S.div(lo - hi + (-step - 1), -step), 0)
    return lo, cnt, step


def selector(S, n, entry):
    """one entry of a position tuple -> (count or None when the dimension is dropped, src: k -> position,
    member: p -> is position p selected)"""
    if isinstance(entry, slice):
        lo, cnt, step = slice_count(S, n, entry.start, entry.stop, entry.step)
        if step > 0:
            member = lambda p: S.land(p >= lo, S.mod(p - lo, step) == 0, S.div(p - lo, step) < cnt)
        else:
            member = lambda p: S.land(p <= lo, S.mod(lo - p, -step) == 0, S.div(lo - p, -step) < cnt)
        return cnt, (lambda k: lo + step * k), member
    if isinstance(entry, list):
        entry = S.asarray(entry)          # a Python list of positions (what Axis.loc returns for a list looked up with tol=)
    if S.is_array(entry):
        if S.kind(entry) == "b":
            pos = S.mask_positions(entry)
            return S.n(pos), (lambda k: S.at(pos, k)), (lambda p: S.at(entry, p))
        src = lambda k: S.ite(S.at(entry, k) < 0, S.at(entry, k) + n, S.at(entry, k))
        return S.n(entry), src, (lambda p: S.exists(0, S.n(entry), lambda k: src(k) == p))
    if S.isint(entry):
        q = S.ite(entry < 0, entry + n, entry)
        return None, (lambda: q), (lambda p: p == q)
    raise TypeError("selector: %r" % (entry,))
