"""Contracts for dimarray/core/reshape.py  [C10, C11]"""
import itertools

from dverif.contract_base import Contract
from .bases import make_dimarray


def _names(rank):
    return ["x%d" % d for d in range(rank)]


def _common_clauses(S, env, result, perm):
    """result dimension i is operand dimension perm[i]: names, axis objects (shared), labels, cells, metadata"""
    arr, labels, data = env["arr"], env["labels"], env["data"]
    rank = len(labels)
    yield "is-dimarray", S.is_dimarray(result)
    yield "dims-are-the-requested-arrangement", tuple(result.dims) == tuple("x%d" % p for p in perm)
    yield "every-axis-travels-with-its-dimension", all(result.axes[i] is arr.axes[p] for i, p in enumerate(perm))
    for i, p in enumerate(perm):
        Lr = result.axes[i].values
        yield "dim%d:labels-unchanged" % p, S.land(S.n(Lr) == S.n(labels[p]), S.forall(0, S.n(labels[p]), lambda k, Lr=Lr, p=p: S.implies(
            k < S.n(Lr), lambda: S.at(Lr, k) == S.at(labels[p], k))))
    inv = [perm.index(d) for d in range(rank)] if sorted(perm) == list(range(rank)) else None
    rv = result.values
    yield "one-axis-per-array-dimension", len(S.shape(rv)) == len(perm) and len(result.axes) == len(perm)
    if inv is not None:
        shape = [S.n(labels[p]) for p in perm]
        yield "cells-keep-their-label-coordinates", S.forall_nd(shape, lambda *ks: S.same(S.at(rv, *ks), S.at(data, *[ks[inv[d]] for d in range(rank)])))
    yield "metadata-kept", S.land(dict(result.attrs) == env["attrs0"], result.attrs is not arr.attrs)
    yield "operand-untouched", S.land(arr.values is data, tuple(arr.dims) == tuple(_names(rank)), dict(arr.attrs) == env["attrs0"],
                                      *[arr.axes[d].values is labels[d] for d in range(rank)])


def _setup(S, rank):
    arr, labels, data = make_dimarray(S, rank, attrs={"units": "K", "history": ["made"]})
    return {"arr": arr, "labels": labels, "data": data, "attrs0": dict(arr.attrs)}


def _lens(rank):
    return ["lab%d.n" % d for d in range(rank)]


class Transpose(Contract):
    """transpose(*dims) / .T: the result's dimensions are the requested permutation (given by names, positions or a mix,
    as separate arguments or one list / tuple); each axis object travels with its dimension; the cell at any label
    coordinate is the operand's cell at the same coordinates; metadata kept; operand untouched.  No argument: reversed
    for rank 2, identity for rank <= 1, ValueError above.  [C10]"""
    target = "dimarray.core.reshape:transpose"
    props = ("C10", "C16", "C15")
    inlined = ("_get_axes_info", "_get_axis_info", "_constructor", "DimArray.__init__")

    def cases(self, tier):
        maxrank = 3 if tier == "quick" else 4
        for rank in range(0, maxrank + 1):
            for perm in itertools.permutations(range(rank)):
                for spelling in ("names", "positions", "mixed", "list-of-names"):
                    if rank == 0 and spelling != "names":
                        continue
                    if rank > 3 and spelling in ("mixed", "list-of-names") and perm != tuple(reversed(range(rank))):
                        continue
                    yield {"name": "r%d-%s-%s" % (rank, "".join(map(str, perm)) or "none", spelling), "rank": rank,
                           "perm": list(perm), "spelling": spelling}
            yield {"name": "r%d-noargs" % rank, "rank": rank, "perm": list(reversed(range(rank))) if rank <= 2 else None, "spelling": "noargs"}
            if rank:
                yield {"name": "r%d-T" % rank, "rank": rank, "perm": list(reversed(range(rank))), "spelling": "T"}

    def bound_lengths(self, case):
        return _lens(case["rank"])

    def setup(self, S, case):
        return _setup(S, case["rank"])

    def call(self, fn, env):
        case, arr = env["case"], env["arr"]
        sp, perm = case["spelling"], case["perm"]
        if sp == "noargs":
            return arr.transpose()
        if sp == "T":
            return arr.T
        if sp == "names":
            return arr.transpose(*["x%d" % p for p in perm])
        if sp == "positions":
            return arr.transpose(*perm)
        if sp == "mixed":
            return arr.transpose(*[("x%d" % p) if i % 2 else p for i, p in enumerate(perm)])
        return arr.transpose(["x%d" % p for p in perm])

    def raises(self, S, case, env):
        if case["spelling"] == "noargs" and case["rank"] > 2:
            return {ValueError: True}
        if case["spelling"] == "T" and case["rank"] > 2:
            return {ValueError: (False, True)}      # .T of a rank > 2 array: refused or reversed, either is acceptable
        return {}

    def post(self, S, case, env, result):
        if case["rank"] == 0:
            yield "rank-0-returned-as-is", result is env["arr"]
            return
        for c in _common_clauses(S, env, result, case["perm"]):
            yield c

    def canaries(self, S, case, env, result):
        if case["rank"] >= 2:
            yield "labels-of-first-dimension-never-move", result.axes[0] is env["arr"].axes[1] and result.axes[0] is env["arr"].axes[0]
        else:
            yield "metadata-dropped", len(result.attrs) == 0


class SwapAxes(Contract):
    """swapaxes(a, b): the transposition of dimensions a and b (names or positions), everything else as Transpose.  [C10]"""
    target = "dimarray.core.reshape:swapaxes"
    props = ("C10",)
    inlined = ("transpose (own contract: Transpose)",)

    def cases(self, tier):
        for rank in (1, 2, 3) if tier == "quick" else (1, 2, 3, 4):
            for a in range(rank):
                for b in range(rank):
                    for by in ("names", "positions", "mixed"):
                        yield {"name": "r%d-%d%d-%s" % (rank, a, b, by), "rank": rank, "a": a, "b": b, "by": by}

    def bound_lengths(self, case):
        return _lens(case["rank"])

    def setup(self, S, case):
        return _setup(S, case["rank"])

    def call(self, fn, env):
        c = env["case"]
        a = "x%d" % c["a"] if c["by"] in ("names", "mixed") else c["a"]
        b = "x%d" % c["b"] if c["by"] == "names" else c["b"]
        return env["arr"].swapaxes(a, b)

    def post(self, S, case, env, result):
        perm = list(range(case["rank"]))
        perm[case["a"]], perm[case["b"]] = perm[case["b"]], perm[case["a"]]
        for c in _common_clauses(S, env, result, perm):
            yield c

    def canaries(self, S, case, env, result):
        yield "metadata-dropped", len(result.attrs) == 0


class RollAxis(Contract):
    """rollaxis(axis, start): `axis` is moved to lie before position `start`, the other dimensions keep their relative
    order (NumPy's rollaxis rule, validated in libcheck); everything else as Transpose.  [C10]"""
    target = "dimarray.core.reshape:rollaxis"
    props = ("C10",)
    inlined = ("transpose (own contract: Transpose)",)

    def cases(self, tier):
        for rank in (1, 2, 3) if tier == "quick" else (1, 2, 3, 4):
            for axis in range(rank):
                for start in range(-rank, rank + 1):          # negative insertion positions count from the end, as in NumPy
                    for by in ("name", "position", "negative-position"):
                        if by == "negative-position" and start >= 0 and rank > 2:
                            continue
                        yield {"name": "r%d-axis%d-start%d-%s" % (rank, axis, start, by), "rank": rank, "axis": axis, "start": start, "by": by}

    def bound_lengths(self, case):
        return _lens(case["rank"])

    def setup(self, S, case):
        return _setup(S, case["rank"])

    def call(self, fn, env):
        c = env["case"]
        ax = {"name": "x%d" % c["axis"], "position": c["axis"], "negative-position": c["axis"] - c["rank"]}[c["by"]]
        return env["arr"].rollaxis(ax, c["start"])

    def post(self, S, case, env, result):
        perm = list(range(case["rank"]))
        axis, start = case["axis"], case["start"]
        if start < 0:
            start += case["rank"]
        if axis < start:
            start -= 1
        perm.remove(axis)
        perm.insert(start, axis)
        for c in _common_clauses(S, env, result, perm):
            yield c

    def canaries(self, S, case, env, result):
        yield "metadata-dropped", len(result.attrs) == 0


class NewAxis(Contract):
    """newaxis(name, values=None, pos): a new dimension is inserted at `pos` (-1 = last); without values it is a singleton
    labelled None, with values it carries exactly those labels and the data is replicated along it; all other axes keep
    name, labels and order; every cell keeps its coordinates; metadata kept; an existing name raises ValueError.  [C10]"""
    target = "dimarray.core.reshape:newaxis"
    props = ("C10",)
    inlined = ("repeat (own contract: Repeat)", "Axes.copy", "Axes.insert", "_constructor")

    def cases(self, tier):
        for rank in (0, 1, 2) if tier == "quick" else (0, 1, 2, 3):
            for pos in list(range(rank + 1)) + [-1]:
                for values in (False, True):
                    yield {"name": "r%d-pos%d-%s" % (rank, pos, "values" if values else "singleton"), "rank": rank, "pos": pos, "values": values, "dup": False}
        yield {"name": "r2-duplicate-name", "rank": 2, "pos": 0, "values": False, "dup": True}

    def bound_lengths(self, case):
        return _lens(case["rank"]) + (["newlab.n"] if case["values"] else [])

    def setup(self, S, case):
        env = _setup(S, case["rank"])
        env["newlab"] = S.array1d("newlab", "f") if case["values"] else None
        return env

    def call(self, fn, env):
        c = env["case"]
        return env["arr"].newaxis("x1" if c["dup"] else "new", values=env["newlab"], pos=c["pos"])

    def raises(self, S, case, env):
        return {ValueError: case["dup"]}

    def post(self, S, case, env, result):
        arr, labels, data = env["arr"], env["labels"], env["data"]
        rank = case["rank"]
        pos = rank if case["pos"] == -1 else case["pos"]
        names = _names(rank)
        names.insert(pos, "new")
        yield "dims-with-the-new-one-inserted", tuple(result.dims) == tuple(names)
        Ln = result.axes[pos].values
        if case["values"]:
            nl = env["newlab"]
            yield "new-axis-carries-the-given-labels", S.land(S.n(Ln) == S.n(nl), S.forall(0, S.n(nl), lambda k: S.implies(k < S.n(Ln), lambda: S.at(Ln, k) == S.at(nl, k))))
            m = S.n(nl)
        else:
            yield "new-axis-is-a-singleton-labelled-None", S.land(S.n(Ln) == 1, result.axes[pos].values.tolist() == [None])
            m = 1
        for d in range(rank):
            i = d if d < pos else d + 1
            Lr = result.axes[i].values
            yield "dim%d:labels-unchanged" % d, S.land(S.n(Lr) == S.n(labels[d]), S.forall(0, S.n(labels[d]), lambda k, Lr=Lr, d=d: S.implies(
                k < S.n(Lr), lambda: S.at(Lr, k) == S.at(labels[d], k))))
        rv = result.values
        shape = [S.n(L) for L in labels]
        shape.insert(pos, m)
        yield "one-axis-per-array-dimension", len(S.shape(rv)) == rank + 1 and len(result.axes) == rank + 1
        yield "cells-replicated-along-the-new-dimension", S.forall_nd(shape, lambda *ks: S.same(S.at(rv, *ks), S.at(data, *[k for i, k in enumerate(ks) if i != pos])))
        yield "metadata-kept", dict(result.attrs) == env["attrs0"]
        yield "operand-untouched", S.land(arr.values is data, tuple(arr.dims) == tuple(_names(rank)), len(arr.axes) == rank,
                                          *[arr.axes[d].values is labels[d] for d in range(rank)])

    def canaries(self, S, case, env, result):
        yield "rank-unchanged", len(result.dims) == case["rank"]


class Squeeze(Contract):
    """squeeze(axis=None): exactly the singleton dimensions (all of them, or the named one if it is a singleton) are
    removed; the others keep name, labels, order and data.  [C10]"""
    target = "dimarray.core.reshape:squeeze"
    props = ("C10",)

    def cases(self, tier):
        for rank in (1, 2, 3):
            for which in ["all"] + list(range(rank)):
                for by in (("name", "position") if which != "all" else ("-",)):
                    yield {"name": "r%d-%s-%s" % (rank, which, by), "rank": rank, "which": which, "by": by}

    def bound_lengths(self, case):
        return _lens(case["rank"])

    def setup(self, S, case):
        return _setup(S, case["rank"])

    def call(self, fn, env):
        c = env["case"]
        if c["which"] == "all":
            return env["arr"].squeeze()
        return env["arr"].squeeze("x%d" % c["which"] if c["by"] == "name" else c["which"])

    def raises(self, S, case, env):
        if case["which"] == "all":
            return {}
        # NumPy refuses to squeeze a named axis that is not a singleton
        return {ValueError: S.n(env["labels"][case["which"]]) != 1}

    def post(self, S, case, env, result):
        arr, labels, data = env["arr"], env["labels"], env["data"]
        rank = case["rank"]
        cand = range(rank) if case["which"] == "all" else [case["which"]]
        # which dimensions survive is decided by the path (sizes are symbolic); read it off the result and justify it
        kept = [int(d[1:]) for d in result.dims]
        yield "surviving-dimensions-in-order", kept == sorted(kept) and set(kept) <= set(range(rank))
        for d in range(rank):
            n = S.n(labels[d])
            if d in kept:
                yield "dim%d:kept-so-not-a-removable-singleton" % d, True if d not in cand else (n != 1)
            else:
                yield "dim%d:removed-so-a-singleton-that-was-asked-for" % d, S.land(d in cand, n == 1)
        for i, d in enumerate(kept):
            yield "dim%d:axis-travels" % d, result.axes[i] is arr.axes[d]
        rv = result.values
        yield "one-axis-per-array-dimension", len(S.shape(rv)) == len(kept)
        shape = [S.n(labels[d]) for d in kept]
        yield "cells-keep-their-label-coordinates", S.forall_nd(shape, lambda *ks: S.same(
            S.at(rv, *ks), S.at(data, *[ks[kept.index(d)] if d in kept else 0 for d in range(rank)])))
        yield "metadata-kept", dict(result.attrs) == env["attrs0"]

    def canaries(self, S, case, env, result):
        yield "nothing-ever-removed", len(result.dims) == case["rank"]


class Repeat(Contract):
    """repeat(values, axis): a singleton dimension is expanded to the given labels (an int n means 0..n-1), the data
    replicated along it; a non-singleton dimension raises ValueError; everything else untouched.  [C10]"""
    target = "dimarray.core.reshape:repeat"
    props = ("C10",)
    bound_names = ()

    def cases(self, tier):
        for rank in (1, 2, 3) if tier != "quick" else (1, 2):
            for d in range(rank):
                for given in ("labels", "count"):
                    for by in ("name", "position"):
                        yield {"name": "r%d-axis%d-%s-%s" % (rank, d, given, by), "rank": rank, "d": d, "given": given, "by": by}

    def bound_lengths(self, case):
        return _lens(case["rank"]) + (["newlab.n"] if case["given"] == "labels" else [])

    def setup(self, S, case):
        env = _setup(S, case["rank"])
        env["newlab"] = S.array1d("newlab", "f") if case["given"] == "labels" else None
        env["count"] = 3
        return env

    def call(self, fn, env):
        c = env["case"]
        axis = "x%d" % c["d"] if c["by"] == "name" else c["d"]
        return env["arr"].repeat(env["newlab"] if c["given"] == "labels" else env["count"], axis=axis)

    def raises(self, S, case, env):
        return {ValueError: S.n(env["labels"][case["d"]]) != 1}

    def post(self, S, case, env, result):
        arr, labels, data = env["arr"], env["labels"], env["data"]
        rank, d = case["rank"], case["d"]
        yield "dims-kept", tuple(result.dims) == tuple(_names(rank))
        Ln = result.axes[d].values
        if case["given"] == "labels":
            nl = env["newlab"]
            m = S.n(nl)
            yield "axis-carries-the-given-labels", S.land(S.n(Ln) == m, S.forall(0, m, lambda k: S.implies(k < S.n(Ln), lambda: S.at(Ln, k) == S.at(nl, k))))
        else:
            m = env["count"]
            yield "axis-labelled-0..n-1", S.land(S.n(Ln) == m, S.forall(0, m, lambda k: S.implies(k < S.n(Ln), lambda: S.at(Ln, k) == k)))
        for e in range(rank):
            if e != d:
                yield "dim%d:axis-travels" % e, result.axes[e] is arr.axes[e]
        rv = result.values
        shape = [S.n(L) if e != d else m for e, L in enumerate(labels)]
        yield "cells-replicated-along-the-repeated-dimension", S.forall_nd(shape, lambda *ks: S.same(
            S.at(rv, *ks), S.at(data, *[k if e != d else 0 for e, k in enumerate(ks)])))
        yield "metadata-kept", dict(result.attrs) == env["attrs0"]
        yield "operand-untouched", S.land(arr.values is data, arr.axes[d].values is labels[d])

    def canaries(self, S, case, env, result):
        yield "axis-stays-singleton", S.n(result.axes[case["d"]].values) == 1
