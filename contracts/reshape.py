"""Contracts for dimarray/core/reshape.py  [C10, C11]"""
import itertools

from dverif.contract_base import Contract
from .bases import make_dimarray


def _names(rank):
    return ["x%d" % d for d in range(rank)]


def _common_clauses(S, env, result, perm):
    """result dimension i is operand dimension perm[i]: names, axis objects (shared), labels, cells, metadata"""
    arr, labels, data = env["arr"], env["labels"], env["data"]
    rank = len(labels)
    yield "is-dimarray", S.is_dimarray(result)
    yield "dims-are-the-requested-arrangement", tuple(result.dims) == tuple("x%d" % p for p in perm)
    yield "every-axis-travels-with-its-dimension", all(result.axes[i] is arr.axes[p] for i, p in enumerate(perm))
    for i, p in enumerate(perm):
        Lr = result.axes[i].values
        yield "dim%d:labels-unchanged" % p, S.land(S.n(Lr) == S.n(labels[p]), S.forall(0, S.n(labels[p]), lambda k, Lr=Lr, p=p: S.implies(
            k < S.n(Lr), lambda: S.at(Lr, k) == S.at(labels[p], k))))
    inv = [perm.index(d) for d in range(rank)] if sorted(perm) == list(range(rank)) else None
    rv = result.values
    yield "one-axis-per-array-dimension", len(S.shape(rv)) == len(perm) and len(result.axes) == len(perm)
    if inv is not None:
        shape = [S.n(labels[p]) for p in perm]
        yield "cells-keep-their-label-coordinates", S.forall_nd(shape, lambda *ks: S.same(S.at(rv, *ks), S.at(data, *[ks[inv[d]] for d in range(rank)])))
    yield "metadata-kept", S.land(dict(result.attrs) == env["attrs0"], result.attrs is not arr.attrs)
    yield "operand-untouched", S.land(arr.values is data, tuple(arr.dims) == tuple(_names(rank)), dict(arr.attrs) == env["attrs0"],
                                      *[arr.axes[d].values is labels[d] for d in range(rank)])


def _setup(S, rank):
    arr, labels, data = make_dimarray(S, rank, attrs={"units": "K", "history": ["made"]})
    return {"arr": arr, "labels": labels, "data": data, "attrs0": dict(arr.attrs)}


def _lens(rank):
    return ["lab%d.n" % d for d in range(rank)]


class Transpose(Contract):
    """transpose(*dims) / .T: the result's dimensions are the requested permutation (given by names, positions or a mix,
    as separate arguments or one list / tuple); each axis object travels with its dimension; the cell at any label
    coordinate is the operand's cell at the same coordinates; metadata kept; operand untouched.  No argument: reversed
    for rank 2, identity for rank <= 1, ValueError above.  [C10]"""
    target = "dimarray.core.reshape:transpose"
    props = ("C10", "C16", "C15")
    inlined = ("_get_axes_info", "_get_axis_info", "_constructor", "DimArray.__init__")

    def cases(self, tier):
        maxrank = 3 if tier == "quick" else 4
        for rank in range(0, maxrank + 1):
            for perm in itertools.permutations(range(rank)):
                for spelling in ("names", "positions", "mixed", "list-of-names"):
                    if rank == 0 and spelling != "names":
                        continue
                    if rank > 3 and spelling in ("mixed", "list-of-names") and perm != tuple(reversed(range(rank))):
                        continue
                    yield {"name": "r%d-%s-%s" % (rank, "".join(map(str, perm)) or "none", spelling), "rank": rank,
                           "perm": list(perm), "spelling": spelling}
            yield {"name": "r%d-noargs" % rank, "rank": rank, "perm": list(reversed(range(rank))) if rank <= 2 else None, "spelling": "noargs"}
            if rank:
                yield {"name": "r%d-T" % rank, "rank": rank, "perm": list(reversed(range(rank))), "spelling": "T"}

    def bound_lengths(self, case):
        return _lens(case["rank"])

    def setup(self, S, case):
        return _setup(S, case["rank"])

    def call(self, fn, env):
        case, arr = env["case"], env["arr"]
        sp, perm = case["spelling"], case["perm"]
        if sp == "noargs":
            return arr.transpose()
        if sp == "T":
            return arr.T
        if sp == "names":
            return arr.transpose(*["x%d" % p for p in perm])
        if sp == "positions":
            return arr.transpose(*perm)
        if sp == "mixed":
            return arr.transpose(*[("x%d" % p) if i % 2 else p for i, p in enumerate(perm)])
        return arr.transpose(["x%d" % p for p in perm])

    def raises(self, S, case, env):
        if case["spelling"] == "noargs" and case["rank"] > 2:
            return {ValueError: True}
        if case["spelling"] == "T" and case["rank"] > 2:
            return {ValueError: (False, True)}      # .T of a rank > 2 array: refused or reversed, either is acceptable
        return {}

    def post(self, S, case, env, result):
        if case["rank"] == 0:
            yield "rank-0-returned-as-is", result is env["arr"]
            return
        for c in _common_clauses(S, env, result, case["perm"]):
            yield c

    def canaries(self, S, case, env, result):
        if case["rank"] >= 2:
            yield "labels-of-first-dimension-never-move", result.axes[0] is env["arr"].axes[1] and result.axes[0] is env["arr"].axes[0]
        else:
            yield "metadata-dropped", len(result.attrs) == 0


class SwapAxes(Contract):
    """swapaxes(a, b): the transposition of dimensions a and b (names, positions, positions counted from the end, or a mix),
    everything else as Transpose.  [C10]"""
    target = "dimarray.core.reshape:swapaxes"
    props = ("C10",)
    inlined = ("transpose (own contract: Transpose)",)

    def cases(self, tier):
        for rank in (1, 2, 3) if tier == "quick" else (1, 2, 3, 4):
            for a in range(rank):
                for b in range(rank):
                    # negative: positions counted from the end (NumPy's spelling); neg-pos: one of each
                    for by in ("names", "positions", "mixed") + (("negative", "neg-pos") if rank > 1 else ()):
                        yield {"name": "r%d-%d%d-%s" % (rank, a, b, by), "rank": rank, "a": a, "b": b, "by": by}

    def bound_lengths(self, case):
        return _lens(case["rank"])

    def setup(self, S, case):
        return _setup(S, case["rank"])

    def call(self, fn, env):
        c = env["case"]
        if c["by"] in ("negative", "neg-pos"):
            return env["arr"].swapaxes(c["a"] - c["rank"], c["b"] - c["rank"] if c["by"] == "negative" else c["b"])
        a = "x%d" % c["a"] if c["by"] in ("names", "mixed") else c["a"]
        b = "x%d" % c["b"] if c["by"] == "names" else c["b"]
        return env["arr"].swapaxes(a, b)

    def post(self, S, case, env, result):
        perm = list(range(case["rank"]))
        perm[case["a"]], perm[case["b"]] = perm[case["b"]], perm[case["a"]]
        for c in _common_clauses(S, env, result, perm):
            yield c

    def canaries(self, S, case, env, result):
        yield "metadata-dropped", len(result.attrs) == 0


class RollAxis(Contract):
    """rollaxis(axis, start): `axis` is moved to lie before position `start`, the other dimensions keep their relative
    order (NumPy's rollaxis rule, validated in libcheck); everything else as Transpose.  [C10]"""
    target = "dimarray.core.reshape:rollaxis"
    props = ("C10",)
    inlined = ("transpose (own contract: Transpose)",)

    def cases(self, tier):
        for rank in (1, 2, 3) if tier == "quick" else (1, 2, 3, 4):
            for axis in range(rank):
                for start in range(-rank, rank + 1):          # negative insertion positions count from the end, as in NumPy
                    for by in ("name", "position", "negative-position"):
                        if by == "negative-position" and start >= 0 and rank > 2:
                            continue
                        yield {"name": "r%d-axis%d-start%d-%s" % (rank, axis, start, by), "rank": rank, "axis": axis, "start": start, "by": by}

    def bound_lengths(self, case):
        return _lens(case["rank"])

    def setup(self, S, case):
        return _setup(S, case["rank"])

    def call(self, fn, env):
        c = env["case"]
        ax = {"name": "x%d" % c["axis"], "position": c["axis"], "negative-position": c["axis"] - c["rank"]}[c["by"]]
        return env["arr"].rollaxis(ax, c["start"])

    def post(self, S, case, env, result):
        perm = list(range(case["rank"]))
        axis, start = case["axis"], case["start"]
        if start < 0:
            start += case["rank"]
        if axis < start:
            start -= 1
        perm.remove(axis)
        perm.insert(start, axis)
        for c in _common_clauses(S, env, result, perm):
            yield c

    def canaries(self, S, case, env, result):
        yield "metadata-dropped", len(result.attrs) == 0


class NewAxis(Contract):
    """newaxis(name, values=None, pos): a new dimension is inserted at `pos` (-1 = last); without values it is a singleton
    labelled None, with values it carries exactly those labels and the data is replicated along it; all other axes keep
    name, labels and order; every cell keeps its coordinates; metadata kept; an existing name raises ValueError.  [C10]"""
    target = "dimarray.core.reshape:newaxis"
    props = ("C10",)
    inlined = ("repeat (own contract: Repeat)", "Axes.copy", "Axes.insert", "_constructor")

    def cases(self, tier):
        for rank in (0, 1, 2) if tier == "quick" else (0, 1, 2, 3):
            for pos in list(range(rank + 1)) + [-1]:
                for values in (False, True):
                    yield {"name": "r%d-pos%d-%s" % (rank, pos, "values" if values else "singleton"), "rank": rank, "pos": pos, "values": values, "dup": False}
        yield {"name": "r2-duplicate-name", "rank": 2, "pos": 0, "values": False, "dup": True}

    def bound_lengths(self, case):
        return _lens(case["rank"]) + (["newlab.n"] if case["values"] else [])

    def setup(self, S, case):
        env = _setup(S, case["rank"])
        env["newlab"] = S.array1d("newlab", "f") if case["values"] else None
        return env

    def call(self, fn, env):
        c = env["case"]
        return env["arr"].newaxis("x1" if c["dup"] else "new", values=env["newlab"], pos=c["pos"])

    def raises(self, S, case, env):
        return {ValueError: case["dup"]}

    def post(self, S, case, env, result):
        arr, labels, data = env["arr"], env["labels"], env["data"]
        rank = case["rank"]
        pos = rank if case["pos"] == -1 else case["pos"]
        names = _names(rank)
        names.insert(pos, "new")
        yield "dims-with-the-new-one-inserted", tuple(result.dims) == tuple(names)
        Ln = result.axes[pos].values
        if case["values"]:
            nl = env["newlab"]
            yield "new-axis-carries-the-given-labels", S.land(S.n(Ln) == S.n(nl), S.forall(0, S.n(nl), lambda k: S.implies(k < S.n(Ln), lambda: S.at(Ln, k) == S.at(nl, k))))
            m = S.n(nl)
        else:
            yield "new-axis-is-a-singleton-labelled-None", S.land(S.n(Ln) == 1, result.axes[pos].values.tolist() == [None])
            m = 1
        for d in range(rank):
            i = d if d < pos else d + 1
            Lr = result.axes[i].values
            yield "dim%d:labels-unchanged" % d, S.land(S.n(Lr) == S.n(labels[d]), S.forall(0, S.n(labels[d]), lambda k, Lr=Lr, d=d: S.implies(
                k < S.n(Lr), lambda: S.at(Lr, k) == S.at(labels[d], k))))
        rv = result.values
        shape = [S.n(L) for L in labels]
        shape.insert(pos, m)
        yield "one-axis-per-array-dimension", len(S.shape(rv)) == rank + 1 and len(result.axes) == rank + 1
        yield "cells-replicated-along-the-new-dimension", S.forall_nd(shape, lambda *ks: S.same(S.at(rv, *ks), S.at(data, *[k for i, k in enumerate(ks) if i != pos])))
        yield "metadata-kept", dict(result.attrs) == env["attrs0"]
        yield "operand-untouched", S.land(arr.values is data, tuple(arr.dims) == tuple(_names(rank)), len(arr.axes) == rank,
                                          *[arr.axes[d].values is labels[d] for d in range(rank)])

    def canaries(self, S, case, env, result):
        yield "rank-unchanged", len(result.dims) == case["rank"]


class Squeeze(Contract):
    """squeeze(axis=None): exactly the singleton dimensions (all of them, or the named one if it is a singleton) are
    removed; the others keep name, labels, order and data.  [C10]"""
    target = "dimarray.core.reshape:squeeze"
    props = ("C10",)

    def cases(self, tier):
        for rank in (1, 2, 3):
            for which in ["all"] + list(range(rank)):
                for by in (("name", "position") if which != "all" else ("-",)):
                    yield {"name": "r%d-%s-%s" % (rank, which, by), "rank": rank, "which": which, "by": by}

    def bound_lengths(self, case):
        return _lens(case["rank"])

    def setup(self, S, case):
        return _setup(S, case["rank"])

    def call(self, fn, env):
        c = env["case"]
        if c["which"] == "all":
            return env["arr"].squeeze()
        return env["arr"].squeeze("x%d" % c["which"] if c["by"] == "name" else c["which"])

    def raises(self, S, case, env):
        if case["which"] == "all":
            return {}
        # NumPy refuses to squeeze a named axis that is not a singleton
        return {ValueError: S.n(env["labels"][case["which"]]) != 1}

    def post(self, S, case, env, result):
        arr, labels, data = env["arr"], env["labels"], env["data"]
        rank = case["rank"]
        cand = range(rank) if case["which"] == "all" else [case["which"]]
        # which dimensions survive is decided by the path (sizes are symbolic); read it off the result and justify it
        kept = [int(d[1:]) for d in result.dims]
        yield "surviving-dimensions-in-order", kept == sorted(kept) and set(kept) <= set(range(rank))
        for d in range(rank):
            n = S.n(labels[d])
            if d in kept:
                yield "dim%d:kept-so-not-a-removable-singleton" % d, True if d not in cand else (n != 1)
            else:
                yield "dim%d:removed-so-a-singleton-that-was-asked-for" % d, S.land(d in cand, n == 1)
        for i, d in enumerate(kept):
            yield "dim%d:axis-travels" % d, result.axes[i] is arr.axes[d]
        rv = result.values
        yield "one-axis-per-array-dimension", len(S.shape(rv)) == len(kept)
        shape = [S.n(labels[d]) for d in kept]
        yield "cells-keep-their-label-coordinates", S.forall_nd(shape, lambda *ks: S.same(
            S.at(rv, *ks), S.at(data, *[ks[kept.index(d)] if d in kept else 0 for d in range(rank)])))
        yield "metadata-kept", dict(result.attrs) == env["attrs0"]

    def canaries(self, S, case, env, result):
        yield "nothing-ever-removed", len(result.dims) == case["rank"]


class Repeat(Contract):
    """repeat(values, axis): a singleton dimension is expanded to the given labels (an int n means 0..n-1), the data
    replicated along it; a non-singleton dimension raises ValueError; everything else untouched.  [C10]"""
    target = "dimarray.core.reshape:repeat"
    props = ("C10",)
    bound_names = ()

    def cases(self, tier):
        for rank in (1, 2, 3) if tier != "quick" else (1, 2):
            for d in range(rank):
                for given in ("labels", "count"):
                    for by in ("name", "position"):
                        yield {"name": "r%d-axis%d-%s-%s" % (rank, d, given, by), "rank": rank, "d": d, "given": given, "by": by}

    def bound_lengths(self, case):
        return _lens(case["rank"]) + (["newlab.n"] if case["given"] == "labels" else [])

    def setup(self, S, case):
        env = _setup(S, case["rank"])
        env["newlab"] = S.array1d("newlab", "f") if case["given"] == "labels" else None
        env["count"] = 3
        return env

    def call(self, fn, env):
        c = env["case"]
        axis = "x%d" % c["d"] if c["by"] == "name" else c["d"]
        return env["arr"].repeat(env["newlab"] if c["given"] == "labels" else env["count"], axis=axis)

    def raises(self, S, case, env):
        return {ValueError: S.n(env["labels"][case["d"]]) != 1}

    def post(self, S, case, env, result):
        arr, labels, data = env["arr"], env["labels"], env["data"]
        rank, d = case["rank"], case["d"]
        yield "dims-kept", tuple(result.dims) == tuple(_names(rank))
        Ln = result.axes[d].values
        if case["given"] == "labels":
            nl = env["newlab"]
            m = S.n(nl)
            yield "axis-carries-the-given-labels", S.land(S.n(Ln) == m, S.forall(0, m, lambda k: S.implies(k < S.n(Ln), lambda: S.at(Ln, k) == S.at(nl, k))))
        else:
            m = env["count"]
            yield "axis-labelled-0..n-1", S.land(S.n(Ln) == m, S.forall(0, m, lambda k: S.implies(k < S.n(Ln), lambda: S.at(Ln, k) == k)))
        for e in range(rank):
            if e != d:
                yield "dim%d:axis-travels" % e, result.axes[e] is arr.axes[e]
        rv = result.values
        shape = [S.n(L) if e != d else m for e, L in enumerate(labels)]
        yield "cells-replicated-along-the-repeated-dimension", S.forall_nd(shape, lambda *ks: S.same(
            S.at(rv, *ks), S.at(data, *[k if e != d else 0 for e, k in enumerate(ks)])))
        yield "metadata-kept", dict(result.attrs) == env["attrs0"]
        yield "operand-untouched", S.land(arr.values is data, arr.axes[d].values is labels[d])

    def canaries(self, S, case, env, result):
        yield "axis-stays-singleton", S.n(result.axes[case["d"]].values) == 1


# ---- broadcast / broadcast_arrays (they need reshape(), C11's row-major model) -------------------------------------------
BC_KIND = {"x0": "f", "x1": "O", "x2": "f"}


def _bc_array(S, prefix, dims):
    from .common import assume_order
    labs, axes = {}, []
    for d in dims:
        L = S.array1d("%s.%s" % (prefix, d), BC_KIND[d])
        assume_order(S, L, "unique")
        labs[d] = L
        axes.append(S.da.Axis(L, d))
    data = S.arraynd(prefix + ".data", "f", tuple(S.n(labs[d]) for d in dims))
    arr = S.da.DimArray(data, axes=axes)
    arr.attrs.update({"units": "K"})
    return arr, labs, data


def _labels_equal(S, A, B):
    return S.land(S.n(A) == S.n(B), S.forall(0, S.n(A), lambda k: S.implies(k < S.n(B), lambda: S.at(A, k) == S.at(B, k))))


class Broadcast(Contract):
    """a.broadcast(target) for a target given as a list of Axis objects, a DimArray or an OrderedDict: the result's dimensions
    are exactly the target's, in the target's order; a dimension the operand has keeps the operand's labels and data (a
    SINGLETON dimension of the operand is expanded to the target's labels, its data replicated); a dimension the operand lacks
    carries the target's labels and the data is replicated along it; the cell at every coordinate is the operand's cell at the
    same coordinate restricted, by NAME, to the operand's dimensions; metadata kept; operand untouched.  Domain: on the
    dimensions both have (and the operand is not singleton) the target carries the operand's labels -- broadcast does not
    re-index.  [C10]"""
    target = "dimarray.core.reshape:broadcast"
    props = ("C10", "C15", "C16")
    inlined = ("reshape (own contract: Reshape, C11)", "repeat (own contract: Repeat)", "Axis.__init__")

    CONFIGS = {  # operand dims -> target dims
        "x0->x0x1": (["x0"], ["x0", "x1"]),
        "x1->x0x1": (["x1"], ["x0", "x1"]),
        "x1x0->x0x1": (["x1", "x0"], ["x0", "x1"]),
        "x0x1->x0x1": (["x0", "x1"], ["x0", "x1"]),
        "0d->x0": ([], ["x0"]),
        "0d->x0x1": ([], ["x0", "x1"]),
        "x0->x1x0x2": (["x0"], ["x1", "x0", "x2"]),
        "x2x0->x0x1x2": (["x2", "x0"], ["x0", "x1", "x2"]),
        # the operand's own dimensions in another order: 3-cycles are where a permutation and its inverse differ
        "x0x1x2->x2x0x1": (["x0", "x1", "x2"], ["x2", "x0", "x1"]),
        "x0x1x2->x1x2x0": (["x0", "x1", "x2"], ["x1", "x2", "x0"]),
        "x0x1x2->x0x2x1": (["x0", "x1", "x2"], ["x0", "x2", "x1"]),
    }

    def cases(self, tier):
        for cfg in self.CONFIGS:
            if tier == "quick" and cfg in ("x2x0->x0x1x2",):
                continue
            for form in ("axis-list", "dimarray", "ordereddict"):
                if form != "axis-list" and tier == "quick" and cfg not in ("x0->x0x1", "x1x0->x0x1"):
                    continue
                yield {"name": "%s-%s" % (cfg, form), "cfg": cfg, "form": form}

    def bound_lengths(self, case):
        src, tgt = self.CONFIGS[case["cfg"]]
        return ["a.%s.n" % d for d in src] + ["t.%s.n" % d for d in tgt]

    def setup(self, S, case):
        src, tgt = self.CONFIGS[case["cfg"]]
        arr, labs, data = _bc_array(S, "a", src)
        tarr, tlabs, tdata = _bc_array(S, "t", tgt)
        for d in src:
            if d in tgt:
                S.assume(S.lor(S.n(labs[d]) == 1, _labels_equal(S, tlabs[d], labs[d])), "the target carries the operand's labels on a shared non-singleton dimension")
        return {"arr": arr, "labs": labs, "data": data, "tarr": tarr, "tlabs": tlabs, "src": src, "tgt": tgt, "attrs0": dict(arr.attrs),
                "axes0": list(arr.axes)}

    def call(self, fn, env):
        from collections import OrderedDict
        form, tarr = env["case"]["form"], env["tarr"]
        if form == "axis-list":
            return env["arr"].broadcast(list(tarr.axes))
        if form == "dimarray":
            return env["arr"].broadcast(tarr)
        return env["arr"].broadcast(OrderedDict((ax.name, ax.values) for ax in tarr.axes))

    def post(self, S, case, env, result):
        src, tgt, labs, tlabs, data = env["src"], env["tgt"], env["labs"], env["tlabs"], env["data"]
        yield "is-dimarray", S.is_dimarray(result)
        ok = tuple(result.dims) == tuple(tgt)
        yield "dims-are-exactly-the-targets", ok
        if not ok:
            return
        ext = {}
        for i, d in enumerate(tgt):
            Lr, T = result.axes[i].values, tlabs[d]
            if d in src:
                L = labs[d]
                expand = S.land(S.n(L) == 1, S.n(T) != 1)
                yield "%s:operands-labels-unless-a-singleton-is-expanded" % d, S.land(
                    S.implies(expand, lambda Lr=Lr, T=T: _labels_equal(S, Lr, T)), S.implies(S.lnot(expand), lambda Lr=Lr, L=L: _labels_equal(S, Lr, L)))
            else:
                yield "%s:new-dimension-carries-the-targets-labels" % d, _labels_equal(S, Lr, T)
            ext[d] = S.n(Lr)
        rv = result.values

        def cell(*k):
            kk = dict(zip(tgt, k))
            sidx = [S.ite(S.n(labs[d]) == 1, 0, kk[d]) for d in src]
            return S.same(S.at(rv, *k), S.at(data, *sidx))
        yield "cell-is-the-operands-cell-at-the-same-coordinate-replicated-along-new-dimensions", S.forall_nd([ext[d] for d in tgt], cell)
        yield "metadata-kept", dict(result.attrs) == env["attrs0"]
        arr = env["arr"]
        yield "operand-untouched", S.land(arr.values is data, tuple(arr.dims) == tuple(src), dict(arr.attrs) == env["attrs0"],
                                          all(a is b for a, b in zip(arr.axes, env["axes0"])), *[arr.axes[i].values is labs[d] for i, d in enumerate(src)])

    def canaries(self, S, case, env, result):
        yield "result-is-empty", S.shape(result.values)[0] == 0


class BroadcastArrays(Contract):
    """broadcast_arrays(a, b): both results have the union of the dimensions (first-occurrence order) and the same shape;
    each dimension carries the labels of the operand(s) that have it; each result's cell at every coordinate is its own
    operand's cell at that coordinate restricted by NAME to the operand's dimensions (replicated along the others); ValueError
    when the operands' labels on a shared non-singleton dimension differ; metadata kept; operands untouched.  [C10]"""
    target = "dimarray.core.align:broadcast_arrays"
    props = ("C10", "C15")
    inlined = ("align_dims", "get_dims", "reshape (own contract: Reshape)", "_get_axes", "broadcast (own contract: Broadcast)")

    CONFIGS = {"x0|x1": (["x0"], ["x1"]), "x0x1|x1": (["x0", "x1"], ["x1"]), "x1|x0x1": (["x1"], ["x0", "x1"]), "x0x1|x1x0": (["x0", "x1"], ["x1", "x0"]),
               "x0|x0": (["x0"], ["x0"])}

    def cases(self, tier):
        for cfg in self.CONFIGS:
            yield {"name": cfg, "cfg": cfg}

    def bound_lengths(self, case):
        a, b = self.CONFIGS[case["cfg"]]
        return ["a.%s.n" % d for d in a] + ["b.%s.n" % d for d in b]

    def setup(self, S, case):
        da_, db_ = self.CONFIGS[case["cfg"]]
        a, la, xa = _bc_array(S, "a", da_)
        b, lb, xb = _bc_array(S, "b", db_)
        for d in da_:
            if d in db_:
                # sizes >= 2: singleton axes broadcast (their labels are not compared), which is Broadcast's subject
                S.assume(S.land(S.n(la[d]) >= 2, S.n(lb[d]) >= 2), "shared dimensions are not singletons")
        return {"arrs": [a, b], "labs": [la, lb], "datas": [xa, xb], "dims": [da_, db_], "axes0": [list(a.axes), list(b.axes)]}

    def call(self, fn, env):
        return fn(*env["arrs"])

    def raises(self, S, case, env):
        da_, db_ = env["dims"]
        la, lb = env["labs"]
        differ = S.lor(*[S.lnot(_labels_equal(S, la[d], lb[d])) for d in da_ if d in db_]) if any(d in db_ for d in da_) else False
        return {ValueError: differ}

    def post(self, S, case, env, result):
        da_, db_ = env["dims"]
        rdims = list(da_) + [d for d in db_ if d not in da_]
        yield "two-results", isinstance(result, (list, tuple)) and len(result) == 2
        owner = {d: (0 if d in da_ else 1) for d in rdims}
        for t in (0, 1):
            out, src, labs, data = result[t], env["dims"][t], env["labs"][t], env["datas"][t]
            ok = S.is_dimarray(out) and tuple(out.dims) == tuple(rdims)
            yield "out%d:dims-are-the-union-in-first-occurrence-order" % t, ok
            if not ok:
                continue
            ext = {}
            for i, d in enumerate(rdims):
                Lr = out.axes[i].values
                yield "out%d:%s-carries-its-owners-labels" % (t, d), _labels_equal(S, Lr, env["labs"][owner[d]][d])
                ext[d] = S.n(Lr)
            ov = out.values
            yield "out%d:cell-is-its-operands-cell-replicated-along-the-other-dimensions" % t, S.forall_nd([ext[d] for d in rdims], lambda *k, ov=ov, src=src, data=data: S.same(
                S.at(ov, *k), S.at(data, *[dict(zip(rdims, k))[d] for d in src])))
            yield "out%d:metadata-kept" % t, dict(out.attrs) == {"units": "K"}
        for t in (0, 1):
            x = env["arrs"][t]
            yield "operand-%d-untouched" % t, S.land(x.values is env["datas"][t], tuple(x.dims) == tuple(env["dims"][t]), all(u is v for u, v in zip(x.axes, env["axes0"][t])),
                                                    dict(x.attrs) == {"units": "K"})

    def canaries(self, S, case, env, result):
        yield "first-result-is-empty", S.shape(result[0].values)[0] == 0


class AxisSpellingNative(Contract):
    """BOUNDED STAND-IN ONLY (never counted as proved).  "Dimensions may be referred to by name or by position interchangeably":
    a position given as a NumPy integer (np.int64 / np.int32 -- what np.argsort, np.argmax, enumerate over an array hand out)
    is the same position as the Python int, for reductions, cumulative functions, diff, arg-extrema, take_axis, sort_axis,
    swapaxes, transpose, rollaxis, squeeze, newaxis positions and reindex_axis.  The symbolic engine's positions are its own
    wrappers: a Python-level `type(axis) is int` test is invisible to it.  [C10, C08, C09]"""
    target = "dimarray.core.bases:AbstractHasAxes._get_axis_info"
    props = ("C10", "C08", "C09")
    native_only = True

    OPS = {
        "mean": lambda a, p: a.mean(axis=p), "sum-skipna": lambda a, p: a.sum(axis=p, skipna=True), "median": lambda a, p: a.median(axis=p),
        "cumsum": lambda a, p: a.cumsum(axis=p), "diff": lambda a, p: a.diff(axis=p), "argmax": lambda a, p: a.argmax(axis=p),
        "take_axis": lambda a, p: a.take_axis([0], axis=p, indexing="position"), "sort_axis": lambda a, p: a.sort_axis(axis=p),
        "swapaxes": lambda a, p: a.swapaxes(p, 0), "transpose": lambda a, p: a.transpose(p, *[type(p)(e) for e in range(a.ndim) if e != int(p)]),
        "rollaxis": lambda a, p: a.rollaxis(p), "reindex_axis": lambda a, p: a.reindex_axis(a.axes[int(p)].values[::-1], axis=p),
        "dropna": lambda a, p: a.dropna(axis=p, minvalid=0), "compress_axis": lambda a, p: a.compress_axis([True] * a.shape[int(p)], axis=p),
        "take": lambda a, p: a.take(0, axis=p, indexing="position"), "interp_axis": lambda a, p: a.interp_axis(a.axes[int(p)].values, axis=p) if int(p) != 1 else a,
    }

    def cases(self, tier):
        for op in self.OPS:
            yield {"name": op, "op": op}

    def setup(self, S, case):
        arr, labels, data = make_dimarray(S, 3, kinds=("f", "O", "f"), attrs={"units": "K"})
        for L in labels:
            S.assume(S.n(L) >= 1, "non-empty")
            S.assume(S.n(L) <= 2, "small (three dimensions)")
        return {"arr": arr, "labels": labels, "data": data}

    def call(self, fn, env):
        return env["arr"]

    def post(self, S, case, env, result):
        import numpy as np
        a = env["arr"]
        f = self.OPS[case["op"]]

        def norm(x):
            if S.is_dimarray(x):
                v = np.asarray(x.values)
                return ("da", tuple(x.dims), [[repr(t) for t in list(ax.values)] for ax in x.axes], v.shape, [repr(t) for t in v.ravel().tolist()], sorted(dict(x.attrs).items()).__repr__())
            return ("py", repr(x))

        def run(p):
            try:
                return ("ok", norm(f(a, p)))
            except Exception as e:
                return ("raises", type(e).__name__)
        ok = True
        for p in range(3):
            ref = run(p)
            for t in (np.int64, np.int32, np.intp):
                ok = ok and run(t(p)) == ref
        yield "a-numpy-integer-position-is-that-position", ok
