"""C19 (JSON half): from_json(to_json(a)) restores the array -- bounded stand-in."""
from dverif.contract_base import Contract
from .common import assume_order

META = {"units": "K", "scale": 2, "offset": 0.5, "history": ["made", "saved"], "nested": {"a": [1, 2]}}


class JsonRoundTrip(Contract):
    """BOUNDED STAND-IN ONLY (never counted as proved).  DimArray.from_json(a.to_json()) has a's dims, labels (numbers and
    strings), values (NaN included) and JSON-representable metadata; to_jsondict / from_jsondict likewise; serialising does
    not change the array (its metadata included: entries JSON cannot represent -- at top level or nested in a list / dict -- are left out of the text, not removed
    from the array, and the dictionary handed out is not the array's own).  The functions go through ndarray.tolist(), json.dumps and json.loads -- Python lists and text,
    outside the symbolic engine's reach -- and are evaluated on the real code over arrays of rank 0-3 with float / integer /
    string labels of length 0-3 in any order, float (every NaN pattern of the family) and integer data, and metadata of
    str / int / float / list / nested-dict kind.  [C19, JSON half]"""
    target = "dimarray.core.dimarraycls:DimArray.to_json"
    props = ("C19",)
    native_only = True

    def cases(self, tier):
        for rank in (0, 1, 2, 3):
            for dk in ("f", "I"):
                for via in ("json", "jsondict"):
                    yield {"name": "r%d-data_%s-%s" % (rank, dk, via), "rank": rank, "dk": dk, "via": via}

    def setup(self, S, case):
        kinds = ("f", "O", "i")
        labels = []
        for d in range(case["rank"]):
            L = S.array1d("lab%d" % d, kinds[d])
            assume_order(S, L, "unique")
            labels.append(L)
        data = S.arraynd("data", case["dk"], tuple(S.n(L) for L in labels))
        return {"labels": labels, "data": data}

    def call(self, fn, env):
        import numpy as np
        S, case = env["S"], env["case"]
        labs = [np.asarray(L) for L in env["labels"]]
        # integer-kind labels are drawn as floats by the family: make them integers
        labs = [L.astype(int) if d == 2 else L for d, L in enumerate(labs)]
        data = np.array(env["data"])
        if data.dtype.kind == "f":
            data = data + 0.1                # decimal fractions: not representable in float32 (a narrowing round trip shows)
        elif data.dtype.kind == "i" and data.size:
            data = data.astype(np.int64) + 2 ** 40       # beyond int32
        a = S.da.DimArray(data, axes=[("x%d" % d, L) for d, L in enumerate(labs)])
        a.attrs.update(META)
        # metadata JSON cannot represent (a NumPy scalar, an array) is left out of the text -- and must stay on the array
        a.attrs["count"] = np.int64(7)
        a.attrs["weights"] = np.array([0.5, 0.25])
        # ... also when it sits INSIDE a list or a dict: the array must still be writable as JSON
        a.attrs["valid_range"] = [np.int64(1), np.int64(9)]
        a.attrs["table"] = {"w": np.array([1.0])}
        env["a"], env["labs"] = a, labs
        env["before"] = (a.values.copy(), [ax.values.copy() for ax in a.axes], dict(a.attrs))
        if case["via"] == "json":
            return S.da.DimArray.from_json(a.to_json())
        jd = a.to_jsondict()
        out = S.da.DimArray.from_jsondict(jd)
        # what was handed out is the caller's: changing it must not reach the array
        try:
            for k in list(jd):
                if isinstance(jd[k], dict):
                    jd[k]["injected"] = 1
        except Exception:
            pass
        return out

    def post(self, S, case, env, result):
        import numpy as np
        a = env["a"]

        def same(x, y):
            x, y = np.asarray(x), np.asarray(y)
            if x.shape != y.shape:
                return False
            if x.dtype.kind == "f" or y.dtype.kind == "f":
                x, y = x.astype(float), y.astype(float)
                return bool(np.all((x == y) | (np.isnan(x) & np.isnan(y))))
            return bool(np.all(x == y))
        yield "is-dimarray", S.is_dimarray(result)
        yield "dims-restored", tuple(result.dims) == tuple(a.dims)
        yield "labels-restored", len(result.axes) == len(a.axes) and all(same(r.values, o.values) and list(map(type, r.values.tolist())) == list(map(type, o.values.tolist()))
                                                                        for r, o in zip(result.axes, a.axes))
        yield "values-restored", same(result.values, a.values)
        yield "dtype-restored", result.values.dtype == a.values.dtype or a.values.size == 0
        yield "metadata-restored", dict(result.attrs) == META
        v0, l0, m0 = env["before"]
        yield "serialising-leaves-the-array-untouched", same(a.values, v0) and all(same(ax.values, l) for ax, l in zip(a.axes, l0)) and \
            sorted(dict(a.attrs)) == sorted(m0) and all(a.attrs[k] is m0[k] or (not isinstance(m0[k], np.ndarray) and a.attrs[k] == m0[k]) for k in m0)
