"""Which contracts decide which property."""
from . import indexing, bases, align, axes, metadata, reshape, dataset, missing, transform, join, wellformed, regroup, arith, interp, dsops, serial, filters

GLOBAL_ASSUMPTIONS = [
    "NumPy implements the contracts in dverif/symnp.py (validated by sampling against the installed NumPy, never proved)",
    "integers are mathematical (no int64 overflow); floats are reals plus one NaN; labels are never NaN",
    "string labels are elements of an arbitrary total order (only ==, <, sorting are used on them)",
    "Python semantics are CPython's own: the real source is executed by CPython with numpy replaced by the symbolic contract library and len/isinstance/type/range/print replaced by symbolic-aware versions",
    "the symbolic engine itself (dverif) is trusted; guarded by canaries, bounded-mode vacuity checks and native replay",
]

PROPERTIES = {
    "C01": {
        "contracts": [indexing.LocateOne, indexing.LocateMany, indexing.ExpandedIndexer, (bases.AxisLoc, r"^(?!slice-)"),
                      bases.GetIndices, bases.GetItem, bases.Accessors, bases.ItemForwarding, bases.IndexFormsNative],
        "level": "proof",
        "min_obligations": 2000,
    },
    "C03": {
        "contracts": [bases.SetItem, indexing.MaybeCastType, (bases.Accessors, r"write|put|setitem"), (bases.ItemForwarding, r"^set"),
                      (bases.GetIndices, r"^r[01]-"), bases.SetItemNative, bases.SetItemBroadcast, bases.TakeBroadcastNative],
        "level": "proof",
        "min_obligations": 1500,
    },
    "C06": {
        "contracts": [axes.AxisUnion, axes.AxisIntersection, axes.CommonAxis, align.GetAlignedAxes, align.Align,
                      (align.ReindexAxis, r"method_None"), dataset.AlignDataset, axes.UnionLabelPrecision, axes.CommonDirectionNative,
                      # Axis.union chooses between the sorted merge and plain concatenation from the CACHED monotonicity of its
                      # operands: the coherence of that cache (C05's AxisCache) is something the union contracts rest on
                      wellformed.AxisCache],
        "level": "other",
        "min_obligations": 2000,
        "explanation": "proved: direction / uniqueness / order of Axis.union and intersection, frame and sort of _get_aligned_axes (real bodies, exact identity), align's composition over the callee contracts (labels, data, NaN fill, dims, forwarding, inputs untouched), reindex_axis. bounded stand-in (exhaustive, lengths <= 3): the set-inclusion clauses of union / intersection / _common_axis, on which the 'set union / intersection' sentence of the property rests.",
    },
    "C11": {
        "contracts": [regroup.Flatten, regroup.Unflatten, regroup.FlattenUnflatten, regroup.Reshape, transform.ReduceTuple, regroup.MultiAxisLabels, regroup.UnflattenSeveralGroups],
        "level": "proof",
        "min_obligations": 2000,
    },
    "C12": {
        "contracts": [join.Stack, join.Concatenate, join.JoinAlignedProof, join.JoinAligned],
        "level": "other",
        "min_obligations": 1500,
        "explanation": "proved: stack / concatenate without align (labels, by-name placement of every cell, refusal of differing labels, no metadata, inputs untouched); bounded stand-in: align=True (composition with align, which is proved under C06).",
    },
    "C04": {
        "contracts": [arith.ScalarOperation, arith.UnaryOperation, arith.Operation,
                      # the label SET of the common axis (union, each label once) is decided by the functions align calls:
                      (axes.AxisUnion, r"-ff-|-if-"), axes.CommonAxis,
                      # Operation is proved AGAINST reindex_axis' contract (a callee): a change inside reindex_axis is noticed only by
                      # that contract's own obligations, so they are part of this check (the fill cases; integer axes with float labels)
                      (align.ReindexAxis, r"method_None"), (axes.UnionLabelPrecision, r"^(add|union)")],
        "level": "proof",
        "min_obligations": 3000,
    },
    "C18": {
        "contracts": [interp.Interp1D, interp.InterpND, interp.InterpAtNodes],
        "level": "other",
        "min_obligations": 300,
        "explanation": "proved (relative to numpy.interp, uninterpreted): the one-dimensional path -- one call numpy.interp(new, xs, ys, left, right) on the operand's (label, value) pairs sorted ascending, result on exactly the new axis, metadata, operand untouched; bounded stand-in: the N-d path (positions, floor / ceil, fraction times difference: nonlinear real arithmetic), interp_like and Dataset.interp_axis, compared fibre by fibre with numpy.interp on the real code.",
    },
    "C14": {
        "contracts": [dataset.DatasetTake, dataset.DatasetTakeAxis, dataset.DatasetScalarOp, dataset.DatasetReduce, dataset.DatasetJoin, dataset.DatasetReindexAxis, dataset.DatasetDatasetOp, dsops.DatasetOps],
        "level": "other",
        "min_obligations": 3500,
        "min_bounded_evaluations": 2000,
        "explanation": "proved: indexing (ix / isel / loc / sel / take, single index and lists), take_axis, sort_axis, arithmetic with a scalar in both operand orders and negation, on a Dataset a(x), b(x,y), c(y) -- full postconditions per variable, shared-axes invariant, metadata, operand untouched; reductions (one recorded call of the DimArray method per variable that has the axis; the real Dataset.__init__ / align bodies are executed), stack_ds and concatenate_ds of two Datasets with their own data; bounded stand-in (differential against the DimArray operations): reindex_axis, interp_axis, Dataset + Dataset (and every proved operation once more, natively).",
    },
    "C19": {
        "contracts": [serial.JsonRoundTrip],
        "level": "other",
        "min_obligations": 0,
        "min_bounded_evaluations": 1000,
        "explanation": "JSON half only, as a bounded stand-in (tolist / json.dumps / json.loads are Python lists and text, outside the symbolic engine's reach); the netCDF half is not decidable in this sandbox (netCDF4 is not installed: dimarray.io.nc cannot be imported) and NO claim is made about it.",
    },
    "C05": {
        "contracts": [wellformed.Construct, wellformed.Helpers, wellformed.AxesSetter, wellformed.Rename, wellformed.AxisCache, wellformed.NestedDict, wellformed.MultiAxisCache, wellformed.GroupedAxisLikeFresh, wellformed.HistoryLikeFresh] +
                     [(c, r"outer-nosort") if c.__name__ == "AlignWF" else c for c in wellformed.WF_CONTRACTS],
        "level": "proof",
        "min_obligations": 1000,
    },
    "C08": {
        "contracts": [transform.Reduce, transform.ReduceTuple, transform.Percentile, transform.ReduceNativeOnly, transform.ReduceInfNative, reshape.AxisSpellingNative],
        "level": "other",
        "min_obligations": 400,
        "explanation": "proved (relative to NumPy's own reductions, uninterpreted): which function is applied to which values along which axis, the remaining axes, metadata, scalar results, tuple axes as one flatten + reduction; bounded stand-in: median (both skipna settings) and ptp / all / any with skipna=True, whose implementation branches on the data and goes through numpy.ma.",
    },
    "C09": {
        "contracts": [transform.Cumulative, transform.ArgExtremum, transform.ArgExtremumWhole, transform.Diff, transform.DiffNative, reshape.AxisSpellingNative],
        "level": "proof",
        "min_obligations": 600,
    },
    "C10": {
        "contracts": [reshape.Transpose, reshape.SwapAxes, reshape.RollAxis, reshape.NewAxis, reshape.Squeeze, reshape.Repeat, reshape.Broadcast, reshape.BroadcastArrays, reshape.AxisSpellingNative],
        "level": "proof",
        "min_obligations": 1200,
    },
    "C13": {
        "contracts": [dataset.DatasetSetItem, dataset.DatasetDelItem, dataset.DatasetRelabel, dataset.DatasetDimsSetter, dataset.DatasetConstruct],
        "level": "proof",
        "min_obligations": 4000,
    },
    "C15": {
        "contracts": [metadata.CopyIndependence,
                      (bases.GetItem, r"^r[12]-.*-label$"), (bases.SetItem, r"-copy$"),
                      (align.TakeAxis, r"."), (align.SortAxis, r"."),
                      (reshape.Transpose, r"^r[23]-.*-names$"), (reshape.SwapAxes, r"-names$"), (reshape.NewAxis, r"."), (reshape.Squeeze, r"."), (reshape.Repeat, r"."),
                      (axes.AxisUnion, r"-ff-"), (axes.AxisIntersection, r"-ff-"),
                      align.GetAlignedAxes, (align.Align, r"-inner-")] +
                     [(c, r"^x\|x-add|^xy\|yx") if c.__name__ == "OperationFrame" else c for c in filters.FRAME_CONTRACTS],
        "level": "proof",
        "min_obligations": 2000,
    },
    "C17": {
        "contracts": [align.SortAxis, align.TakeAxis, missing.CompressAxis, missing.FillNa, missing.SetNa, missing.DropNa1D, missing.DropNaND, missing.DropNaMinvalid, missing.SortAxisKey, missing.SelectNative],
        "level": "proof",
        "min_obligations": 200,
    },
    "C16": {
        "contracts": [metadata.AttrRouting, metadata.AttrsProperty, metadata.AxisMetadataSurvivesIndexing,
                      (bases.GetItem, r"^r[12]-(full|scalar|array|mask|slice)(\+(full|array))?-label$"),
                      (align.TakeAxis, r"^r[12]-"), (align.SortAxis, r".")] +
                     [(c, r"^x\|x-add|^x\|y-add") if c.__name__ == "OperationMeta" else c for c in filters.META_CONTRACTS],
        "level": "other",
        "min_obligations": 300,
        "explanation": "attribute routing: complete case analysis over the classes of names the routing code can distinguish (public / underscore / class member / dimension name, present in attrs or not) on the real DimArray, Dataset and Axis classes, one concrete execution per class -- complete under the stated parametricity assumption (a name is only compared for equality with known strings and tested for a leading underscore). metadata propagation through indexing, take_axis, sort_axis, reindex_axis and axis slicing: proved clauses (metadata-copied, axis metadata kept) of the respective contracts.",
        "assumptions": ["parametricity of the routing code in the attribute name: it is only compared for equality with finitely many known strings (class members, exclude / include lists, dimension names, attrs keys) and tested for a leading underscore"],
    },
    "C07": {
        "contracts": [indexing.LocateMany, align.TakeAxis, align.ReindexAxis, align.ReindexLike, (indexing.MaybeCastType, r"^[if]<-"), align.ReindexFillPrecision],
        "level": "proof",
        "min_obligations": 500,
    },
    "C02": {
        "contracts": [indexing.LocateSlice, (indexing.LocateOne, r"^exact"), (bases.AxisLoc, r"^slice-"),
                      (bases.GetIndices, r"slice"), (bases.GetItem, r"slice"), (bases.IndexFormsNative, r"slice")],
        "level": "proof",
        "min_obligations": 100,
    },
}
