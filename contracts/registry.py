"""Which contracts decide which property."""
from . import indexing, bases

GLOBAL_ASSUMPTIONS = [
    "NumPy implements the contracts in dverif/symnp.py (validated by sampling against the installed NumPy, never proved)",
    "integers are mathematical (no int64 overflow); floats are reals plus one NaN; labels are never NaN",
    "string labels are elements of an arbitrary total order (only ==, <, sorting are used on them)",
    "Python semantics are CPython's own: the real source is executed by CPython with numpy replaced by the symbolic contract library and len/isinstance/type/range/print replaced by symbolic-aware versions",
    "the symbolic engine itself (dverif) is trusted; guarded by canaries, bounded-mode vacuity checks and native replay",
]

PROPERTIES = {
    "T": {"contracts": [bases.AxisLoc], "level": "proof"},
    "C02": {
        "contracts": [indexing.LocateSlice, (indexing.LocateOne, r"^exact"), (bases.AxisLoc, r"^slice-")],
        "level": "proof",
        "min_obligations": 100,
    },
}
