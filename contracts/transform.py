"""Contracts for dimarray/core/transform.py: reductions, cumulative functions, arg-extrema  [C08, C09]"""
from dverif.contract_base import Contract
from .bases import make_dimarray

HAS_NAN_VARIANT = ("sum", "prod", "mean", "var", "std", "min", "max")
REDUCTIONS = ("sum", "prod", "mean", "var", "std", "min", "max", "ptp", "all", "any")


def _setup(S, rank, data_kind="f"):
    arr, labels, data = make_dimarray(S, rank, data_kind=data_kind, attrs={"units": "K", "history": ["made"]})
    for L in labels:
        # C08 / C09 quantify over shapes with sizes >= 1 (NumPy itself refuses min / max / argmin of an empty slice)
        S.assume(S.n(L) >= 1, "every dimension has at least one label")
    return {"arr": arr, "labels": labels, "data": data, "attrs0": dict(arr.attrs)}


def _same_array(S, a, b, shape):
    return S.forall_nd(shape, lambda *k: S.same(S.at(a, *k), S.at(b, *k)))


def _untouched(S, env, rank):
    arr = env["arr"]
    return S.land(arr.values is env["data"], tuple(arr.dims) == tuple("x%d" % d for d in range(rank)), dict(arr.attrs) == env["attrs0"],
                  *[arr.axes[d].values is env["labels"][d] for d in range(rank)])


class Reduce(Contract):
    """a.<f>(axis=d, skipna=...) for f in sum, prod, mean, var, std, min, max, ptp, all, any: the values are NumPy's own f
    (np.<f>, or np.nan<f> under skipna=True) over .values along the position of d -- d given by name, by position or by position counted from the end --, the
    result is labelled with the remaining axes (the operand's own Axis objects) in their original order and carries the
    metadata; axis=None, and any axis of a 1-d array, give NumPy's scalar.  Stated relative to NumPy, as the property is: the
    model treats np.<f> as an uninterpreted function of (array content, axis, keywords).  [C08]"""
    target = "dimarray.core.transform:apply_along_axis"
    props = ("C08", "C16", "C15")
    inlined = ("_deal_with_axis", "_get_axis_info", "_get_func", "_NumpyDesc.__get__", "_constructor")

    def cases(self, tier):
        for func in REDUCTIONS:
            for skipna in (False, True):
                if skipna and func not in HAS_NAN_VARIANT:
                    continue          # ptp / all / any with skipna go through the masked-array fallback (bounded stand-in)
                for rank in (1, 2, 3):
                    if rank == 3 and tier == "quick" and func not in ("sum", "min"):
                        continue
                    # neg<d>: the dimension at position d counted FROM THE END (axis = d - rank, as NumPy and GroupBy spell it)
                    negs = ["neg%d" % d for d in range(rank)] if func in ("sum", "max", "mean") and rank > 1 else []
                    for axis in ["none"] + ["name%d" % d for d in range(rank)] + ["pos%d" % d for d in range(rank)] + negs:
                        yield {"name": "%s-%s-r%d-%s" % (func, "skipna" if skipna else "plain", rank, axis), "func": func, "skipna": skipna,
                               "rank": rank, "axis": axis}
        # integer and boolean data (the statement quantifies over float / int / bool arrays): which NumPy function is applied to
        # what does not depend on the data type
        for func, dk in (("sum", "I"), ("mean", "I"), ("min", "I"), ("sum", "b"), ("all", "b"), ("any", "b")):
            for rank in (1, 2):
                for axis in ["none", "name0"] + (["pos1"] if rank == 2 else []):
                    yield {"name": "%s-plain-r%d-%s-data_%s" % (func, rank, axis, dk), "func": func, "skipna": False, "rank": rank, "axis": axis, "dk": dk}

    def bound_lengths(self, case):
        return ["lab%d.n" % d for d in range(case["rank"])]

    def setup(self, S, case):
        return _setup(S, case["rank"], data_kind=case.get("dk", "f"))

    def _axis(self, case):
        a = case["axis"]
        if a == "none":
            return None, None
        d = int(a[-1])
        if a.startswith("neg"):
            return d, d - case["rank"]
        return d, ("x%d" % d if a.startswith("name") else d)

    def call(self, fn, env):
        case = env["case"]
        d, ax = self._axis(case)
        kw = {"skipna": True} if case["skipna"] else {}
        return getattr(env["arr"], case["func"])(axis=ax, **kw)

    def post(self, S, case, env, result):
        arr, labels, data, rank = env["arr"], env["labels"], env["data"], case["rank"]
        d, _ = self._axis(case)
        ref_name = ("nan" if case["skipna"] else "") + case["func"]
        ref = S.np_apply(ref_name, data, axis=d)
        if d is None or rank == 1:
            yield "scalar-equals-numpys", S.land(S.lnot(S.is_dimarray(result)), S.same(result, ref))
            yield "operand-untouched", _untouched(S, env, rank)
            return
        kept = [e for e in range(rank) if e != d]
        yield "is-dimarray", S.is_dimarray(result)
        yield "remaining-dims-in-original-order", tuple(result.dims) == tuple("x%d" % e for e in kept)
        yield "remaining-axes-travel", all(result.axes[i] is arr.axes[e] for i, e in enumerate(kept))
        yield "one-axis-per-array-dimension", len(S.shape(result.values)) == len(kept)
        yield "values-equal-numpys-along-that-axis", _same_array(S, result.values, ref, [S.n(labels[e]) for e in kept])
        yield "metadata-kept", S.land(dict(result.attrs) == env["attrs0"], result.attrs is not arr.attrs)
        yield "operand-untouched", _untouched(S, env, rank)

    def canaries(self, S, case, env, result):
        if S.is_dimarray(result):
            yield "metadata-dropped", len(result.attrs) == 0
        else:
            yield "scalar-is-the-first-cell", S.same(result, S.at(env["data"], *([0] * case["rank"])))


class Cumulative(Contract):
    """cumsum / cumprod(axis=-1, skipna): NumPy's cumulative result (np.cumsum / np.nancumsum ...) along the axis -- the last
    one by default -- with every axis unchanged (equal labels) and the metadata kept.  [C09]"""
    target = "dimarray.core.transform:cumsum"
    props = ("C09",)

    def cases(self, tier):
        for func in ("cumsum", "cumprod"):
            for skipna in (False, True):
                for rank in (1, 2, 3) if tier != "quick" else (1, 2):
                    for axis in ["default"] + ["name%d" % d for d in range(rank)] + ["pos%d" % d for d in range(rank)] + ["neg1"]:
                        yield {"name": "%s-%s-r%d-%s" % (func, "skipna" if skipna else "plain", rank, axis), "func": func, "skipna": skipna, "rank": rank, "axis": axis}

    def bound_lengths(self, case):
        return ["lab%d.n" % d for d in range(case["rank"])]

    def setup(self, S, case):
        return _setup(S, case["rank"])

    def call(self, fn, env):
        case = env["case"]
        kw = {"skipna": True} if case["skipna"] else {}
        a = case["axis"]
        if a == "default":
            return getattr(env["arr"], case["func"])(**kw)
        ax = -1 if a == "neg1" else ("x%s" % a[-1] if a.startswith("name") else int(a[-1]))
        return getattr(env["arr"], case["func"])(axis=ax, **kw)

    def post(self, S, case, env, result):
        arr, labels, data, rank = env["arr"], env["labels"], env["data"], case["rank"]
        a = case["axis"]
        d = rank - 1 if a in ("default", "neg1") else int(a[-1])
        ref = S.np_apply(("nan" if case["skipna"] else "") + case["func"], data, axis=d)
        yield "is-dimarray-with-all-dims", S.land(S.is_dimarray(result), tuple(result.dims) == tuple("x%d" % e for e in range(rank)))
        for e in range(rank):
            Lr = result.axes[e].values
            yield "dim%d:labels-unchanged" % e, S.land(S.n(Lr) == S.n(labels[e]), S.forall(0, S.n(labels[e]), lambda k, Lr=Lr, e=e: S.implies(
                k < S.n(Lr), lambda: S.at(Lr, k) == S.at(labels[e], k))))
        yield "values-equal-numpys-along-that-axis", _same_array(S, result.values, ref, [S.n(L) for L in labels])
        yield "metadata-kept", dict(result.attrs) == env["attrs0"]
        yield "operand-untouched", _untouched(S, env, rank)

    def canaries(self, S, case, env, result):
        yield "metadata-dropped", len(result.attrs) == 0


class ArgExtremum(Contract):
    """argmin / argmax(axis=d): the LABELS of the extremum along d -- result[k] == labels_d[ np.argmin(values, axis)[k] ] --
    labelled with the remaining axes; a 1-d array gives the label itself.  (That indexing with the returned label yields the
    extremum is then NumPy's argmin law plus C01.)  The whole-array form (axis=None, through unravel_index) is not covered.  [C09]"""
    target = "dimarray.core.transform:argmin"
    props = ("C09",)

    def cases(self, tier):
        for func in ("argmin", "argmax"):
            for rank in (1, 2, 3) if tier != "quick" else (1, 2):
                for d in range(rank):
                    for by in ("name", "position"):
                        yield {"name": "%s-r%d-axis%d-%s" % (func, rank, d, by), "func": func, "rank": rank, "d": d, "by": by}

    def bound_lengths(self, case):
        return ["lab%d.n" % d for d in range(case["rank"])]

    def setup(self, S, case):
        env = _setup(S, case["rank"])
        S.assume(S.n(env["labels"][case["d"]]) > 0, "there is something to take the extremum of")
        return env

    def call(self, fn, env):
        c = env["case"]
        return getattr(env["arr"], c["func"])(axis="x%d" % c["d"] if c["by"] == "name" else c["d"])

    def raises(self, S, case, env):
        return {}

    def post(self, S, case, env, result):
        arr, labels, data, rank, d = env["arr"], env["labels"], env["data"], case["rank"], case["d"]
        pos = S.np_apply(case["func"], data, axis=d)
        L = labels[d]
        if rank == 1:
            yield "label-of-the-extremum", S.land(S.lnot(S.is_dimarray(result)), S.implies(S.land(0 <= pos, pos < S.n(L)), lambda: result == S.at(L, pos)))
            return
        kept = [e for e in range(rank) if e != d]
        yield "remaining-dims-in-original-order", S.land(S.is_dimarray(result), tuple(result.dims) == tuple("x%d" % e for e in kept))
        shape = [S.n(labels[e]) for e in kept]
        yield "labels-of-the-extrema", S.forall_nd(shape, lambda *k: S.implies(
            S.land(0 <= S.at(pos, *k), S.at(pos, *k) < S.n(L)), lambda: S.at(result.values, *k) == S.at(L, S.at(pos, *k))))
        yield "metadata-kept", dict(result.attrs) == env["attrs0"]
        yield "operand-untouched", _untouched(S, env, rank)

    def canaries(self, S, case, env, result):
        if case["rank"] == 1:
            yield "always-the-first-label", result == S.at(env["labels"][case["d"]], 0)
        else:
            yield "metadata-dropped", len(result.attrs) == 0


class Diff(Contract):
    """diff(axis, scheme, keepaxis, n): the values are NumPy's n-th difference along the axis (np.diff applied n times); the
    differenced axis is shortened by n and relabelled -- backward drops the first n labels, forward the last n, centered
    takes successive midpoints -- or, with keepaxis, keeps its labels and is padded with one NaN slice per step on the
    corresponding side; other axes and metadata kept.  ValueError for centered + keepaxis and for an unknown scheme.  [C09]"""
    target = "dimarray.core.transform:diff"
    props = ("C09",)
    inlined = ("_deal_with_axis", "_append_nans", "Axis.__getitem__", "Axis.copy")

    def cases(self, tier):
        for rank in (1, 2):
            for d in range(rank):
                for scheme in ("backward", "forward", "centered", "nonsense"):
                    for keep in (False, True):
                        for n in (1, 2, 3):
                            if n >= 2 and (keep or scheme == "nonsense"):
                                continue          # n >= 2 with keepaxis: bounded stand-in (DiffNative)
                            if n == 3 and rank == 2 and tier == "quick":
                                continue
                            if scheme == "centered" and rank == 2 and d == 1:
                                continue          # midpoints of string labels are not defined
                            for by in ("name", "position", "default") if d == rank - 1 else ("name", "position"):
                                yield {"name": "r%d-axis%d-%s-%s-n%d-%s" % (rank, d, scheme, "keepaxis" if keep else "shorten", n, by),
                                       "rank": rank, "d": d, "scheme": scheme, "keep": keep, "n": n, "by": by}

    def bound_lengths(self, case):
        return ["lab%d.n" % d for d in range(case["rank"])]

    def setup(self, S, case):
        return _setup(S, case["rank"])

    def call(self, fn, env):
        c = env["case"]
        kw = {"scheme": c["scheme"], "keepaxis": c["keep"], "n": c["n"]}
        if c["by"] != "default":
            kw["axis"] = "x%d" % c["d"] if c["by"] == "name" else c["d"]
        return env["arr"].diff(**kw)

    def raises(self, S, case, env):
        bad = case["scheme"] == "nonsense" or (case["scheme"] == "centered" and case["keep"])
        return {ValueError: bad}

    def post(self, S, case, env, result):
        arr, labels, data, rank, d, n = env["arr"], env["labels"], env["data"], case["rank"], case["d"], case["n"]
        L = labels[d]
        nd = S.n(L)
        ref = data
        for _ in range(n):
            ref = S.np_apply("diff", ref, axis=d)
        m = S.ite(nd >= n, nd - n, 0)
        yield "dims-kept", S.land(S.is_dimarray(result), tuple(result.dims) == tuple("x%d" % e for e in range(rank)))
        Lr, rv = result.axes[d].values, result.values
        for e in range(rank):
            if e != d:
                Le = result.axes[e].values
                yield "dim%d:labels-unchanged" % e, S.land(S.n(Le) == S.n(labels[e]), S.forall(0, S.n(labels[e]), lambda k, Le=Le, e=e: S.implies(
                    k < S.n(Le), lambda: S.at(Le, k) == S.at(labels[e], k))))
        def at_d(arr_, ks, k):
            idx = list(ks); idx[d] = k
            return S.at(arr_, *idx)
        if not case["keep"]:
            yield "axis-shortened-by-n", S.n(Lr) == m
            if case["scheme"] == "backward":
                yield "backward-drops-the-first-n-labels", S.forall(0, m, lambda k: S.implies(k < S.n(Lr), lambda: S.at(Lr, k) == S.at(L, k + n)))
            elif case["scheme"] == "forward":
                yield "forward-drops-the-last-n-labels", S.forall(0, m, lambda k: S.implies(k < S.n(Lr), lambda: S.at(Lr, k) == S.at(L, k)))
            else:
                # successive midpoints, n times over: 2^n * new[k] = sum_j C(n, j) * old[k + j]
                binom = {1: (1, 1), 2: (1, 2, 1), 3: (1, 3, 3, 1)}[n]
                yield "centered-takes-successive-midpoints", S.forall(0, m, lambda k: S.implies(k < S.n(Lr), lambda: (2 ** n) * S.at(Lr, k) == sum(
                    c * S.at(L, k + j) for j, c in enumerate(binom))))
            shape = [S.n(labels[e]) if e != d else m for e in range(rank)]
            yield "values-equal-numpys-nth-difference", S.forall_nd(shape, lambda *ks: S.same(S.at(rv, *ks), S.at(ref, *ks)))
        else:
            yield "axis-kept", S.land(S.n(Lr) == nd, S.forall(0, nd, lambda k: S.implies(k < S.n(Lr), lambda: S.at(Lr, k) == S.at(L, k))))
            shape = [S.n(labels[e]) for e in range(rank)]
            if case["scheme"] == "backward":
                yield "nan-padded-in-front", S.forall_nd(shape, lambda *ks: S.land(
                    S.implies(ks[d] < 1, lambda: S.isnan(S.at(rv, *ks))),
                    S.implies(ks[d] >= 1, lambda: S.same(S.at(rv, *ks), at_d(ref, ks, ks[d] - 1)))))
            else:
                yield "nan-padded-at-the-end", S.forall_nd(shape, lambda *ks: S.land(
                    S.implies(ks[d] >= nd - 1, lambda: S.isnan(S.at(rv, *ks))),
                    S.implies(ks[d] < nd - 1, lambda: S.same(S.at(rv, *ks), at_d(ref, ks, ks[d])))))
        yield "metadata-kept", dict(result.attrs) == env["attrs0"]
        yield "operand-untouched", _untouched(S, env, rank)

    def canaries(self, S, case, env, result):
        yield "axis-length-unchanged-and-no-nan", S.land(S.n(result.axes[case["d"]].values) == S.n(env["labels"][case["d"]]),
                                                        S.lnot(S.isnan(S.at(result.values, *([0] * case["rank"])))))


class ReduceNativeOnly(Contract):
    """BOUNDED STAND-IN ONLY (never counted as proved).  The reductions whose implementation branches on the data and uses
    numpy.ma -- median (both skipna settings: _median_with_nan / np.nanmedian) and ptp / all / any with skipna=True
    (_MaskedArrayFunc) -- are outside the symbolic engine's reach.  Every clause is evaluated on the real code over an
    enumerated family: arrays of rank 1-2 with extents 1-3 and NaN patterns none / one cell / a whole slice / everything.
    Reference (from the statement): skipna=False makes a slice containing a NaN give NaN (median included) and is NumPy's f
    otherwise; skipna=True ignores the NaNs of each slice: where nothing is left the value is that of the reduction of no
    value at all -- True for all, False for any -- and NaN for median and ptp, which have none.  [C08]"""
    target = "dimarray.core.transform:apply_along_axis"
    props = ("C08",)
    native_only = True

    def cases(self, tier):
        for func, skipna in (("median", False), ("median", True), ("ptp", True), ("all", True), ("any", True)):
            for rank in (1, 2):
                for axis in ["none"] + ["name%d" % d for d in range(rank)] + ["pos%d" % d for d in range(rank)]:
                    yield {"name": "%s-%s-r%d-%s" % (func, "skipna" if skipna else "plain", rank, axis), "func": func, "skipna": skipna, "rank": rank, "axis": axis}

    def setup(self, S, case):
        return _setup(S, case["rank"])

    def call(self, fn, env):
        case = env["case"]
        a = case["axis"]
        ax = None if a == "none" else ("x%s" % a[-1] if a.startswith("name") else int(a[-1]))
        return getattr(env["arr"], case["func"])(axis=ax, skipna=case["skipna"])

    def _reference(self, case, data, d):
        import numpy as np
        import warnings
        f = case["func"]
        def one(v):
            v = np.asarray(v, dtype=float)
            nan = np.isnan(v)
            if not case["skipna"]:
                return np.nan if nan.any() else float(np.median(v))
            w = v[~nan]                     # NaNs are ignored as missing values
            if w.size == 0 and f in ("median", "ptp"):
                return np.nan               # nothing left and no identity: NaN
            return {"median": lambda: float(np.median(w)), "ptp": lambda: float(w.max() - w.min()),
                    "all": lambda: bool(np.all(w)), "any": lambda: bool(np.any(w))}[f]()      # all([]) is True, any([]) is False
        with warnings.catch_warnings():
            warnings.simplefilter("ignore")
            if d is None:
                return one(np.asarray(data).ravel())
            return np.apply_along_axis(one, d, np.asarray(data))

    def post(self, S, case, env, result):
        import numpy as np
        data, rank = env["data"], case["rank"]
        a = case["axis"]
        d = None if a == "none" else int(a[-1])
        ref = self._reference(case, data, d)
        got = np.asarray(result.values if S.is_dimarray(result) else result)
        ref = np.asarray(ref)
        def same(x, y):
            x, y = np.asarray(x, dtype=float), np.asarray(y, dtype=float)
            return x.shape == y.shape and bool(np.all((x == y) | (np.isnan(x) & np.isnan(y))))
        yield "values-equal-the-reference", same(got, ref)
        if d is not None and rank > 1:
            kept = [e for e in range(rank) if e != d]
            yield "labelled-with-the-remaining-axes", S.is_dimarray(result) and tuple(result.dims) == tuple("x%d" % e for e in kept) and all(
                result.axes[i] is env["arr"].axes[e] for i, e in enumerate(kept))
            yield "metadata-kept", S.is_dimarray(result) and dict(result.attrs) == env["attrs0"]
        else:
            yield "scalar-when-no-dimension-remains", (not S.is_dimarray(result)) and np.ndim(result) == 0 and not isinstance(result, np.ndarray)
        yield "operand-untouched", _untouched(S, env, rank)


class ReduceInfNative(ReduceNativeOnly):
    """BOUNDED STAND-IN ONLY (never counted as proved).  The same reductions (median; ptp / all / any with skipna=True) on data
    that holds an INFINITE value next to the NaNs: skipna ignores NaNs as missing values -- infinities are values (a range
    with an infinite end is infinite, any([inf, 0, nan]) is True).  One cell of the family's data is replaced by +inf or
    -inf.  [C08]"""
    target = "dimarray.core.transform:apply_along_axis"
    props = ("C08",)
    native_only = True

    def cases(self, tier):
        for func, skipna in (("median", True), ("ptp", True), ("all", True), ("any", True), ("median", False)):
            for rank in (1, 2):
                for axis in ["none"] + ["name%d" % d for d in range(rank)]:
                    for sign in ("+inf", "-inf"):
                        yield {"name": "%s-%s-r%d-%s-%s" % (func, "skipna" if skipna else "plain", rank, axis, sign), "func": func, "skipna": skipna, "rank": rank,
                               "axis": axis, "sign": sign}

    def setup(self, S, case):
        env = _setup(S, case["rank"])
        env["p"] = S.int("p")
        return env

    def call(self, fn, env):
        import numpy as np
        S, case = env["S"], env["case"]
        data = np.array(env["data"], dtype=float)
        if data.size:
            data.reshape(-1)[int(env["p"]) % data.size] = np.inf if case["sign"] == "+inf" else -np.inf
        arr = S.da.DimArray(data.copy(), axes=[("x%d" % d, np.asarray(L).copy()) for d, L in enumerate(env["labels"])])
        arr.attrs.update(env["attrs0"])
        env["arr2"], env["data2"] = arr, data
        a = case["axis"]
        ax = None if a == "none" else "x%s" % a[-1]
        return getattr(arr, case["func"])(axis=ax, skipna=case["skipna"])

    def post(self, S, case, env, result):
        import numpy as np
        data, rank = env["data2"], case["rank"]
        a = case["axis"]
        d = None if a == "none" else int(a[-1])
        ref = np.asarray(self._reference(case, data, d))
        got = np.asarray(result.values if S.is_dimarray(result) else result)

        def same(x, y):
            x, y = np.asarray(x, dtype=float), np.asarray(y, dtype=float)
            return x.shape == y.shape and bool(np.all((x == y) | (np.isnan(x) & np.isnan(y))))
        yield "values-equal-the-reference", same(got, ref)
        yield "operand-untouched", same(env["arr2"].values, data)


class DiffNative(Contract):
    """BOUNDED STAND-IN ONLY (never counted as proved).  diff for every order n in 1..3 with BOTH keepaxis settings -- the
    symbolic contract Diff covers keepaxis only for n = 1, because n >= 2 re-differences a NaN-padded array and NumPy's
    difference is an uninterpreted function there.  Reference, from the statement: values are np.diff(values, n, axis); the
    axis loses its first n (backward) / last n (forward) labels or becomes the n-fold successive midpoints (centered); with
    keepaxis the axis is the original one and n NaN slices pad the front (backward) / the end (forward).  Evaluated on the
    real code over arrays of rank 1-2, extents 1-4, unsorted numeric labels.  [C09]"""
    target = "dimarray.core.transform:diff"
    props = ("C09",)
    native_only = True

    def cases(self, tier):
        for rank in (1, 2):
            for d in range(rank):
                for scheme in ("backward", "forward", "centered"):
                    for keep in (False, True):
                        if scheme == "centered" and keep:
                            continue
                        for n in (1, 2, 3):
                            yield {"name": "r%d-axis%d-%s-%s-n%d" % (rank, d, scheme, "keepaxis" if keep else "shorten", n),
                                   "rank": rank, "d": d, "scheme": scheme, "keep": keep, "n": n}
        # INTEGER data ("for all numeric arrays"): the NaN padding of keepaxis needs a float result
        for rank in (1, 2):
            for scheme in ("backward", "forward"):
                for keep in (False, True):
                    yield {"name": "r%d-axis0-%s-%s-n1-data_I" % (rank, scheme, "keepaxis" if keep else "shorten"), "rank": rank, "d": 0, "scheme": scheme,
                           "keep": keep, "n": 1, "dk": "I"}

    def setup(self, S, case):
        arr, labels, data = make_dimarray(S, case["rank"], kinds=("f", "f"), attrs={"units": "K"}, data_kind=case.get("dk", "f"))
        for L in labels:
            S.assume(S.n(L) >= 1, "every dimension has at least one label")
        return {"arr": arr, "labels": labels, "data": data, "attrs0": dict(arr.attrs)}

    def call(self, fn, env):
        c = env["case"]
        return env["arr"].diff(axis="x%d" % c["d"], scheme=c["scheme"], keepaxis=c["keep"], n=c["n"])

    def post(self, S, case, env, result):
        import numpy as np
        d, n, rank = case["d"], case["n"], case["rank"]
        data = np.asarray(env["data"], dtype=float)
        L = np.asarray(env["labels"][d], dtype=float)
        ref = np.diff(data, n=n, axis=d)
        if case["keep"]:
            pad_shape = list(data.shape); pad_shape[d] = min(n, data.shape[d])
            pad = np.full(pad_shape, np.nan)
            ref = np.concatenate([pad, ref] if case["scheme"] == "backward" else [ref, pad], axis=d)
            labs = L
        elif case["scheme"] == "backward":
            labs = L[n:]
        elif case["scheme"] == "forward":
            labs = L[:len(L) - n] if len(L) >= n else L[:0]
        else:
            labs = L
            for _ in range(n):
                labs = 0.5 * (labs[:-1] + labs[1:])
        def same(x, y):
            x, y = np.asarray(x, dtype=float), np.asarray(y, dtype=float)
            return x.shape == y.shape and bool(np.all((x == y) | (np.isnan(x) & np.isnan(y))))
        yield "is-dimarray-with-all-dims", S.is_dimarray(result) and tuple(result.dims) == tuple("x%d" % e for e in range(rank))
        yield "values-are-numpys-nth-difference-padded-as-stated", same(result.values, ref)
        yield "differenced-axis-relabelled-per-scheme", same(result.axes[d].values, labs)
        for e in range(rank):
            if e != d:
                yield "dim%d:labels-unchanged" % e, same(result.axes[e].values, env["labels"][e])
        yield "metadata-kept", dict(result.attrs) == env["attrs0"]
        yield "operand-untouched", _untouched(S, env, rank)


class ReduceTuple(Contract):
    """a.<f>(axis=(d1, d2, ...)): reducing over a tuple of dimensions IS reducing over the flattened group -- the function makes
    exactly one call flatten((d1, d2, ...), insert=0) on the operand (recorded by the harness; what that call returns is
    Flatten's contract) and returns NumPy's f along axis 0 of that array's values, labelled with that array's remaining
    axes (the operand's own, in original order) and the metadata; a scalar when every dimension is listed.  [C08, C11]"""
    target = "dimarray.core.transform:apply_along_axis"
    props = ("C08", "C11")
    inlined = ("_deal_with_axis", "flatten (own contract: Flatten; its call and result are recorded)", "_get_func", "_constructor")

    def cases(self, tier):
        import itertools
        for func, skipna in (("sum", False), ("sum", True), ("mean", False), ("min", True), ("std", False)):
            for rank in (2, 3):
                for k in range(2, rank + 1):
                    for D in itertools.permutations(range(rank), k):
                        if tier == "quick" and func not in ("sum", "min") and list(D) != sorted(D):
                            continue
                        for form in ("tuple", "list") if (func, skipna) == ("sum", False) else ("tuple",):
                            yield {"name": "%s-%s-r%d-dims%s-%s" % (func, "skipna" if skipna else "plain", rank, "".join(map(str, D)), form),
                                   "func": func, "skipna": skipna, "rank": rank, "D": list(D), "form": form}

    def bound_lengths(self, case):
        return ["lab%d.n" % d for d in range(case["rank"])]

    def setup(self, S, case):
        env = _setup(S, case["rank"])
        env["flat_calls"] = []
        return env

    def call(self, fn, env):
        case, arr = env["case"], env["arr"]
        cls = type(arr)
        orig = cls.flatten

        def recording_flatten(self_, *a, **k):
            r = orig(self_, *a, **k)
            if self_ is arr:
                env["flat_calls"].append((a, k, r))
            return r
        cls.flatten = recording_flatten
        try:
            names = ["x%d" % d for d in case["D"]]
            ax = tuple(names) if case["form"] == "tuple" else list(names)
            kw = {"skipna": True} if case["skipna"] else {}
            return getattr(arr, case["func"])(axis=ax, **kw)
        finally:
            cls.flatten = orig

    def post(self, S, case, env, result):
        rank, D = case["rank"], case["D"]
        calls = env["flat_calls"]
        ok = len(calls) == 1 and len(calls[0][0]) == 1 and tuple(calls[0][0][0]) == tuple("x%d" % d for d in D) and calls[0][1] == {"insert": 0}
        yield "one-call-flatten-of-exactly-the-listed-dimensions-inserted-first", ok
        if not ok:
            return
        F = calls[0][2]
        ref = S.np_apply(("nan" if case["skipna"] else "") + case["func"], F.values, axis=0)
        others = [d for d in range(rank) if d not in D]
        if not others:
            yield "scalar-equals-numpys-over-the-flattened-group", S.land(S.lnot(S.is_dimarray(result)), S.same(result, ref))
        else:
            yield "is-dimarray", S.is_dimarray(result)
            yield "remaining-dims-in-original-order", tuple(result.dims) == tuple("x%d" % d for d in others)
            yield "remaining-axes-are-the-operands-own", all(result.axes[i] is env["arr"].axes[d] for i, d in enumerate(others))
            yield "values-equal-numpys-along-the-flattened-group", _same_array(S, result.values, ref, [S.n(env["labels"][d]) for d in others])
            yield "metadata-kept", dict(result.attrs) == env["attrs0"]
        yield "operand-untouched", _untouched(S, env, rank)

    def canaries(self, S, case, env, result):
        if S.is_dimarray(result):
            yield "metadata-dropped", len(result.attrs) == 0
        else:
            yield "scalar-is-the-first-cell", S.same(result, S.at(env["data"], *([0] * case["rank"])))



class Percentile(Contract):
    """dimarray.lib.percentile(a, pct, axis=d): NumPy's percentile of .values along the position of d (d by name or by
    position) -- a scalar for a 1-d array and a single pct; for a single pct otherwise an array labelled with the remaining
    axes in their original order; for a LIST of percentiles a new first dimension named '<d>_percentile' (or `newaxis`),
    labelled by the percentiles, whose slice i is the result for pct[i] -- carrying the array's metadata; operand untouched.
    Relative to NumPy: np.percentile is an uninterpreted function of (content, axis, q).  [C08]"""
    target = "dimarray.lib.stats:percentile"
    props = ("C08",)
    inlined = ("_get_axis_info", "stack (own contract: Stack, C12) for a list of percentiles")

    def cases(self, tier):
        for rank in (1, 2, 3):
            for d in range(rank):
                if rank == 3 and tier == "quick" and d != 1:
                    continue
                for by in ("name", "position"):
                    for q in ("scalar", "list", "list-newaxis"):
                        if q == "list-newaxis" and by == "position":
                            continue
                        yield {"name": "r%d-axis%d-%s-q_%s" % (rank, d, by, q), "rank": rank, "d": d, "by": by, "q": q}

    def bound_lengths(self, case):
        return ["lab%d.n" % d for d in range(case["rank"])]

    def setup(self, S, case):
        return _setup(S, case["rank"])

    QS = [10.0, 50.0, 90.0]

    def call(self, fn, env):
        import importlib
        c = env["case"]
        mod = importlib.import_module("dimarray.lib.stats")
        axis = "x%d" % c["d"] if c["by"] == "name" else c["d"]
        if c["q"] == "scalar":
            return mod.percentile(env["arr"], 25.0, axis=axis)
        if c["q"] == "list":
            return mod.percentile(env["arr"], list(self.QS), axis=axis)
        return mod.percentile(env["arr"], list(self.QS), axis=axis, newaxis="pct")

    def post(self, S, case, env, result):
        arr, labels, data, rank, d = env["arr"], env["labels"], env["data"], case["rank"], case["d"]
        kept = [e for e in range(rank) if e != d]
        shape = [S.n(labels[e]) for e in kept]
        if case["q"] == "scalar":
            ref = S.np_apply("percentile", data, axis=d, q=25.0)
            if rank == 1:
                yield "scalar-equals-numpys", S.land(S.lnot(S.is_dimarray(result)), S.same(result, ref))
            else:
                ok = S.is_dimarray(result) and tuple(result.dims) == tuple("x%d" % e for e in kept)
                yield "remaining-dims-in-original-order", ok
                if not ok:
                    return
                yield "remaining-axes-carry-their-labels", S.land(*[S.land(S.n(result.axes[i].values) == S.n(labels[e]), S.forall(0, S.n(labels[e]), lambda k, i=i, e=e: S.implies(
                    k < S.n(result.axes[i].values), lambda: S.at(result.axes[i].values, k) == S.at(labels[e], k)))) for i, e in enumerate(kept)])
                yield "values-equal-numpys-along-that-axis", _same_array(S, result.values, ref, shape)
                yield "metadata-kept", dict(result.attrs) == env["attrs0"]
        else:
            ref = S.np_apply("percentile", data, axis=d, q=list(self.QS))
            name = "pct" if case["q"] == "list-newaxis" else "x%d_percentile" % d
            ok = S.is_dimarray(result) and tuple(result.dims) == (name,) + tuple("x%d" % e for e in kept)
            yield "new-first-dimension-named-after-the-axis-then-the-remaining-dims", ok
            if not ok:
                return
            P = result.axes[0].values
            yield "new-axis-labelled-by-the-percentiles", S.land(S.n(P) == len(self.QS), *[S.at(P, i) == q for i, q in enumerate(self.QS)])
            yield "remaining-axes-carry-their-labels", S.land(True, *[S.land(S.n(result.axes[i + 1].values) == S.n(labels[e]), S.forall(0, S.n(labels[e]), lambda k, i=i, e=e: S.implies(
                k < S.n(result.axes[i + 1].values), lambda: S.at(result.axes[i + 1].values, k) == S.at(labels[e], k)))) for i, e in enumerate(kept)])
            for i in range(len(self.QS)):
                yield "slice-%d-is-numpys-result-for-that-percentile" % i, S.forall_nd(shape, lambda *k, i=i: S.same(S.at(result.values, i, *k), S.at(ref, i, *k)))
            yield "metadata-kept", dict(result.attrs) == env["attrs0"]
        yield "operand-untouched", _untouched(S, env, rank)

    def canaries(self, S, case, env, result):
        if S.is_dimarray(result):
            yield "result-is-empty", S.shape(result.values)[-1] == 0
        else:
            yield "scalar-is-the-first-cell", S.same(result, S.at(env["data"], 0))



class ArgExtremumWhole(Contract):
    """a.argmin() / a.argmax() over the WHOLE array (axis=None): the label -- for N-d arrays the tuple of labels, one per
    dimension in order -- at the coordinate whose row-major position is NumPy's np.argmin(values) / np.argmax(values); that
    position lies among the array's cells (library range law), so every label exists.  Indexing the array with the returned
    labels then yields NumPy's extremum (C01).  [C09]"""
    target = "dimarray.core.transform:argmin"
    props = ("C09",)
    inlined = ("apply_along_axis", "np.unravel_index (row-major model, C11)")

    def cases(self, tier):
        for func in ("argmin", "argmax"):
            for rank in (1, 2, 3):
                yield {"name": "%s-r%d-whole" % (func, rank), "func": func, "rank": rank}

    def bound_lengths(self, case):
        return ["lab%d.n" % d for d in range(case["rank"])]

    def setup(self, S, case):
        return _setup(S, case["rank"])

    def call(self, fn, env):
        return getattr(env["arr"], env["case"]["func"])()

    def post(self, S, case, env, result):
        labels, data, rank = env["labels"], env["data"], case["rank"]
        flat = S.np_apply(case["func"], data, axis=None)
        sizes = [S.n(L) for L in labels]
        u = S.unrowmajor(flat, sizes)
        yield "position-among-the-cells", S.land(*[S.land(0 <= u[d], u[d] < sizes[d]) for d in range(rank)])
        if True:
            # (also for a 1-d array: a 1-tuple, which indexes the array just as well)
            ok = isinstance(result, tuple) and len(result) == rank
            yield "a-tuple-with-one-label-per-dimension", ok
            if not ok:
                return
            for d in range(rank):
                yield "x%d:the-label-at-the-coordinate-of-numpys-flat-position" % d, S.implies(S.land(0 <= u[d], u[d] < sizes[d]), lambda d=d: result[d] == S.at(labels[d], u[d]))
        yield "operand-untouched", _untouched(S, env, rank)

    def canaries(self, S, case, env, result):
        r0 = result[0] if isinstance(result, tuple) else result
        yield "always-the-first-label", r0 == S.at(env["labels"][0], 0)
