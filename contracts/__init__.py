"""Sidecar contracts for perrette/dimarray (nothing here is imported by the repository)."""
