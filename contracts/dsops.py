"""C14: Dataset-wide operations equal the per-variable DimArray operations -- bounded differential stand-in."""
from dverif.contract_base import Contract
from .common import assume_order

DS_ATTRS = {"title": "demo", "source": ["x"]}
VAR_ATTRS = {"units": "K"}

OPS = ("take-label", "take-position", "sel", "isel", "ix", "loc", "mean", "sum", "std", "var", "median", "take_axis", "sort_axis",
       "reindex_axis", "reindex_axis-method-right", "interp_axis", "add-dataset", "sub-dataset-other-labels", "mul-scalar", "rsub-scalar", "stack_ds", "concatenate_ds")
CARRIES_DS_ATTRS = ("take-label", "take-position", "sel", "isel", "ix", "loc", "take_axis", "sort_axis", "reindex_axis", "reindex_axis-method-right", "interp_axis")


def _same(np, x, y):
    x, y = np.asarray(x), np.asarray(y)
    if x.shape != y.shape:
        return False
    if x.dtype.kind in "fc" or y.dtype.kind in "fc":
        x, y = x.astype(float), y.astype(float)
        return bool(np.all(np.isclose(x, y, rtol=1e-12, atol=0) | (np.isnan(x) & np.isnan(y))))
    return bool(np.all(x == y))


def _same_array(np, a, b, is_da):
    """two results of a DimArray operation: both scalars, or DimArrays with equal dims, labels and values"""
    if not is_da(a) or not is_da(b):
        # a Dataset stores a scalar result as a 0-d DimArray: the same value either way
        va = a.values if is_da(a) else a
        vb = b.values if is_da(b) else b
        return np.ndim(va) == 0 and np.ndim(vb) == 0 and _same(np, va, vb)
    return tuple(a.dims) == tuple(b.dims) and all(_same(np, a.axes[i].values, b.axes[i].values) for i in range(len(a.dims))) and _same(np, a.values, b.values)


class DatasetOps(Contract):
    """BOUNDED STAND-IN ONLY (never counted as proved).  For a Dataset with variables a(x), b(x, y), c(y), an integer i(x), a t(y, x) that stores the dimensions in another order than the dataset, and a 0-d s -- so
    that some variables lack the operated dimension x -- every listed Dataset operation gives, for each variable that has
    x, exactly what the corresponding DimArray operation gives on that variable, leaves the others as they were, returns a
    Dataset satisfying the shared-axes rule (every variable's axis IS the dataset's axis object) and carries the
    dataset-level metadata where the statement says so.  It is a DIFFERENTIAL statement between two paths through the real
    code (the per-variable operations themselves are under contract in C01-C12, C17, C18); the Dataset layer is Python-level
    dict / loop code over whole objects, and is evaluated on the real code over x-labels of length 1-3 (float, distinct, any
    order), y-labels of length 1-2, NaN patterns, and position / label arguments from small alphabets.  [C14]"""
    target = "dimarray.dataset:Dataset"
    props = ("C14",)
    native_only = True

    def cases(self, tier):
        for op in OPS:
            yield {"name": op, "op": op}

    def setup(self, S, case):
        X = S.array1d("x", "f")
        Y = S.array1d("y", "O")
        assume_order(S, X, "unique")
        assume_order(S, Y, "unique")
        S.assume(S.n(X) >= 1, "x non-empty")
        S.assume(S.n(Y) >= 1, "y non-empty")
        Q = S.array1d("q", "I")
        S.assume(S.n(Q) >= 1, "at least one position (an empty python list is a FLOAT array for NumPy: refused by DimArray and Dataset alike)")
        da_, db_, dc_ = S.arraynd("a", "f", (S.n(X),)), S.arraynd("b", "f", (S.n(X), S.n(Y))), S.arraynd("c", "f", (S.n(Y),))
        env = {"X": X, "Y": Y, "data": {"a": da_, "b": db_, "c": dc_}, "p": S.int("p"), "q": Q, "new": S.array1d("new", "f"),
               "lab": S.real("lab")}
        return env

    # -- the dataset and its twin variables (independent copies for the reference) -----------------------------------------
    def _build(self, env):
        import numpy as np
        S = env["S"]
        DimArray, Dataset = S.da.DimArray, S.da.Dataset
        X, Y = np.asarray(env["X"], dtype=float), np.asarray(env["Y"])

        def variables():
            a = DimArray(np.array(env["data"]["a"], dtype=float), axes=[("x", X.copy())])
            b = DimArray(np.array(env["data"]["b"], dtype=float), axes=[("x", X.copy()), ("y", Y.copy())])
            c = DimArray(np.array(env["data"]["c"], dtype=float), axes=[("y", Y.copy())])
            s = DimArray(np.array(7.5))
            i = DimArray(np.arange(len(X)) * 3 + 1, axes=[("x", X.copy())])          # an INTEGER variable (results that need floats must widen)
            t = DimArray(np.array(env["data"]["b"], dtype=float).T * 2 + 1, axes=[("y", Y.copy()), ("x", X.copy())])     # stores (y, x): another order than the dataset's
            for v in (a, b, c, s, i, t):
                v.attrs.update(VAR_ATTRS)
            return {"a": a, "b": b, "c": c, "s": s, "i": i, "t": t}
        ds = Dataset()
        for k, v in variables().items():
            ds[k] = v
        ds.attrs.update(DS_ATTRS)
        return ds, variables()

    def call(self, fn, env):
        import numpy as np
        op = env["case"]["op"]
        S = env["S"]
        ds, ref = self._build(env)
        X = np.asarray(env["X"], dtype=float)
        n = len(X)
        p = int(env["p"]) % n
        lab = X[p]
        q = [int(t) % n for t in np.asarray(env["q"])]
        new = np.asarray(env["new"], dtype=float)
        has_x = ("a", "b", "i", "t")
        expect = dict(ref)
        if op == "take-label":
            out = ds.take(indices=lab, axis="x")
            for k in has_x: expect[k] = ref[k].take(lab, axis="x")
        elif op == "take-position":
            out = ds.take(indices=p, axis="x", indexing="position")
            for k in has_x: expect[k] = ref[k].take(p, axis="x", indexing="position")
        elif op == "sel":
            out = ds.sel(x=lab)
            for k in has_x: expect[k] = ref[k].sel(x=lab)
        elif op == "isel":
            out = ds.isel(x=q)
            for k in has_x: expect[k] = ref[k].isel(x=q)
        elif op == "ix":
            out = ds.ix[p]              # (the dataset's FIRST dimension, x: for a variable that is its dimension x wherever the variable stores it)
            for k in has_x: expect[k] = ref[k].take(p, axis="x", indexing="position")
        elif op == "loc":
            out = ds.loc[lab]
            for k in has_x: expect[k] = ref[k].take(lab, axis="x")
        elif op in ("mean", "sum", "std", "var", "median"):
            out = getattr(ds, op)(axis="x")
            for k in has_x: expect[k] = getattr(ref[k], op)(axis="x")
        elif op == "take_axis":
            out = ds.take_axis(q, axis="x", indexing="position")
            for k in has_x: expect[k] = ref[k].take_axis(q, axis="x", indexing="position")
        elif op == "sort_axis":
            out = ds.sort_axis("x")
            for k in has_x: expect[k] = ref[k].sort_axis("x")
        elif op == "reindex_axis":
            out = ds.reindex_axis(new, axis="x")
            for k in has_x: expect[k] = ref[k].reindex_axis(new, axis="x")
        elif op == "reindex_axis-method-right":
            out = ds.reindex_axis(new, axis="x", method="right")
            for k in has_x: expect[k] = ref[k].reindex_axis(new, axis="x", method="right")
        elif op == "interp_axis":
            out = ds.interp_axis(new, axis="x")
            for k in has_x: expect[k] = ref[k].interp_axis(new, axis="x")
        elif op == "add-dataset":
            ds2, ref2 = self._build(env)
            out = ds + ds2
            expect = {k: ref[k] + ref2[k] for k in ref}
        elif op == "sub-dataset-other-labels":
            # the second dataset has its OWN x labels (shifted by half a step: partly shared, partly new)
            ds2, ref2 = self._build(env)
            other = np.concatenate([X[:1], X + 0.25])[:len(X)]
            ds2.axes["x"].values = other
            for k in has_x:
                ref2[k].axes["x"].values = other.copy()
            out = ds - ds2
            expect = {k: ref[k] - ref2[k] for k in ref}
        elif op == "rsub-scalar":
            out = 2.0 - ds
            expect = {k: 2.0 - ref[k] for k in ref}
        elif op == "mul-scalar":
            out = ds * 2.0
            expect = {k: ref[k] * 2.0 for k in ref}
        elif op == "stack_ds":
            ds2, ref2 = self._build(env)
            out = S.da.stack_ds([ds, ds2], axis="k", keys=["u", "v"])
            expect = {k: S.da.stack([ref[k], ref2[k]], axis="k", keys=["u", "v"]) for k in ref}
        elif op == "concatenate_ds":
            ds2, ref2 = self._build(env)
            shifted = X + 100.0
            ds2.axes["x"].values = shifted
            for k in has_x:
                ref2[k].axes["x"].values = shifted.copy()
            out = S.da.concatenate_ds([ds, ds2], axis="x")
            expect = {k: (S.da.concatenate([ref[k], ref2[k]], axis="x") if k in has_x else ref[k]) for k in ref}
        else:
            raise AssertionError(op)
        env["expect"], env["ds"], env["ref"] = expect, ds, ref
        return out

    def post(self, S, case, env, result):
        import numpy as np
        op = case["op"]
        Dataset = S.da.Dataset
        is_da = S.is_dimarray
        yield "returns-a-dataset", isinstance(result, Dataset)
        expect = env["expect"]
        yield "same-variables", sorted(result.keys()) == sorted(expect.keys())
        for k in sorted(expect):
            if k not in result.keys():
                continue
            got = result[k]
            yield "%s:equals-the-dimarray-operation-on-that-variable" % k, _same_array(np, got, expect[k], is_da)
        ok = True
        for k in result.keys():
            v = result[k]
            if is_da(v):
                for ax in v.axes:
                    ok = ok and ax.name in result.dims and result.axes[ax.name] is ax
        yield "shared-axes-rule-holds", ok
        if op in CARRIES_DS_ATTRS:
            yield "dataset-metadata-carried-over", dict(result.attrs) == DS_ATTRS
        ds, ref = env["ds"], env["ref"]
        yield "operand-untouched", all(_same_array(np, ds[k], ref[k], is_da) for k in ref) and dict(ds.attrs) == DS_ATTRS
