"""Contracts for dimarray/dataset.py  [C13, C14]"""
from dverif.contract_base import Contract
from .common import assume_order

# label kinds of the dataset dimensions used below
KIND = {"x": "f", "y": "O", "z": "f"}


def ds_inv(S, ds):
    """the shared-axes representation invariant, as a list of (name, formula) clauses"""
    names = [ax.name for ax in ds.axes]
    yield "inv:dataset-dimension-names-distinct-strings", len(set(names)) == len(names) and all(isinstance(n, str) and n for n in names)
    used = set()
    for k in dict.keys(ds):
        v = dict.__getitem__(ds, k)
        yield "inv:%s-is-a-dimarray-with-one-axis-per-dimension" % k, S.is_dimarray(v) and len(v.axes) == len(S.shape(v.values))
        for i, ax in enumerate(v.axes):
            used.add(ax.name)
            yield "inv:%s.%s-is-the-datasets-own-axis-object" % (k, ax.name), ax.name in names and ax is ds.axes[ax.name]
            yield "inv:%s.%s-length-matches-the-data" % (k, ax.name), S.n(ax.values) == S.shape(v.values)[i]
    yield "inv:every-variable-dimension-is-a-dataset-dimension", used <= set(names)


def snapshot_ds(S, ds):
    """what 'the dataset as it was' means: keys, dims, axis objects with their labels, the variable objects with their data"""
    return {"keys": list(dict.keys(ds)), "dims": [ax.name for ax in ds.axes], "axes": list(ds.axes),
            "labels": {ax.name: S.snapshot(ax.values) for ax in ds.axes},
            "vars": {k: dict.__getitem__(ds, k) for k in dict.keys(ds)},
            "data": {k: S.snapshot(dict.__getitem__(ds, k).values) for k in dict.keys(ds)},
            "attrs": dict(ds.attrs)}


def unchanged_ds(S, ds, snap):
    yield "keys-unchanged", list(dict.keys(ds)) == snap["keys"]
    yield "dimensions-unchanged", [ax.name for ax in ds.axes] == snap["dims"]
    yield "axis-objects-unchanged", len(ds.axes) == len(snap["axes"]) and all(a is b for a, b in zip(ds.axes, snap["axes"]))
    for ax in snap["axes"]:
        old = snap["labels"][ax.name if ax.name in snap["labels"] else snap["dims"][snap["axes"].index(ax)]]
        yield "labels-of-%s-unchanged" % snap["dims"][snap["axes"].index(ax)], S.land(
            S.n(ax.values) == S.n(old), S.forall(0, S.n(old), lambda i, ax=ax, old=old: S.implies(i < S.n(ax.values), lambda: S.at(ax.values, i) == S.at(old, i))))
    for k in snap["keys"]:
        yield "variable-%s-unchanged" % k, S.land(k in dict.keys(ds) and dict.__getitem__(ds, k) is snap["vars"][k],
                                                 S.forall_nd(S.shape(snap["data"][k]), lambda *p, k=k: S.same(S.at(snap["vars"][k].values, *p), S.at(snap["data"][k], *p))))
    yield "metadata-unchanged", dict(ds.attrs) == snap["attrs"]


APPENDED = {"a(x)+appended(w)": "w"}       # states in which an axis was appended to the dataset directly (no variable uses it)

STATES = {
    "a(x)+appended(w)": [("a", ["x"])],
    "empty": [],
    "a(x)": [("a", ["x"])],
    "a(x),b(x,y)": [("a", ["x"]), ("b", ["x", "y"])],
    "a(x,y)": [("a", ["x", "y"])],
}


def make_dataset(S, state):
    """a Dataset in a state satisfying the invariant: built through the public API from arrays over shared label arrays"""
    da = S.da
    ds = da.Dataset()
    labels = {}
    for key, dims in STATES[state]:
        axes = []
        for d in dims:
            if d not in labels:
                L = S.array1d("ds." + d, KIND[d])
                assume_order(S, L, "unique")
                labels[d] = L
            own = S.snapshot(labels[d])
            S.tag(own, "order", "unique")          # (the copy carries the same labels: the order assumed of them holds for it)
            axes.append(da.Axis(own, d))
        data = S.arraynd("ds.%s.data" % key, "f", tuple(S.n(labels[d]) for d in dims))
        ds[key] = da.DimArray(data, axes=axes)
    if state in APPENDED:
        W = S.array1d("ds.w", "f")
        assume_order(S, W, "unique")
        labels[APPENDED[state]] = W
        ds.axes.append(da.Axis(S.snapshot(W), APPENDED[state]))
    ds.attrs["title"] = "t"
    return ds, labels


class DatasetSetItem(Contract):
    """ds[key] = array, from any state satisfying the shared-axes invariant: on normal return the invariant holds again,
    ds[key] carries the assigned data and labels, the other variables and the assigned array itself are untouched, and an
    axis is dropped from the dataset exactly when no variable uses it any more.  ValueError is raised iff the array's labels
    disagree with an existing dataset axis on some dimension -- and then the dataset is exactly as it was (failure
    atomicity).  [C13]"""
    target = "dimarray.dataset:Dataset.__setitem__"
    props = ("C13",)
    inlined = ("Axis.__eq__", "Axes.append", "_maybe_delete_axes", "copy.copy / copy.deepcopy of the assigned array's axes")
    max_paths = 500

    VAL_DIMS = (["x"], ["y"], ["x", "y"], ["z", "x"], ["x", "z"], ["z"], [])

    def cases(self, tier):
        for state in STATES:
            for key in ("c", "a"):
                if key == "a" and state == "empty":
                    continue
                for vd in self.VAL_DIMS:
                    yield {"name": "%s|%s=%s" % (state, key, ",".join(vd) or "scalar"), "state": state, "key": key, "vd": list(vd)}

    def bound_lengths(self, case):
        dims = set(d for k, ds_ in STATES[case["state"]] for d in ds_)
        return ["ds.%s.n" % d for d in sorted(dims)] + ["val.%s.n" % d for d in case["vd"]]

    def setup(self, S, case):
        ds, labels = make_dataset(S, case["state"])
        axes, vlabels = [], {}
        for d in case["vd"]:
            L = S.array1d("val." + d, KIND[d])
            assume_order(S, L, "unique")
            vlabels[d] = L
            axes.append(S.da.Axis(L, d))
        data = S.arraynd("val.data", "f", tuple(S.n(vlabels[d]) for d in case["vd"]))
        val = S.da.DimArray(data, axes=axes)
        val.attrs["units"] = "K"
        return {"ds": ds, "labels": labels, "val": val, "vlabels": vlabels, "vdata": data, "vaxes": list(val.axes),
                "snap": snapshot_ds(S, ds)}

    def call(self, fn, env):
        env["ds"][env["case"]["key"]] = env["val"]
        return None

    def _mismatch(self, S, case, env):
        conds = []
        for d in case["vd"]:
            if d in env["labels"]:
                old, new = env["snap"]["labels"][d], env["vlabels"][d]
                same = S.land(S.n(old) == S.n(new), S.forall(0, S.n(old), lambda i, old=old, new=new: S.implies(i < S.n(new), lambda: S.at(old, i) == S.at(new, i))))
                conds.append(S.lnot(same))
        return S.lor(*conds)

    def raises(self, S, case, env):
        return {ValueError: self._mismatch(S, case, env)}

    def post_exc(self, S, case, env, exc):
        for c in unchanged_ds(S, env["ds"], env["snap"]):
            yield ("rejected-assignment-leaves-the-dataset-as-it-was:" + c[0], c[1])
        for c in ds_inv(S, env["ds"]):
            yield c

    def post(self, S, case, env, result):
        ds, key, val, snap = env["ds"], case["key"], env["val"], env["snap"]
        for c in ds_inv(S, ds):
            yield c
        new = dict.__getitem__(ds, key)
        yield "assigned-variable-has-the-arrays-dims", tuple(new.dims) == tuple(case["vd"])
        for i, d in enumerate(case["vd"]):
            L = env["vlabels"][d]
            yield "assigned-variable-labels[%s]" % d, S.land(S.n(new.axes[i].values) == S.n(L), S.forall(0, S.n(L), lambda k, i=i, L=L: S.implies(
                k < S.n(new.axes[i].values), lambda: S.at(new.axes[i].values, k) == S.at(L, k))))
        yield "assigned-variable-data", S.forall_nd(S.shape(env["vdata"]), lambda *p: S.same(S.at(new.values, *p), S.at(env["vdata"], *p)))
        yield "the-assigned-array-itself-is-untouched", S.land(
            val.values is env["vdata"], len(val.axes) == len(env["vaxes"]), all(a is b for a, b in zip(val.axes, env["vaxes"])),
            *[val.axes[i].values is env["vlabels"][d] for i, d in enumerate(case["vd"])])
        # the dataset's axes are its OWN: later renaming / relabelling through the dataset must not reach the caller's array (nor
        # another dataset the same array was given to)
        yield "no-axis-object-or-label-buffer-shared-with-the-assigned-array", S.land(
            all(ax is not bx for ax in ds.axes for bx in env["vaxes"]),
            *[S.lnot(S.same_buffer(ax.values, bx.values)) for ax in ds.axes for bx in env["vaxes"]])
        for k in snap["keys"]:
            if k != key:
                yield "other-variable-%s-kept" % k, S.land(dict.__getitem__(ds, k) is snap["vars"][k], S.forall_nd(
                    S.shape(snap["data"][k]), lambda *p, k=k: S.same(S.at(snap["vars"][k].values, *p), S.at(snap["data"][k], *p))))
        # dimensions: exactly those used by the variables now (nothing was appended directly in these states)
        used = []
        for k in dict.keys(ds):
            for d in dict.__getitem__(ds, k).dims:
                if d not in used:
                    used.append(d)
        extra = [APPENDED[case["state"]]] if case.get("state") in APPENDED and APPENDED[case["state"]] not in used and not env.get("appended_axis_was_used") else []
        yield "dataset-dimensions-are-exactly-those-in-use", sorted(ax.name for ax in ds.axes) == sorted(used + extra)
        yield "surviving-axis-objects-are-the-old-ones", all(ds.axes[d] is snap["axes"][snap["dims"].index(d)] for d in snap["dims"] if d in [ax.name for ax in ds.axes])
        yield "dataset-metadata-kept", dict(ds.attrs) == snap["attrs"]

    def canaries(self, S, case, env, result):
        yield "variable-not-stored", case["key"] not in dict.keys(env["ds"])


class DatasetDelItem(Contract):
    """del ds[key]: the invariant is preserved, the other variables untouched, and an axis leaves the dataset exactly when no
    remaining variable uses it.  [C13]"""
    target = "dimarray.dataset:Dataset.__delitem__"
    props = ("C13",)

    def cases(self, tier):
        for state in STATES:
            for key, _ in STATES[state]:
                yield {"name": "%s|del-%s" % (state, key), "state": state, "key": key}

    def bound_lengths(self, case):
        dims = set(d for k, ds_ in STATES[case["state"]] for d in ds_)
        return ["ds.%s.n" % d for d in sorted(dims)]

    def setup(self, S, case):
        ds, labels = make_dataset(S, case["state"])
        return {"ds": ds, "labels": labels, "snap": snapshot_ds(S, ds)}

    def call(self, fn, env):
        del env["ds"][env["case"]["key"]]

    def post(self, S, case, env, result):
        ds, snap, key = env["ds"], env["snap"], case["key"]
        for c in ds_inv(S, ds):
            yield c
        yield "variable-removed", key not in dict.keys(ds) and list(dict.keys(ds)) == [k for k in snap["keys"] if k != key]
        for k in snap["keys"]:
            if k != key:
                yield "other-variable-%s-kept" % k, dict.__getitem__(ds, k) is snap["vars"][k]
        used = []
        for k in dict.keys(ds):
            for d in dict.__getitem__(ds, k).dims:
                if d not in used:
                    used.append(d)
        extra = [APPENDED[case["state"]]] if case.get("state") in APPENDED and APPENDED[case["state"]] not in used else []
        yield "dataset-dimensions-are-exactly-those-in-use", sorted(ax.name for ax in ds.axes) == sorted(used + extra)

    def canaries(self, S, case, env, result):
        yield "nothing-removed", case["key"] in dict.keys(env["ds"])


class DatasetRelabel(Contract):
    """renaming or relabelling an axis through the dataset (ds.axes[d] = Axis, ds.axes[d].name = n, ds.dims = (...),
    ds.axes[d][i] = label) or through one of its variables (ds[k].axes[d].name = n, ds[k].axes[d][i] = label): the invariant
    is preserved and the change is immediately visible from the dataset and from every variable having that dimension.  [C13]"""
    target = "dimarray.dataset:DatasetAxes.__setitem__"
    props = ("C13",)
    bound_names = ("ds.x.n", "ds.y.n")

    OPS = ("replace-axis", "replace-axis-by-position", "replace-axis-by-negative-position", "replace-axis-renaming", "rename-via-dataset", "rename-via-dims-setter", "rename-via-variable", "relabel-via-dataset", "relabel-via-variable",
           "rename-via-rename_axes", "rename-via-set_axis", "relabel-via-set_axis", "rename-keys")

    def cases(self, tier):
        for state in ("a(x)", "a(x),b(x,y)", "a(x,y)"):
            for op in self.OPS:
                yield {"name": "%s|%s" % (state, op), "state": state, "op": op}

    def setup(self, S, case):
        ds, labels = make_dataset(S, case["state"])
        env = {"ds": ds, "labels": labels, "snap": snapshot_ds(S, ds)}
        if case["op"] in ("replace-axis", "replace-axis-by-position", "replace-axis-by-negative-position", "replace-axis-renaming", "relabel-via-set_axis"):
            env["newlab"] = S.array1d("newlab", "f", n=S.n(labels["x"]))
        if case["op"] in ("relabel-via-dataset", "relabel-via-variable"):
            env["newlabel"] = S.real("newlabel")
            S.assume(S.n(labels["x"]) > 0, "there is a label to replace")
        return env

    def call(self, fn, env):
        ds, op = env["ds"], env["case"]["op"]
        first = list(dict.keys(ds))[0]
        if op == "replace-axis":
            ds.axes["x"] = env["ds"].axes["x"].__class__(env["newlab"], "x")
        elif op == "replace-axis-by-position":
            ds.axes[0] = env["ds"].axes["x"].__class__(env["newlab"], "x")               # x is the first dimension in every state
        elif op == "replace-axis-by-negative-position":
            ds.axes[-len(ds.axes)] = env["ds"].axes["x"].__class__(env["newlab"], "x")
        elif op == "replace-axis-renaming":
            ds.axes["x"] = env["ds"].axes["x"].__class__(env["newlab"], "time")          # the new Axis carries another name
        elif op == "rename-via-dataset":
            ds.axes["x"].name = "time"
        elif op == "rename-via-dims-setter":
            ds.dims = tuple("time" if ax.name == "x" else ax.name for ax in ds.axes)
        elif op == "rename-via-variable":
            dict.__getitem__(ds, first).axes["x"].name = "time"
        elif op == "relabel-via-dataset":
            ds.axes["x"][0] = env["newlabel"]
        elif op == "relabel-via-variable":
            dict.__getitem__(ds, first).axes["x"][0] = env["newlabel"]
        elif op == "rename-via-rename_axes":
            ds.rename_axes({"x": "time"})
        elif op == "rename-via-set_axis":
            ds.set_axis(axis="x", name="time")
        elif op == "relabel-via-set_axis":
            ds.set_axis(env["newlab"], axis="x")
        elif op == "rename-keys":
            ds.rename_keys({first: "renamed"})

    def raises(self, S, case, env):
        if case["op"] == "replace-axis-renaming":
            # an Axis carrying ANOTHER name may be refused or may rename the dimension everywhere: the statement fixes neither, only
            # that the dataset and its variables agree afterwards
            return {ValueError: (False, True)}
        return {}

    def post_exc(self, S, case, env, exc):
        for c in ds_inv(S, env["ds"]):
            yield c
        yield "dimensions-are-those-the-variables-use", sorted(ax.name for ax in env["ds"].axes) == sorted({d for k in dict.keys(env["ds"]) for d in dict.__getitem__(env["ds"], k).dims})

    def post(self, S, case, env, result):
        ds, op = env["ds"], case["op"]
        for c in ds_inv(S, ds):
            yield c
        if op == "rename-keys":
            first = STATES[case["state"]][0][0]
            yield "key-renamed-same-variable-object", "renamed" in dict.keys(ds) and first not in dict.keys(ds) and dict.__getitem__(ds, "renamed") is env["snap"]["vars"][first]
            yield "dimensions-unchanged", [a.name for a in ds.axes] == env["snap"]["dims"]
            return
        newname = "time" if op.startswith("rename") or op == "replace-axis-renaming" else "x"
        yield "dataset-sees-the-change", newname in [ax.name for ax in ds.axes] and ("x" in [ax.name for ax in ds.axes]) == (newname == "x")
        ax = ds.axes[newname]
        had_x = [k for k, dims in STATES[case["state"]] if "x" in dims]
        for k in had_x:
            v = dict.__getitem__(ds, k)
            yield "variable-%s-sees-the-change" % k, newname in v.dims and v.axes[newname] is ax
        if op.startswith("replace-axis") or op == "relabel-via-set_axis":
            yield "new-labels-in-place", S.forall(0, S.n(env["newlab"]), lambda i: S.implies(i < S.n(ax.values), lambda: S.at(ax.values, i) == S.at(env["newlab"], i)))
        if op in ("relabel-via-dataset", "relabel-via-variable"):       # a single label replaced
            yield "new-label-in-place", S.at(ax.values, 0) == env["newlabel"]
            old = env["snap"]["labels"]["x"]
            yield "other-labels-kept", S.forall(1, S.n(old), lambda i: S.implies(i < S.n(ax.values), lambda: S.at(ax.values, i) == S.at(old, i)))

    def canaries(self, S, case, env, result):
        if case["op"] == "rename-keys":
            yield "old-key-still-there", STATES[case["state"]][0][0] in dict.keys(env["ds"])
            return
        yield "dataset-keeps-the-old-name-and-labels", S.land("x" in [a.name for a in env["ds"].axes],
                                                             S.forall(0, S.n(env["snap"]["labels"]["x"]), lambda i: S.implies(
                                                                 i < S.n(env["ds"].axes[0].values), lambda: S.at(env["ds"].axes[0].values, i) == S.at(env["snap"]["labels"]["x"], i))))


# ---- C14: Dataset-wide operations that are self-contained (no alignment): take_axis / sort_axis through reduce_axis ---------
STATES["a(x),b(x,y),c(y)"] = [("a", ["x"]), ("b", ["x", "y"]), ("c", ["y"])]
# (a variable that stores the dataset's dimensions in ANOTHER order than the dataset lists them: x first for the dataset, y first for b)
STATES["a(x),b(y,x),c(y)"] = [("a", ["x"]), ("b", ["y", "x"]), ("c", ["y"])]


def _var(ds, k):
    return dict.__getitem__(ds, k)


class DatasetTakeAxis(Contract):
    """ds.take_axis(positions, axis='x', indexing='position') and ds.sort_axis('x') on a Dataset a(x), b(x, y), c(y): the
    result is a new Dataset with the same variables in the same order; the x axis carries the labels at the taken positions
    (ascending for sort_axis, each label landing at its sorted rank); every variable that has x holds, at every coordinate,
    the operand variable's cell at the taken position along x -- exactly DimArray.take_axis / sort_axis on that variable
    (TakeAxis' / SortAxis' clauses) --; the variable without x is unchanged; the result satisfies the shared-axes invariant;
    dataset and variable metadata are carried over; the operand dataset is untouched.  [C14, C13]"""
    target = "dimarray.dataset:Dataset.take_axis"
    props = ("C14",)
    inlined = ("reduce_axis", "Dataset.__getitem__", "Dataset.__setitem__ (own contract: DatasetSetItem, C13)", "DatasetAxes", "DimArray.__init__", "Axis.copy")

    def cases(self, tier):
        for op in ("take_axis", "sort_axis"):
            for by in ("name", "position"):
                yield {"name": "%s-axis_by_%s" % (op, by), "op": op, "by": by}

    bound_names = ("ds.x.n", "ds.y.n", "q.n")

    def setup(self, S, case):
        ds, labels = make_dataset(S, "a(x),b(x,y),c(y)")
        for k in ("a", "b", "c"):
            _var(ds, k).attrs["units"] = "K"
        env = {"ds": ds, "labels": labels, "snap": snapshot_ds(S, ds)}
        if case["op"] == "take_axis":
            q = S.array1d("q", "I")
            n = S.n(labels["x"])
            S.assume(S.forall(0, S.n(q), lambda k: S.land(0 <= S.at(q, k), S.at(q, k) < n)), "positions in range")
            env["q"] = q
        return env

    def call(self, fn, env):
        case, ds = env["case"], env["ds"]
        axis = "x" if case["by"] == "name" else 0
        if case["op"] == "take_axis":
            return ds.take_axis(env["q"], axis=axis, indexing="position")
        return ds.sort_axis(axis)

    def post(self, S, case, env, result):
        ds, labels, snap = env["ds"], env["labels"], env["snap"]
        X, Y = labels["x"], labels["y"]
        nx, ny = S.n(X), S.n(Y)
        yield "returns-a-new-dataset", type(result) is type(ds) and result is not ds
        ok = list(dict.keys(result)) == ["a", "b", "c"] and [ax.name for ax in result.axes] == ["x", "y"]
        yield "same-variables-and-dimensions-in-order", ok
        if not ok:
            return
        for c in ds_inv(S, result):
            yield c
        Xr, Yr = result.axes["x"].values, result.axes["y"].values
        if case["op"] == "take_axis":
            q = env["q"]
            m = S.n(q)
            src = lambda k: S.at(q, k)
            yield "x-carries-the-labels-at-the-taken-positions", S.land(S.n(Xr) == m, S.forall(0, m, lambda k: S.implies(k < S.n(Xr), lambda: S.at(Xr, k) == S.at(X, src(k)))))
        else:
            m = nx
            rank = S.sort_rank(X)
            yield "x-ascending", S.land(S.n(Xr) == nx, S.forall2(0, nx, lambda i, j: S.at(Xr, i) <= S.at(Xr, j)))
            yield "every-label-lands-at-its-sorted-rank", S.forall(0, nx, lambda p: S.land(0 <= S.at(rank, p), S.at(rank, p) < nx, S.implies(
                S.land(0 <= S.at(rank, p), S.at(rank, p) < nx), lambda: S.at(Xr, S.at(rank, p)) == S.at(X, p))))
        yield "y-labels-unchanged", S.land(S.n(Yr) == ny, S.forall(0, ny, lambda j: S.implies(j < S.n(Yr), lambda: S.at(Yr, j) == S.at(Y, j))))
        a, b, c = _var(result, "a"), _var(result, "b"), _var(result, "c")
        a0, b0, c0 = snap["data"]["a"], snap["data"]["b"], snap["data"]["c"]
        yield "dims-of-the-variables-kept", tuple(a.dims) == ("x",) and tuple(b.dims) == ("x", "y") and tuple(c.dims) == ("y",)
        if case["op"] == "take_axis":
            yield "a:cells-at-the-taken-positions", S.forall(0, m, lambda k: S.same(S.at(a.values, k), S.at(a0, src(k))))
            yield "b:slices-at-the-taken-positions", S.forall_nd([m, ny], lambda k, j: S.same(S.at(b.values, k, j), S.at(b0, src(k), j)))
        else:
            # every slice moves with its label
            yield "a:cells-move-with-their-labels", S.forall(0, nx, lambda k: S.forall(0, nx, lambda p: S.implies(S.at(X, p) == S.at(Xr, k), lambda: S.same(S.at(a.values, k), S.at(a0, p)))))
            yield "b:slices-move-with-their-labels", S.forall_nd([nx, ny], lambda k, j: S.forall(0, nx, lambda p: S.implies(S.at(X, p) == S.at(Xr, k), lambda: S.same(S.at(b.values, k, j), S.at(b0, p, j)))))
        yield "c:variable-without-the-axis-unchanged", S.land(S.n(c.values) == ny, S.forall(0, ny, lambda j: S.same(S.at(c.values, j), S.at(c0, j))))
        yield "variable-metadata-carried-over", all(dict(v.attrs) == {"units": "K"} for v in (a, b, c))
        yield "dataset-metadata-carried-over", dict(result.attrs) == snap["attrs"]
        yield "no-axis-object-shared-with-the-operand", all(ax is not bx for ax in result.axes for bx in snap["axes"])
        for cl in unchanged_ds(S, ds, snap):
            yield ("operand:" + cl[0],) + tuple(cl[1:])

    def canaries(self, S, case, env, result):
        yield "result-has-no-x-labels", S.n(result.axes["x"].values) == 0


def _axisloc_stub():
    # label lookups on the dataset's axes go through AbstractAxis.loc: used through its contract (AxisLoc, C01), as _get_indices is
    from dverif.stubs import stub_of
    from .bases import AxisLoc
    return stub_of(AxisLoc)


class DatasetTake(Contract):
    """Indexing a Dataset a(x), b(x, y), c(y) along x -- ds.ix[p] / ds.isel(x=p) (one position), ds.isel(x=[positions]),
    ds.loc[label] / ds.sel(x=label) / ds.take(label, axis='x') (one label, IndexError if absent), ds.take([labels], axis='x')
    -- gives a new Dataset in which every variable that has x holds exactly the operand variable's cells at the addressed
    positions (the position of a label being the one where the x axis carries it), x is dropped for a single index and carries
    the addressed labels for a list, the variable without x is unchanged, the shared-axes invariant holds, dataset and
    variable metadata are carried over and the operand is untouched.  [C14, C13]"""
    target = "dimarray.dataset:Dataset.take"
    props = ("C14",)
    uses = (_axisloc_stub(),)
    inlined = ("_get_indices (own contract: GetIndices, C01)", "_getaxes_ortho", "DimArray.take -> _getitem (own contract: GetItem, C01)",
               "Dataset.__setitem__ (own contract: DatasetSetItem, C13)", "Indexable accessors")

    FORMS = ("ix-scalar", "isel-scalar", "isel-list", "loc-scalar", "sel-scalar", "take-label", "take-label-list", "take-position")

    def cases(self, tier):
        for form in self.FORMS:
            yield {"name": form, "form": form}

    bound_names = ("ds.x.n", "ds.y.n", "q.n")

    def setup(self, S, case):
        ds, labels = make_dataset(S, "a(x),b(x,y),c(y)")
        for k in ("a", "b", "c"):
            _var(ds, k).attrs["units"] = "K"
        for ax in ds.axes:
            S.tag(ax.values, "order", "unique")       # (selects the case of the callee contract; its requires is still proved)
        env = {"ds": ds, "labels": labels, "snap": snapshot_ds(S, ds)}
        n = S.n(labels["x"])
        f = case["form"]
        if f in ("ix-scalar", "isel-scalar", "take-position"):
            p = S.int("p")
            S.assume(S.land(0 <= p, p < n), "position in range")
            env["p"] = p
        elif f == "isel-list":
            q = S.array1d("q", "I")
            S.assume(S.forall(0, S.n(q), lambda k: S.land(0 <= S.at(q, k), S.at(q, k) < n)), "positions in range")
            env["q"] = q
        elif f in ("loc-scalar", "sel-scalar", "take-label"):
            env["lab"] = S.real("lab")
        else:
            env["l0"], env["l1"] = S.real("l0"), S.real("l1")
            env["labs"] = S.asarray([env["l0"], env["l1"]])
        return env

    def call(self, fn, env):
        f, ds = env["case"]["form"], env["ds"]
        if f == "ix-scalar":
            return ds.ix[env["p"]]
        if f == "isel-scalar":
            return ds.isel(x=env["p"])
        if f == "take-position":
            return ds.take(indices=env["p"], axis="x", indexing="position")
        if f == "isel-list":
            return ds.isel(x=env["q"])
        if f == "loc-scalar":
            return ds.loc[env["lab"]]
        if f == "sel-scalar":
            return ds.sel(x=env["lab"])
        if f == "take-label":
            return ds.take(indices=env["lab"], axis="x")
        return ds.take(indices=[env["l0"], env["l1"]], axis="x")

    def raises(self, S, case, env):
        from .common import absent
        X = env["labels"]["x"]
        f = case["form"]
        if f in ("loc-scalar", "sel-scalar", "take-label"):
            return {IndexError: absent(S, X, env["lab"])}
        if f == "take-label-list":
            return {IndexError: S.lor(absent(S, X, env["l0"]), absent(S, X, env["l1"]))}
        return {}

    def post(self, S, case, env, result):
        ds, labels, snap = env["ds"], env["labels"], env["snap"]
        X, Y = labels["x"], labels["y"]
        nx, ny = S.n(X), S.n(Y)
        f = case["form"]
        scalar = f in ("ix-scalar", "isel-scalar", "take-position", "loc-scalar", "sel-scalar", "take-label")
        yield "returns-a-new-dataset", type(result) is type(ds) and result is not ds
        ok = list(dict.keys(result)) == ["a", "b", "c"] and [ax.name for ax in result.axes] == (["y"] if scalar else ["x", "y"])
        yield "same-variables;x-dropped-for-a-single-index", ok
        if not ok:
            return
        for c in ds_inv(S, result):
            yield c
        a, b, c = _var(result, "a"), _var(result, "b"), _var(result, "c")
        a0, b0, c0 = snap["data"]["a"], snap["data"]["b"], snap["data"]["c"]
        Yr = result.axes["y"].values
        yield "y-labels-unchanged", S.land(S.n(Yr) == ny, S.forall(0, ny, lambda j: S.implies(j < S.n(Yr), lambda: S.at(Yr, j) == S.at(Y, j))))
        if scalar:
            yield "dims-of-the-variables", tuple(a.dims) == () and tuple(b.dims) == ("y",) and tuple(c.dims) == ("y",)
            if "p" in env:
                hit = lambda p: p == env["p"]
            else:
                hit = lambda p: S.at(X, p) == env["lab"]
            yield "a:the-addressed-cell", S.forall(0, nx, lambda p: S.implies(hit(p), lambda: S.same(S.at(a.values), S.at(a0, p))))
            yield "b:the-addressed-slice", S.forall(0, nx, lambda p: S.implies(hit(p), lambda: S.forall(0, ny, lambda j: S.same(S.at(b.values, j), S.at(b0, p, j)))))
        else:
            Xr = result.axes["x"].values
            yield "dims-of-the-variables", tuple(a.dims) == ("x",) and tuple(b.dims) == ("x", "y") and tuple(c.dims) == ("y",)
            if f == "isel-list":
                q = env["q"]
                m = S.n(q)
                yield "x-carries-the-addressed-labels", S.land(S.n(Xr) == m, S.forall(0, m, lambda k: S.implies(k < S.n(Xr), lambda: S.at(Xr, k) == S.at(X, S.at(q, k)))))
                yield "a:cells-at-the-addressed-positions", S.forall(0, m, lambda k: S.same(S.at(a.values, k), S.at(a0, S.at(q, k))))
                yield "b:slices-at-the-addressed-positions", S.forall_nd([m, ny], lambda k, j: S.same(S.at(b.values, k, j), S.at(b0, S.at(q, k), j)))
            else:
                labs = env["labs"]
                m = S.n(labs)
                yield "x-carries-the-addressed-labels", S.land(S.n(Xr) == m, S.forall(0, m, lambda k: S.implies(k < S.n(Xr), lambda: S.at(Xr, k) == S.at(labs, k))))
                yield "a:cells-at-the-addressed-labels", S.forall(0, m, lambda k: S.forall(0, nx, lambda p: S.implies(S.at(X, p) == S.at(labs, k), lambda: S.same(S.at(a.values, k), S.at(a0, p)))))
                yield "b:slices-at-the-addressed-labels", S.forall_nd([m, ny], lambda k, j: S.forall(0, nx, lambda p: S.implies(S.at(X, p) == S.at(labs, k), lambda: S.same(S.at(b.values, k, j), S.at(b0, p, j)))))
        yield "c:variable-without-the-axis-unchanged", S.land(S.n(c.values) == ny, S.forall(0, ny, lambda j: S.same(S.at(c.values, j), S.at(c0, j))))
        # (a variable reduced to a scalar is what DimArray indexing returns for it: a bare number, which has no metadata)
        yield "variable-metadata-carried-over", all(dict(v.attrs) == {"units": "K"} for v in ((b, c) if scalar else (a, b, c)))
        yield "dataset-metadata-carried-over", dict(result.attrs) == snap["attrs"]
        for cl in unchanged_ds(S, ds, snap):
            yield ("operand:" + cl[0],) + tuple(cl[1:])

    def canaries(self, S, case, env, result):
        yield "result-has-no-y-labels", S.n(result.axes["y"].values) == 0


class DatasetScalarOp(Contract):
    """ds op s (s a scalar; + - * / // **, both operand orders where Python provides them) and -ds on a Dataset a(x), b(x, y),
    c(y): a new Dataset with the same variables in order, each holding NumPy's op of its cells and s (the negation of its
    cells), over axes with the operand's labels, satisfying the shared-axes invariant; the operand is untouched.  [C14, C13]"""
    target = "dimarray.dataset:Dataset._binary_op"
    props = ("C14",)
    inlined = ("OpMixin operators", "Dataset._binary_op / _unary_op", "DimArray._binary_op -> operation (own contract: ScalarOperation, C04)",
               "Dataset.__setitem__ (own contract: DatasetSetItem, C13)")

    def cases(self, tier):
        for op in ("add", "subtract", "multiply", "true_divide", "floor_divide", "power"):
            for order in ("ds-op-s", "s-op-ds"):
                if tier == "quick" and order == "s-op-ds" and op not in ("subtract", "true_divide", "power"):
                    continue
                yield {"name": "%s-%s" % (op, order), "op": op, "order": order}
        yield {"name": "negate", "op": "negate", "order": "unary"}

    bound_names = ("ds.x.n", "ds.y.n")

    def setup(self, S, case):
        ds, labels = make_dataset(S, "a(x),b(x,y),c(y)")
        return {"ds": ds, "labels": labels, "snap": snapshot_ds(S, ds), "s": S.real("s")}

    def call(self, fn, env):
        import operator
        case, ds, s = env["case"], env["ds"], env["s"]
        if case["op"] == "negate":
            return -ds
        f = {"add": operator.add, "subtract": operator.sub, "multiply": operator.mul, "true_divide": operator.truediv,
             "floor_divide": operator.floordiv, "power": operator.pow}[case["op"]]
        return f(ds, s) if case["order"] == "ds-op-s" else f(s, ds)

    def post(self, S, case, env, result):
        ds, labels, snap, s = env["ds"], env["labels"], env["snap"], env["s"]
        X, Y = labels["x"], labels["y"]
        nx, ny = S.n(X), S.n(Y)
        yield "returns-a-new-dataset", type(result) is type(ds) and result is not ds
        ok = list(dict.keys(result)) == ["a", "b", "c"] and sorted(ax.name for ax in result.axes) == ["x", "y"]
        yield "same-variables-and-dimensions", ok
        if not ok:
            return
        for c in ds_inv(S, result):
            yield c
        Xr, Yr = result.axes["x"].values, result.axes["y"].values
        yield "x-labels-unchanged", S.land(S.n(Xr) == nx, S.forall(0, nx, lambda i: S.implies(i < S.n(Xr), lambda: S.at(Xr, i) == S.at(X, i))))
        yield "y-labels-unchanged", S.land(S.n(Yr) == ny, S.forall(0, ny, lambda j: S.implies(j < S.n(Yr), lambda: S.at(Yr, j) == S.at(Y, j))))
        op = case["op"]
        if op == "negate":
            f = lambda v: S.same(v[0], -v[1])
        elif case["order"] == "ds-op-s":
            f = lambda v: S.same(v[0], S.op(op, v[1], s))
        else:
            f = lambda v: S.same(v[0], S.op(op, s, v[1]))
        a, b, c = _var(result, "a"), _var(result, "b"), _var(result, "c")
        a0, b0, c0 = snap["data"]["a"], snap["data"]["b"], snap["data"]["c"]
        yield "dims-of-the-variables-kept", tuple(a.dims) == ("x",) and tuple(b.dims) == ("x", "y") and tuple(c.dims) == ("y",)
        yield "a:cell-by-cell", S.forall(0, nx, lambda i: f((S.at(a.values, i), S.at(a0, i))))
        yield "b:cell-by-cell", S.forall_nd([nx, ny], lambda i, j: f((S.at(b.values, i, j), S.at(b0, i, j))))
        yield "c:cell-by-cell", S.forall(0, ny, lambda j: f((S.at(c.values, j), S.at(c0, j))))
        for cl in unchanged_ds(S, ds, snap):
            yield ("operand:" + cl[0],) + tuple(cl[1:])

    def canaries(self, S, case, env, result):
        yield "result-has-no-y-labels", S.n(result.axes["y"].values) == 0


class DatasetReduce(Contract):
    """ds.mean / sum / std / var / median(axis='x') on a Dataset a(x), b(x, y), c(y): for every variable that has x the Dataset
    method makes exactly one call of the DimArray method of the same name with axis='x' (recorded by the harness; what it
    returns is Reduce's contract, C08) and the result holds that call's result -- a scalar for a, an array over y for b --;
    c is unchanged; the result is a Dataset over y alone that satisfies the shared-axes invariant, with y's labels unchanged;
    the operand is untouched.  The real bodies of Dataset.__init__, align and _get_aligned_axes are executed.  [C14]"""
    target = "dimarray.dataset:Dataset._apply_dimarray_axis"
    props = ("C14",)
    inlined = ("Dataset.to_dict", "Dataset.__init__", "align", "_get_aligned_axes", "_common_axis", "Axis.union", "Dataset.__setitem__ (own contract, C13)")
    max_paths = 900

    def cases(self, tier):
        for op in ("mean", "sum", "std", "var", "median"):
            for by in ("name", "position"):
                if tier == "quick" and by == "position" and op != "mean":
                    continue
                yield {"name": "%s-axis_by_%s" % (op, by), "op": op, "by": by}

    bound_names = ("ds.x.n", "ds.y.n")

    def setup(self, S, case):
        ds, labels = make_dataset(S, "a(x),b(x,y),c(y)")
        S.assume(S.n(labels["x"]) >= 1, "something to reduce")
        for ax in ds.axes:
            S.tag(ax.values, "order", "unique")
        return {"ds": ds, "labels": labels, "snap": snapshot_ds(S, ds), "calls": []}

    def call(self, fn, env):
        case, ds = env["case"], env["ds"]
        cls = type(_var(ds, "a"))
        owner = [k for k in cls.__mro__ if case["op"] in k.__dict__][0]
        raw = owner.__dict__[case["op"]]              # the reductions are descriptors (_NumpyDesc), not plain functions

        def recording(self_, *a, **k):
            r = raw.__get__(self_, type(self_))(*a, **k)
            env["calls"].append((self_, a, k, r))
            return r
        setattr(owner, case["op"], recording)
        try:
            return getattr(ds, case["op"])(axis="x" if case["by"] == "name" else 0)
        finally:
            setattr(owner, case["op"], raw)

    def post(self, S, case, env, result):
        ds, labels, snap = env["ds"], env["labels"], env["snap"]
        Y = labels["y"]
        ny = S.n(Y)
        calls = env["calls"]
        va, vb = snap["vars"]["a"], snap["vars"]["b"]
        ok = len(calls) == 2 and calls[0][0] is va and calls[1][0] is vb and all(c[1] == () and c[2] == {"axis": "x"} for c in calls)
        yield "one-call-of-the-dimarray-method-per-variable-that-has-x", ok
        if not ok:
            return
        ra, rb = calls[0][3], calls[1][3]
        yield "returns-a-new-dataset", type(result) is type(ds) and result is not ds
        ok = sorted(dict.keys(result)) == ["a", "b", "c"] and [ax.name for ax in result.axes] == ["y"]
        yield "same-variables-over-y-alone", ok
        if not ok:
            return
        for c in ds_inv(S, result):
            yield c
        a, b, c = _var(result, "a"), _var(result, "b"), _var(result, "c")
        Yr = result.axes["y"].values
        yield "y-labels-unchanged", S.land(S.n(Yr) == ny, S.forall(0, ny, lambda j: S.implies(j < S.n(Yr), lambda: S.at(Yr, j) == S.at(Y, j))))
        yield "a:holds-the-scalar-the-dimarray-method-returned", S.land(tuple(a.dims) == (), S.lnot(S.is_dimarray(ra)), S.same(S.at(a.values), ra))
        yield "b:holds-the-array-the-dimarray-method-returned", S.land(tuple(b.dims) == ("y",), S.is_dimarray(rb), S.forall(0, ny, lambda j: S.same(S.at(b.values, j), S.at(rb.values, j))))
        yield "c:variable-without-the-axis-unchanged", S.land(tuple(c.dims) == ("y",), S.n(c.values) == ny, S.forall(0, ny, lambda j: S.same(S.at(c.values, j), S.at(snap["data"]["c"], j))))
        for cl in unchanged_ds(S, ds, snap):
            yield ("operand:" + cl[0],) + tuple(cl[1:])

    def canaries(self, S, case, env, result):
        yield "result-has-no-y-labels", S.n(result.axes["y"].values) == 0



def _second_dataset(S, labels, own_x=False):
    """another Dataset a(x), b(x, y), c(y) with its own data, over the SAME y labels and (unless own_x) the same x labels"""
    da = S.da
    labs = dict(labels)
    if own_x:
        L = S.array1d("ds2.x", KIND["x"])
        assume_order(S, L, "unique")
        labs["x"] = L
    ds = da.Dataset()
    for key, dims in STATES["a(x),b(x,y),c(y)"]:
        axes = [da.Axis(S.snapshot_array(labs[d]) if hasattr(S, "snapshot_array") else labs[d].copy(), d) for d in dims]
        data = S.arraynd("ds2.%s.data" % key, "f", tuple(S.n(labs[d]) for d in dims))
        ds[key] = da.DimArray(data, axes=axes)
    return ds, labs


class DatasetJoin(Contract):
    """stack_ds([ds1, ds2], axis='k', keys=['u', 'v']) and concatenate_ds([ds1, ds2], axis='x') for two Datasets a(x), b(x, y),
    c(y) with their own data: every variable of the result is what stack / concatenate (C12) give for that variable's pair --
    the new dimension first, labelled by the keys, slice j holding dataset j's variable; respectively the x labels one after
    the other and each variable's block j holding dataset j's cells --; concatenate_ds leaves the variable without x as it
    is in the first dataset; the result satisfies the shared-axes invariant; the operands are untouched.  [C14]"""
    target = "dimarray.dataset:stack_ds"
    props = ("C14",)
    inlined = ("_check_stack_args", "_check_stack_axis", "stack / concatenate (own contracts: Stack, Concatenate, C12)", "Dataset.__setitem__ (own contract, C13)")
    max_paths = 900

    def cases(self, tier):
        yield {"name": "stack_ds", "op": "stack_ds"}
        yield {"name": "concatenate_ds-by-name", "op": "concatenate_ds", "by": "name"}
        yield {"name": "concatenate_ds-default-axis", "op": "concatenate_ds", "by": "default"}

    bound_names = ("ds.x.n", "ds.y.n", "ds2.x.n")

    def setup(self, S, case):
        ds1, labels = make_dataset(S, "a(x),b(x,y),c(y)")
        ds2, labels2 = _second_dataset(S, labels, own_x=case["op"] == "concatenate_ds")
        return {"ds1": ds1, "ds2": ds2, "labels": labels, "labels2": labels2, "snap1": snapshot_ds(S, ds1), "snap2": snapshot_ds(S, ds2)}

    def call(self, fn, env):
        import importlib
        mod = importlib.import_module("dimarray.dataset")
        case = env["case"]
        if case["op"] == "stack_ds":
            return mod.stack_ds([env["ds1"], env["ds2"]], axis="k", keys=["u", "v"])
        if case["by"] == "name":
            return mod.concatenate_ds([env["ds1"], env["ds2"]], axis="x")
        return mod.concatenate_ds([env["ds1"], env["ds2"]])

    def post(self, S, case, env, result):
        ds1, ds2, s1, s2 = env["ds1"], env["ds2"], env["snap1"], env["snap2"]
        X, Y, X2 = env["labels"]["x"], env["labels"]["y"], env["labels2"]["x"]
        nx, ny, nx2 = S.n(X), S.n(Y), S.n(X2)
        yield "returns-a-new-dataset", type(result) is type(ds1) and result is not ds1 and result is not ds2
        stack = case["op"] == "stack_ds"
        ok = sorted(dict.keys(result)) == ["a", "b", "c"] and sorted(ax.name for ax in result.axes) == (["k", "x", "y"] if stack else ["x", "y"])
        yield "same-variables;dimensions", ok
        if not ok:
            return
        for c in ds_inv(S, result):
            yield c
        a, b, c = _var(result, "a"), _var(result, "b"), _var(result, "c")
        d1, d2 = s1["data"], s2["data"]
        Xr, Yr = result.axes["x"].values, result.axes["y"].values
        yield "y-labels-unchanged", S.land(S.n(Yr) == ny, S.forall(0, ny, lambda j: S.implies(j < S.n(Yr), lambda: S.at(Yr, j) == S.at(Y, j))))
        if stack:
            K = result.axes["k"].values
            yield "new-axis-labelled-by-the-keys", S.land(S.n(K) == 2, S.at(K, 0) == "u", S.at(K, 1) == "v")
            yield "x-labels-unchanged", S.land(S.n(Xr) == nx, S.forall(0, nx, lambda i: S.implies(i < S.n(Xr), lambda: S.at(Xr, i) == S.at(X, i))))
            yield "dims-of-the-variables", tuple(a.dims) == ("k", "x") and tuple(b.dims) == ("k", "x", "y") and tuple(c.dims) == ("k", "y")
            for t, d in ((0, d1), (1, d2)):
                yield "a:slice-%d-holds-dataset-%d" % (t, t), S.forall(0, nx, lambda i, d=d, t=t: S.same(S.at(a.values, t, i), S.at(d["a"], i)))
                yield "b:slice-%d-holds-dataset-%d" % (t, t), S.forall_nd([nx, ny], lambda i, j, d=d, t=t: S.same(S.at(b.values, t, i, j), S.at(d["b"], i, j)))
                yield "c:slice-%d-holds-dataset-%d" % (t, t), S.forall(0, ny, lambda j, d=d, t=t: S.same(S.at(c.values, t, j), S.at(d["c"], j)))
        else:
            yield "x-labels-one-after-the-other", S.land(S.n(Xr) == nx + nx2,
                                                       S.forall(0, nx, lambda i: S.implies(i < S.n(Xr), lambda: S.at(Xr, i) == S.at(X, i))),
                                                       S.forall(0, nx2, lambda i: S.implies(nx + i < S.n(Xr), lambda: S.at(Xr, nx + i) == S.at(X2, i))))
            yield "dims-of-the-variables", tuple(a.dims) == ("x",) and tuple(b.dims) == ("x", "y") and tuple(c.dims) == ("y",)
            yield "a:block-0", S.forall(0, nx, lambda i: S.same(S.at(a.values, i), S.at(d1["a"], i)))
            yield "a:block-1", S.forall(0, nx2, lambda i: S.same(S.at(a.values, nx + i), S.at(d2["a"], i)))
            yield "b:block-0", S.forall_nd([nx, ny], lambda i, j: S.same(S.at(b.values, i, j), S.at(d1["b"], i, j)))
            yield "b:block-1", S.forall_nd([nx2, ny], lambda i, j: S.same(S.at(b.values, nx + i, j), S.at(d2["b"], i, j)))
            yield "c:variable-without-the-axis-is-the-first-datasets", S.forall(0, ny, lambda j: S.same(S.at(c.values, j), S.at(d1["c"], j)))
        for cl in unchanged_ds(S, ds1, s1):
            yield ("operand-1:" + cl[0],) + tuple(cl[1:])
        for cl in unchanged_ds(S, ds2, s2):
            yield ("operand-2:" + cl[0],) + tuple(cl[1:])

    def canaries(self, S, case, env, result):
        yield "result-has-no-y-labels", S.n(result.axes["y"].values) == 0


class DatasetConstruct(Contract):
    """Dataset(a=A, b=B) for A over x and B over (x, y) with their OWN x labels: constructing a Dataset aligns its inputs first
    (outer join) -- the result satisfies the shared-axes invariant; on the dataset's x axis every variable holds, at each
    label it had, the cell it had there, and NaN at the labels only the other variable had; y is B's; the input arrays are
    untouched.  The real bodies of Dataset.__init__ and align are executed; _get_aligned_axes and reindex_axis are used
    through their contracts.  (That the x axis holds each label of either input once is AxisUnion's contract, C06.)  [C13]"""
    target = "dimarray.dataset:Dataset"
    props = ("C13",)
    max_paths = 900

    @property
    def uses(self):
        if not hasattr(self, "_u"):
            from dverif.stubs import stub_of
            from .align import ReindexAxis, GetAlignedAxes
            self._u = (stub_of(ReindexAxis), stub_of(GetAlignedAxes))
        return self._u

    inlined = ("Dataset.__init__", "align (own contract: Align, C06)", "Dataset.__setitem__ (own contract)")

    def cases(self, tier):
        for form in ("kwargs", "dict"):
            yield {"name": "a(x),b(x,y)-own-labels-%s" % form, "form": form}

    bound_names = ("A.x.n", "B.x.n", "B.y.n")

    def setup(self, S, case):
        da = S.da
        XA, XB, Y = S.array1d("A.x", "f"), S.array1d("B.x", "f"), S.array1d("B.y", "O")
        for L in (XA, XB, Y):
            assume_order(S, L, "unique")
        A = da.DimArray(S.arraynd("A.data", "f", (S.n(XA),)), axes=[da.Axis(XA, "x")])
        B = da.DimArray(S.arraynd("B.data", "f", (S.n(XB), S.n(Y))), axes=[da.Axis(XB, "x"), da.Axis(Y, "y")])
        return {"A": A, "B": B, "XA": XA, "XB": XB, "Y": Y, "oldA": S.snapshot(A.values), "oldB": S.snapshot(B.values),
                "axesA": list(A.axes), "axesB": list(B.axes)}

    def call(self, fn, env):
        Dataset = env["S"].da.Dataset
        if env["case"]["form"] == "kwargs":
            return Dataset(a=env["A"], b=env["B"])
        return Dataset({"a": env["A"], "b": env["B"]})

    def raises(self, S, case, env):
        return {IndexError: False}

    def post(self, S, case, env, result):
        from .common import absent
        XA, XB, Y = env["XA"], env["XB"], env["Y"]
        ok = sorted(dict.keys(result)) == ["a", "b"] and [ax.name for ax in result.axes] == ["x", "y"]
        yield "variables-and-dimensions", ok
        if not ok:
            return
        for c in ds_inv(S, result):
            yield c
        a, b = _var(result, "a"), _var(result, "b")
        Xr, Yr = result.axes["x"].values, result.axes["y"].values
        m, ny = S.n(Xr), S.n(Y)
        yield "y-is-the-second-inputs", S.land(S.n(Yr) == ny, S.forall(0, ny, lambda j: S.implies(j < S.n(Yr), lambda: S.at(Yr, j) == S.at(Y, j))))
        yield "a:cells-stay-at-their-labels", S.forall(0, m, lambda k: S.forall(0, S.n(XA), lambda p: S.implies(S.at(XA, p) == S.at(Xr, k), lambda: S.same(S.at(a.values, k), S.at(env["oldA"], p)))))
        yield "a:nan-at-labels-it-did-not-have", S.forall(0, m, lambda k: S.implies(absent(S, XA, S.at(Xr, k)), lambda: S.isnan(S.at(a.values, k))))
        yield "b:slices-stay-at-their-labels", S.forall_nd([m, ny], lambda k, j: S.forall(0, S.n(XB), lambda p: S.implies(S.at(XB, p) == S.at(Xr, k), lambda: S.same(S.at(b.values, k, j), S.at(env["oldB"], p, j)))))
        yield "b:nan-at-labels-it-did-not-have", S.forall_nd([m, ny], lambda k, j: S.implies(absent(S, XB, S.at(Xr, k)), lambda: S.isnan(S.at(b.values, k, j))))
        A, B = env["A"], env["B"]
        yield "inputs-untouched", S.land(all(u is v for u, v in zip(A.axes, env["axesA"])), all(u is v for u, v in zip(B.axes, env["axesB"])),
                                         A.axes[0].values is XA, B.axes[0].values is XB, B.axes[1].values is Y,
                                         S.forall(0, S.n(XA), lambda p: S.same(S.at(A.values, p), S.at(env["oldA"], p))),
                                         S.forall_nd([S.n(XB), ny], lambda p, j: S.same(S.at(B.values, p, j), S.at(env["oldB"], p, j))))

    def canaries(self, S, case, env, result):
        yield "x-axis-is-empty", S.n(result.axes["x"].values) == 0


class DatasetDimsSetter(Contract):
    """ds.dims = newnames for new names that PERMUTE or SHIFT the existing ones (a new name may be the current name of another
    axis): afterwards the dataset's dimensions are exactly the assigned names in order, every axis object keeps its labels and
    its position (only names change), every variable sees the new name of each of its axes (same objects), the invariant
    holds.  [C13]"""
    target = "dimarray.dataset:Dataset.dims"
    props = ("C13",)

    def cases(self, tier):
        for state, new in (("a(x),b(x,y)", ("y", "x")), ("a(x,y)", ("y", "x")), ("a(x),b(x,y)", ("y", "w")), ("a(x),b(x,y)", ("w", "x")),
                           ("a(x),b(x,y),c(y)", ("y", "x")), ("a(x),b(x,y)", ("x", "y")), ("a(x),b(x,y)", ("u", "v"))):
            yield {"name": "%s|dims=%s" % (state, ",".join(new)), "state": state, "new": list(new)}
        # names that are NOT distinct must be rejected (the dataset stays as it was): no dataset with two dimensions of one name
        for state, new in (("a(x),b(x,y)", ("x", "x")), ("a(x),b(x,y)", ("u", "u")), ("a(x,y)", ("y", "y"))):
            yield {"name": "%s|dims=%s|rejected" % (state, ",".join(new)), "state": state, "new": list(new), "reject": True}
        # rename_axes with a mapping that permutes / shifts the names (all at once), and one that collides (rejected)
        for state, mapper, new in (("a(x),b(x,y)", {"x": "y", "y": "x"}, ("y", "x")), ("a(x,y)", {"x": "y", "y": "w"}, ("y", "w")),
                                   ("a(x),b(x,y),c(y)", {"y": "x", "x": "y"}, ("y", "x")), ("a(x),b(x,y)", {"x": "t"}, ("t", "y"))):
            yield {"name": "%s|rename_axes(%s)" % (state, ",".join("%s>%s" % kv for kv in mapper.items())), "state": state, "new": list(new), "rename_axes": mapper}
        for state, mapper in (("a(x),b(x,y)", {"x": "y"}), ("a(x,y)", {"y": "x"})):
            yield {"name": "%s|rename_axes(%s)|rejected" % (state, ",".join("%s>%s" % kv for kv in mapper.items())), "state": state, "new": None, "reject": True, "rename_axes": mapper}
        for state, (axis, name) in (("a(x),b(x,y)", ("x", "y")), ("a(x),b(x,y)", (1, "x"))):
            yield {"name": "%s|set_axis(name=%s,axis=%s)|rejected" % (state, name, axis), "state": state, "new": None, "reject": True, "set_axis": (axis, name)}

    bound_names = ("ds.x.n", "ds.y.n")

    def setup(self, S, case):
        ds, labels = make_dataset(S, case["state"])
        return {"ds": ds, "labels": labels, "snap": snapshot_ds(S, ds),
                "var_axes": {k: list(dict.__getitem__(ds, k).axes) for k in dict.keys(ds)}}

    def call(self, fn, env):
        case = env["case"]
        if case.get("rename_axes"):
            env["ds"].rename_axes(dict(case["rename_axes"]))
        elif case.get("set_axis"):
            env["ds"].set_axis(name=case["set_axis"][1], axis=case["set_axis"][0])
        else:
            env["ds"].dims = tuple(case["new"])
        return env["ds"]

    def raises(self, S, case, env):
        return {ValueError: bool(case.get("reject"))}

    def post_exc(self, S, case, env, exc):
        for c in ds_inv(S, env["ds"]):
            yield c
        for c in unchanged_ds(S, env["ds"], env["snap"]):
            yield c

    def post(self, S, case, env, result):
        ds, snap, new = env["ds"], env["snap"], case["new"]
        for c in ds_inv(S, ds):
            yield c
        if case.get("reject"):
            return              # (that nothing was raised is reported by the raises clause)
        yield "dimensions-are-exactly-the-assigned-names", [ax.name for ax in ds.axes] == list(new)
        yield "axis-objects-keep-their-position", len(ds.axes) == len(snap["axes"]) and all(a is b for a, b in zip(ds.axes, snap["axes"]))
        for i, ax in enumerate(snap["axes"]):
            old = snap["labels"][snap["dims"][i]]
            yield "labels-of-axis-%d-unchanged" % i, S.land(S.n(ax.values) == S.n(old), S.forall(0, S.n(old), lambda k, ax=ax, old=old: S.implies(
                k < S.n(ax.values), lambda: S.at(ax.values, k) == S.at(old, k))))
        rename = dict(zip(snap["dims"], new))
        for k, axes in env["var_axes"].items():
            v = dict.__getitem__(ds, k)
            olddims = [d for kk, dd in STATES[case["state"]] if kk == k for d in dd]
            yield "variable-%s-sees-the-new-names-on-the-same-axis-objects" % k, tuple(v.dims) == tuple(rename[d] for d in olddims) and all(a is b for a, b in zip(v.axes, axes))
        for c in ds_inv(S, ds):
            yield c

    def canaries(self, S, case, env, result):
        yield "first-axis-is-empty", S.n(env["ds"].axes[0].values) == 0


def _locatemany_stub():
    from dverif.stubs import stub_of
    from . import indexing as ix
    return stub_of(ix.LocateMany, also=("dimarray.core.bases", "dimarray.core.align", "dimarray.dataset"))


class DatasetReindexAxis(Contract):
    """ds.reindex_axis(new, axis='x', fill_value, raise_error, method) on a Dataset a(x), b(x, y), c(y): a new Dataset with the
    same variables; the x axis is exactly `new` (same order, repeats kept); every variable that has x holds, at new[k], the
    operand variable's slice at that label when the label exists and the fill (NaN unless given) otherwise -- with
    method='left' / 'right' instead the slice of the neighbour in sorted order that searchsorted designates --, i.e. exactly
    the clauses of DimArray.reindex_axis (ReindexAxis, C07) for that variable; raise_error=True raises IndexError iff some
    label is missing and nothing else raises; the variable without x and the y axis are unchanged; the result satisfies the
    shared-axes invariant; dataset and variable metadata are carried over; the operand dataset is untouched.  [C14]"""
    target = "dimarray.dataset:Dataset.reindex_axis"
    props = ("C14",)
    uses = (_locatemany_stub(),)
    inlined = ("Dataset.take_axis", "AbstractAxis.loc (array branch)", "reduce_axis", "Axis.__setitem__", "DimArray.put -> _setitem (own contracts, C03)",
               "Dataset.__getitem__", "Dataset.__setitem__ (own contract: DatasetSetItem, C13)", "DimArray.reindex_axis (own contract: ReindexAxis, C07) where the code calls it")
    max_paths = 1500

    def cases(self, tier):
        for given in ("ndarray", "Axis"):
            for by in (("name", "position") if given == "ndarray" else ("name",)):
                for method in (None, "left", "right"):
                    for raise_error in (False, True):
                        if raise_error and (method or by == "position"):
                            continue
                        if given == "Axis" and (method or raise_error):
                            continue
                        yield {"name": "%s-axis_by_%s-method_%s-%s" % (given, by, method, "raise" if raise_error else "fill"), "given": given, "by": by,
                               "method": method, "raise_error": raise_error}
        yield {"name": "ndarray-axis_by_name-method_None-fill_value_given", "given": "ndarray", "by": "name", "method": None, "raise_error": False, "fill_given": True}

    bound_names = ("ds.x.n", "ds.y.n", "new.n")

    def setup(self, S, case):
        from dverif.stubs import stub_of
        ds, labels = make_dataset(S, "a(x),b(x,y),c(y)")
        for k in ("a", "b", "c"):
            _var(ds, k).attrs["units"] = "K"
        new = S.array1d("new", "f")
        given = new if case["given"] == "ndarray" else S.da.Axis(new, "x")
        kw = {}
        if case["given"] == "ndarray":
            kw["axis"] = "x" if case["by"] == "name" else 0
        if case["method"]:
            kw["method"] = case["method"]
        if case["raise_error"]:
            kw["raise_error"] = True
        fill = None
        if case.get("fill_given"):
            fill = S.real("fill")
            kw["fill_value"] = fill
        return {"ds": ds, "labels": labels, "snap": snapshot_ds(S, ds), "new": new, "given": given, "kwargs": kw, "fill": fill}

    def call(self, fn, env):
        return env["ds"].reindex_axis(env["given"], **env["kwargs"])

    def _missing(self, S, env, k):
        from .common import absent
        return absent(S, env["labels"]["x"], S.at(env["new"], k))

    def raises(self, S, case, env):
        if case["raise_error"]:
            return {IndexError: S.exists(0, S.n(env["new"]), lambda k: self._missing(S, env, k))}
        return {IndexError: False}

    def post(self, S, case, env, result):
        ds, labels, snap, new = env["ds"], env["labels"], env["snap"], env["new"]
        X, Y = labels["x"], labels["y"]
        nx, ny, m = S.n(X), S.n(Y), S.n(new)
        yield "returns-a-new-dataset", type(result) is type(ds) and result is not ds
        ok = list(dict.keys(result)) == ["a", "b", "c"] and [ax.name for ax in result.axes] == ["x", "y"]
        yield "same-variables-and-dimensions-in-order", ok
        if not ok:
            return
        for c in ds_inv(S, result):
            yield c
        Xr, Yr = result.axes["x"].values, result.axes["y"].values
        yield "x-is-exactly-the-new-labels", S.land(S.n(Xr) == m, S.forall(0, m, lambda k: S.implies(k < S.n(Xr), lambda: S.at(Xr, k) == S.at(new, k))))
        yield "y-labels-unchanged", S.land(S.n(Yr) == ny, S.forall(0, ny, lambda j: S.implies(j < S.n(Yr), lambda: S.at(Yr, j) == S.at(Y, j))))
        a, b, c = _var(result, "a"), _var(result, "b"), _var(result, "c")
        a0, b0, c0 = snap["data"]["a"], snap["data"]["b"], snap["data"]["c"]
        ok = tuple(a.dims) == ("x",) and tuple(b.dims) == ("x", "y") and tuple(c.dims) == ("y",)
        yield "dims-of-the-variables-kept", ok
        if not ok:
            return
        yield "shapes", S.land(S.n(a.values) == m, S.shape(b.values)[0] == m, S.shape(b.values)[1] == ny)
        method = case["method"]
        if method != "right":
            yield "a:present-labels-keep-their-cell", S.forall(0, m, lambda k: S.forall(0, nx, lambda p: S.implies(
                S.at(X, p) == S.at(new, k), lambda: S.same(S.at(a.values, k), S.at(a0, p)))))
            yield "b:present-labels-keep-their-slice", S.forall_nd([m, ny], lambda k, j: S.forall(0, nx, lambda p: S.implies(
                S.at(X, p) == S.at(new, k), lambda: S.same(S.at(b.values, k, j), S.at(b0, p, j)))))
        if method is None:
            if env["fill"] is not None:
                isfill = lambda v: S.same(v, env["fill"])
            else:
                isfill = lambda v: S.isnan(v)
            yield "a:missing-labels-are-filled", S.forall(0, m, lambda k: S.implies(self._missing(S, env, k), lambda: isfill(S.at(a.values, k))))
            yield "b:missing-labels-are-filled", S.forall_nd([m, ny], lambda k, j: S.implies(self._missing(S, env, k), lambda: isfill(S.at(b.values, k, j))))
        else:
            strict = method == "right"
            above = (lambda u, v: u > v) if strict else (lambda u, v: u >= v)

            def neighbour(k, p):
                x = S.at(new, k)
                is_next = S.land(above(S.at(X, p), x), S.forall(0, nx, lambda i: S.implies(above(S.at(X, i), x), lambda: S.at(X, i) >= S.at(X, p))))
                is_last = S.land(S.forall(0, nx, lambda i: S.lnot(above(S.at(X, i), x))), S.forall(0, nx, lambda i: S.at(X, i) <= S.at(X, p)))
                return S.lor(is_next, is_last)
            yield "a:neighbour-in-sorted-order-as-searchsorted", S.forall(0, m, lambda k: S.forall(0, nx, lambda p: S.implies(
                neighbour(k, p), lambda: S.same(S.at(a.values, k), S.at(a0, p)))))
            yield "b:neighbour-in-sorted-order-as-searchsorted", S.forall_nd([m, ny], lambda k, j: S.forall(0, nx, lambda p: S.implies(
                neighbour(k, p), lambda: S.same(S.at(b.values, k, j), S.at(b0, p, j)))))
        yield "c:variable-without-the-axis-unchanged", S.land(S.n(c.values) == ny, S.forall(0, ny, lambda j: S.same(S.at(c.values, j), S.at(c0, j))))
        yield "variable-metadata-carried-over", all(dict(v.attrs) == {"units": "K"} for v in (a, b, c))
        yield "dataset-metadata-carried-over", dict(result.attrs) == snap["attrs"]
        yield "no-axis-object-shared-with-the-operand", all(ax is not bx for ax in result.axes for bx in snap["axes"])
        for cl in unchanged_ds(S, ds, snap):
            yield ("operand:" + cl[0],) + tuple(cl[1:])

    def canaries(self, S, case, env, result):
        yield "result-has-no-x-labels", S.n(result.axes["x"].values) == 0


class DatasetDatasetOp(Contract):
    """ds1 op ds2 (+ - * /) for two Datasets a(x), b(x, y), c(y) with their own data over EQUAL labels (distinct axis objects):
    a new Dataset holding, for every variable name the two have in common (in ds1's order), NumPy's op of ds1's and ds2's
    cells at every coordinate, over axes with the operands' labels, satisfying the shared-axes invariant; a variable only
    one of them has is left out (the `other-keys` cases: ds2 lacks c and has a d of its own); both operands are untouched.
    (Datasets over DIFFERENT labels are aligned variable by variable first: that composition is exercised by the bounded
    stand-in only.)  [C14, C13]"""
    target = "dimarray.dataset:Dataset._binary_op"
    props = ("C14",)
    inlined = ("OpMixin operators", "Dataset._binary_op", "Dataset.reindex_like -> reindex_like", "DimArray._binary_op -> operation (own contract: Operation, C04)",
               "align (own contract: Align, C06)", "Dataset.__setitem__ (own contract: DatasetSetItem, C13)")
    max_paths = 900

    def cases(self, tier):
        for op in ("add", "subtract", "multiply", "true_divide"):
            for variant in ("same-keys", "other-keys"):
                if tier == "quick" and variant == "other-keys" and op != "subtract":
                    continue
                yield {"name": "%s-%s" % (op, variant), "op": op, "variant": variant}

    bound_names = ("ds.x.n", "ds.y.n")

    def setup(self, S, case):
        ds1, labels = make_dataset(S, "a(x),b(x,y),c(y)")
        ds2, labels2 = _second_dataset(S, labels)
        if case["variant"] == "other-keys":
            del ds2["c"]
            ds2["d"] = S.da.DimArray(S.arraynd("ds2.d.data", "f", (S.n(labels["x"]),)), axes=[S.da.Axis(labels["x"].copy(), "x")])
        return {"ds1": ds1, "ds2": ds2, "labels": labels, "snap1": snapshot_ds(S, ds1), "snap2": snapshot_ds(S, ds2)}

    def call(self, fn, env):
        import operator
        f = {"add": operator.add, "subtract": operator.sub, "multiply": operator.mul, "true_divide": operator.truediv}[env["case"]["op"]]
        return f(env["ds1"], env["ds2"])

    def raises(self, S, case, env):
        return {ValueError: False, IndexError: False}

    def post(self, S, case, env, result):
        ds1, ds2, s1, s2 = env["ds1"], env["ds2"], env["snap1"], env["snap2"]
        X, Y = env["labels"]["x"], env["labels"]["y"]
        nx, ny = S.n(X), S.n(Y)
        keys = ["a", "b", "c"] if case["variant"] == "same-keys" else ["a", "b"]
        yield "returns-a-new-dataset", type(result) is type(ds1) and result is not ds1 and result is not ds2
        ok = list(dict.keys(result)) == keys and sorted(ax.name for ax in result.axes) == ["x", "y"]
        yield "the-common-variables-in-order;dimensions", ok
        if not ok:
            return
        for c in ds_inv(S, result):
            yield c
        Xr, Yr = result.axes["x"].values, result.axes["y"].values
        yield "x-labels-unchanged", S.land(S.n(Xr) == nx, S.forall(0, nx, lambda i: S.implies(i < S.n(Xr), lambda: S.at(Xr, i) == S.at(X, i))))
        yield "y-labels-unchanged", S.land(S.n(Yr) == ny, S.forall(0, ny, lambda j: S.implies(j < S.n(Yr), lambda: S.at(Yr, j) == S.at(Y, j))))
        op = case["op"]
        f = lambda r, u, v: S.same(r, S.op(op, u, v))
        d1, d2 = s1["data"], s2["data"]
        a, b = _var(result, "a"), _var(result, "b")
        ok = tuple(a.dims) == ("x",) and tuple(b.dims) == ("x", "y") and ("c" not in keys or tuple(_var(result, "c").dims) == ("y",))
        yield "dims-of-the-variables-kept", ok
        if not ok:
            return
        yield "a:cell-by-cell", S.land(S.n(a.values) == nx, S.forall(0, nx, lambda i: f(S.at(a.values, i), S.at(d1["a"], i), S.at(d2["a"], i))))
        yield "b:cell-by-cell", S.land(S.shape(b.values)[0] == nx, S.shape(b.values)[1] == ny,
                                       S.forall_nd([nx, ny], lambda i, j: f(S.at(b.values, i, j), S.at(d1["b"], i, j), S.at(d2["b"], i, j))))
        if "c" in keys:
            c = _var(result, "c")
            yield "c:cell-by-cell", S.land(S.n(c.values) == ny, S.forall(0, ny, lambda j: f(S.at(c.values, j), S.at(d1["c"], j), S.at(d2["c"], j))))
        yield "no-axis-object-shared-with-an-operand", all(ax is not bx for ax in result.axes for bx in list(s1["axes"]) + list(s2["axes"]))
        for cl in unchanged_ds(S, ds1, s1):
            yield ("operand-1:" + cl[0],) + tuple(cl[1:])
        for cl in unchanged_ds(S, ds2, s2):
            yield ("operand-2:" + cl[0],) + tuple(cl[1:])

    def canaries(self, S, case, env, result):
        yield "result-has-no-y-labels", S.n(result.axes["y"].values) == 0


def _align_stubs():
    from dverif.stubs import stub_of
    from .align import ReindexAxis, GetAlignedAxes
    return (stub_of(ReindexAxis), stub_of(GetAlignedAxes), _locatemany_stub())


class AlignDataset(Contract):
    """align([ds, other], join, sort) where ds is a Dataset a(x), b(x, y), c(y) and other a DimArray over x or a second
    Dataset (the quantifier's 'and Datasets'): with `common` the axes _get_aligned_axes returns for the two operands, the
    aligned Dataset has exactly the common labels on every aligned dimension, satisfies the shared-axes invariant, and
    each of its variables holds the operand variable's slice at every label it had and NaN elsewhere (the variable without
    the dimension is unchanged); the other operand likewise; outputs in the inputs' order and of the inputs' types; no
    operand is modified.  Dataset.reindex_axis runs as real code (own contract: DatasetReindexAxis, C14).  [C06]"""
    target = "dimarray.core.align:align"
    props = ("C06",)
    uses = _align_stubs()
    inlined = ("Dataset.reindex_axis (own contract: DatasetReindexAxis, C14)", "Dataset.take_axis", "reduce_axis", "Dataset.__setitem__ (own contract, C13)", "Axis.__eq__")
    max_paths = 2500

    def cases(self, tier):
        for other in ("dimarray", "dataset"):
            for join in ("outer", "inner"):
                for sort in (False, True):
                    if tier == "quick" and sort:
                        continue            # (several hundred paths each: thorough tier)
                    yield {"name": "ds|%s-%s-%s" % (other, join, "sort" if sort else "nosort"), "other": other, "join": join, "sort": sort}
        # a variable whose dimension order differs from the dataset's
        yield {"name": "ds(b stored y,x)|dimarray-outer-nosort", "other": "dimarray", "join": "outer", "sort": False, "b_yx": True}

    def bounded_obligations(self, case):
        return ("raises[IndexError]",) if case["join"] == "inner" else ()     # as in Align: rests on AxisIntersection's set-level clause

    bound_names = ("ds.x.n", "ds.y.n", "o.x.n")

    def setup(self, S, case):
        ds, labels = make_dataset(S, "a(x),b(y,x),c(y)" if case.get("b_yx") else "a(x),b(x,y),c(y)")
        ds.attrs["title"] = "t"
        L = S.array1d("o.x", KIND["x"])
        assume_order(S, L, "unique")
        if case["other"] == "dimarray":
            odata = S.arraynd("o.data", "f", (S.n(L),))
            other = S.da.DimArray(odata, axes=[S.da.Axis(L, "x")])
            osnap = S.snapshot(odata)
        else:
            other = S.da.Dataset()
            odata = S.arraynd("o.data", "f", (S.n(L),))
            own = S.snapshot(L)
            S.tag(own, "order", "unique")
            other["a"] = S.da.DimArray(odata, axes=[S.da.Axis(own, "x")])
            osnap = snapshot_ds(S, other)
        return {"ds": ds, "labels": labels, "snap": snapshot_ds(S, ds), "other": other, "olab": L, "odata": odata, "osnap": osnap}

    def call(self, fn, env):
        import importlib
        mod = importlib.import_module("dimarray.core.align")
        case = env["case"]
        return mod.align([env["ds"], env["other"]], join=case["join"], sort=case["sort"])

    def raises(self, S, case, env):
        return {IndexError: False, ValueError: False}

    def post(self, S, case, env, result):
        from .common import absent
        ds, snap, labels = env["ds"], env["snap"], env["labels"]
        X, Y, OX = labels["x"], labels["y"], env["olab"]
        calls = [cl for cl in S.calls("GetAlignedAxes") if any(o is ds for o in cl[2]["arrays"])]     # (Dataset() inside reduce_axis aligns nothing: not that call)
        if calls:
            common = calls[0][3]
            yield "join-and-sort-forwarded", calls[0][2]["join"] == case["join"] and bool(calls[0][2]["sort"]) == case["sort"] and len(calls) == 1
        else:
            import importlib
            common = importlib.import_module("dimarray.core.align")._get_aligned_axes([ds, env["other"]], join=case["join"], sort=case["sort"])
        C = {ax.name: ax.values for ax in common}
        ok = isinstance(result, list) and len(result) == 2 and type(result[0]) is type(ds) and type(result[1]) is type(env["other"])
        yield "one-output-per-input-in-order-and-of-its-type", ok
        if not ok:
            return
        out, oth = result
        ok = list(dict.keys(out)) == ["a", "b", "c"] and sorted(ax.name for ax in out.axes) == ["x", "y"]
        yield "dataset:same-variables-and-dimensions", ok
        if not ok:
            return
        for c in ds_inv(S, out):
            yield c
        Xr, Yr = out.axes["x"].values, out.axes["y"].values
        CX, CY = C["x"], C["y"]
        same_labels = lambda A, B: S.land(S.n(A) == S.n(B), S.forall(0, S.n(B), lambda j: S.implies(j < S.n(A), lambda: S.at(A, j) == S.at(B, j))))
        yield "dataset:x-is-the-common-axis", same_labels(Xr, CX)
        yield "dataset:y-is-the-common-axis", same_labels(Yr, CY)
        a, b, c = _var(out, "a"), _var(out, "b"), _var(out, "c")
        a0, b0, c0 = snap["data"]["a"], snap["data"]["b"], snap["data"]["c"]
        yx = bool(case.get("b_yx"))
        ok = tuple(a.dims) == ("x",) and tuple(b.dims) == (("y", "x") if yx else ("x", "y")) and tuple(c.dims) == ("y",)
        yield "dataset:dims-of-the-variables-kept", ok
        if not ok:
            return
        bat = (lambda arr, k, j: S.at(arr, j, k)) if yx else (lambda arr, k, j: S.at(arr, k, j))       # b's cell at (x position k, y position j)
        nx, ny, m, my = S.n(X), S.n(Y), S.n(CX), S.n(CY)
        yield "a:present-labels-keep-their-cell", S.forall(0, m, lambda k: S.forall(0, nx, lambda p: S.implies(S.at(X, p) == S.at(CX, k), lambda: S.same(S.at(a.values, k), S.at(a0, p)))))
        yield "a:missing-labels-are-nan", S.forall(0, m, lambda k: S.implies(absent(S, X, S.at(CX, k)), lambda: S.isnan(S.at(a.values, k))))
        yield "b:present-labels-keep-their-cell", S.forall_nd([m, my], lambda k, j: S.forall(0, nx, lambda p: S.forall(0, ny, lambda q: S.implies(
            S.land(S.at(X, p) == S.at(CX, k), S.at(Y, q) == S.at(CY, j)), lambda: S.same(bat(b.values, k, j), bat(b0, p, q))))))
        yield "b:missing-labels-are-nan", S.forall_nd([m, my], lambda k, j: S.implies(
            S.lor(absent(S, X, S.at(CX, k)), absent(S, Y, S.at(CY, j))), lambda: S.isnan(bat(b.values, k, j))))
        yield "c:present-labels-keep-their-cell", S.forall(0, my, lambda j: S.forall(0, ny, lambda q: S.implies(S.at(Y, q) == S.at(CY, j), lambda: S.same(S.at(c.values, j), S.at(c0, q)))))
        yield "dataset-metadata-carried-over", dict(out.attrs) == snap["attrs"]
        # the other operand
        ov = oth.values if case["other"] == "dimarray" else _var(oth, "a").values
        oL = oth.axes[0].values if case["other"] == "dimarray" else oth.axes["x"].values
        o0 = env["osnap"] if case["other"] == "dimarray" else env["osnap"]["data"]["a"]
        yield "other:x-is-the-common-axis", same_labels(oL, CX)
        yield "other:present-labels-keep-their-cell", S.forall(0, m, lambda k: S.forall(0, S.n(OX), lambda p: S.implies(S.at(OX, p) == S.at(CX, k), lambda: S.same(S.at(ov, k), S.at(o0, p)))))
        yield "other:missing-labels-are-nan", S.forall(0, m, lambda k: S.implies(absent(S, OX, S.at(CX, k)), lambda: S.isnan(S.at(ov, k))))
        for cl in unchanged_ds(S, ds, snap):
            yield ("operand-dataset:" + cl[0],) + tuple(cl[1:])
        if case["other"] == "dataset":
            for cl in unchanged_ds(S, env["other"], env["osnap"]):
                yield ("operand-other:" + cl[0],) + tuple(cl[1:])
        else:
            o = env["other"]
            yield "operand-other:untouched", S.land(o.values is env["odata"], S.forall(0, S.n(OX), lambda p: S.same(S.at(o.values, p), S.at(env["osnap"], p))),
                                                    same_labels(o.axes[0].values, OX))

    def canaries(self, S, case, env, result):
        yield "returns-the-inputs-themselves", result[0] is env["ds"] and result[1] is env["other"]
