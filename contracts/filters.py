"""Contracts restricted to some of their clauses: the same cases, setup, call and paths, with only the clauses a property is
about as the postcondition (C15: frame clauses; C16: metadata clauses).  Created at import so that the native runner finds
them by name."""
import re
import sys

from . import transform, regroup, join, arith, interp, reshape, missing, align, dataset


def clauses_only(cls, pattern, prop, suffix):
    rx = re.compile(pattern)

    def post(self, S, case, env, result):
        for clause in cls.post(self, S, case, env, result):
            if rx.search(clause[0]):
                yield clause

    def canaries(self, S, case, env, result):
        return ()

    def raises(self, S, case, env):
        # when and what an operation raises is decided by the operation's own property
        return {Exception: (False, True)}

    def known_regions(self, S, case, env):
        return {}

    name = cls.__name__ + suffix
    W = type(name, (cls,), {"post": post, "canaries": canaries, "raises": raises, "known_regions": known_regions, "props": (prop,),
                            "bounded_clauses": (), "__module__": __name__, "bounded_obligations": lambda self, case: (),
                            "__doc__": "The clauses of %s matching /%s/, on every path and for every input of its cases.  [%s]\n\n%s" % (
                                cls.__name__, pattern, prop, (cls.__doc__ or "").strip())})
    setattr(sys.modules[__name__], name, W)
    return W


FRAME = r"untouched"
META = r"metadata"

FRAME_CONTRACTS = [clauses_only(c, FRAME, "C15", "Frame") for c in (
    transform.Reduce, transform.ReduceTuple, transform.Cumulative, transform.ArgExtremum, transform.Diff,
    regroup.Flatten, regroup.Unflatten, regroup.Reshape, join.Stack, join.Concatenate, arith.ScalarOperation, arith.Operation,
    interp.Interp1D, reshape.RollAxis, missing.FillNa, missing.SetNa, missing.CompressAxis, missing.DropNa1D,
    align.ReindexAxis, align.ReindexLike, reshape.Broadcast, reshape.BroadcastArrays, missing.DropNaND, arith.Comparison, arith.UnaryOperation)]

META_CONTRACTS = [clauses_only(c, META, "C16", "Meta") for c in (
    transform.Reduce, transform.ReduceTuple, transform.Cumulative, transform.Diff,
    regroup.Flatten, regroup.Unflatten, regroup.Reshape, join.Stack, join.Concatenate, arith.ScalarOperation, arith.Operation,
    interp.Interp1D, reshape.Transpose, reshape.SwapAxes, reshape.RollAxis, reshape.NewAxis, reshape.Squeeze, reshape.Repeat,
    missing.FillNa, missing.SetNa, missing.CompressAxis, missing.DropNa1D, align.ReindexAxis, align.ReindexLike, reshape.Broadcast, arith.Comparison, arith.UnaryOperation)]


# renaming with inplace=False (set_axis) leaves the receiver untouched (Rename is C05's contract; this clause of it is C15's)
from . import wellformed as _wf
FRAME_CONTRACTS.append(clauses_only(_wf.Rename, r"receiver-untouched", "C15", "Frame"))

# Dataset construction and Dataset-wide operations leave their operands untouched (the clauses named operand:... / inputs-untouched)
FRAME_CONTRACTS += [clauses_only(c, r"untouched|^operand", "C15", "Frame") for c in (
    dataset.DatasetTake, dataset.DatasetTakeAxis, dataset.DatasetScalarOp, dataset.DatasetReduce, dataset.DatasetJoin, dataset.DatasetConstruct, dataset.DatasetReindexAxis, dataset.DatasetDatasetOp)]
