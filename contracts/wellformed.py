"""Contracts for C05: well-formedness of every produced array, constructor argument forms, no stale cached state."""
import sys

from dverif.contract_base import Contract
from .common import assume_order
from .bases import DIM_KINDS


def well_formed(S, a):
    """one axis per array dimension, each one-dimensional with the length of that dimension; names distinct non-empty strings"""
    shape = S.shape(a.values)
    axes = list(a.axes)
    names = [ax.name for ax in axes]
    if len(axes) != len(shape) or not all(isinstance(n, str) and n for n in names) or len(set(names)) != len(names):
        return False
    def one(d, ax):
        if type(ax).__name__ == "MultiAxis":
            # a grouped axis builds its labels lazily (MultiAxisLabels: bounded stand-in); its length is the product of its members'
            return ax.size == shape[d]
        return S.land(len(S.shape(ax.values)) == 1, S.n(ax.values) == shape[d])
    return S.land(True, *[one(d, ax) for d, ax in enumerate(axes)])


def wf_clauses(S, result):
    items = list(result) if isinstance(result, (list, tuple)) else [result]
    arrays = [x for x in items if S.is_dimarray(x)]
    for i, a in enumerate(arrays):
        yield "result%s-well-formed" % ("" if len(arrays) == 1 else "-%d" % i), well_formed(S, a)
        # "answers every further operation like a freshly constructed array": a fresh array accepts assignment
        yield "result%s-accepts-assignment-like-a-fresh-array" % ("" if len(arrays) == 1 else "-%d" % i), S.writable(a.values)


def _labels(S, rank, prefix=""):
    labs = []
    for d in range(rank):
        L = S.array1d("%slab%d" % (prefix, d), DIM_KINDS[d])
        assume_order(S, L, "unique")
        labs.append(L)
    return labs


FORMS = ("pairs", "axis-objects", "lists+dims", "arrays-default-names", "dict+dims", "labels+dims", "axes-instance", "pairs-as-lists")
FORMS_1D = ("single-pair", "bare-labels+dim")


class Construct(Contract):
    """DimArray(values, ...) for every documented way of giving the same axes -- (name, labels) pairs, Axis objects, label
    lists plus dims=, a dict plus dims=, labels= plus dims=, an Axes instance, and for one dimension a single pair or bare
    labels with dims='name' -- : whenever the data's shape agrees with the axes the result is well-formed and EQUAL for all
    forms: dims are the names in order, the labels are the given labels, the values are the given values, no metadata;
    when the shape of the data disagrees with the axes on any dimension, or two dimensions get the same name, an
    exception is raised (no ill-formed array is ever returned).  [C05]"""
    target = "dimarray.core.dimarraycls:DimArray"
    props = ("C05",)
    inlined = ("DimArray.__init__", "Axes._init", "_init_axes", "Axes.from_arrays", "Axes.from_dict", "Axes.append", "Axis.as_axis", "Axis.__init__",
               "_check_axis_values", "Axes.sort")

    def cases(self, tier):
        for rank in (1, 2, 3):
            if rank == 3 and tier == "quick":
                continue
            for form in FORMS + (FORMS_1D if rank == 1 else ()):
                for dup in (False, True) if rank >= 2 else (False,):
                    if dup and form in ("dict+dims", "arrays-default-names"):
                        continue          # a dict cannot hold a name twice; default names are distinct
                    yield {"name": "r%d-%s%s" % (rank, form, "-duplicate-name" if dup else ""), "rank": rank, "form": form, "dup": dup}

    def bound_lengths(self, case):
        return ["lab%d.n" % d for d in range(case["rank"])] + ["m%d" % d for d in range(case["rank"])]

    def setup(self, S, case):
        rank = case["rank"]
        labs = _labels(S, rank)
        m = [S.length("m%d" % d) for d in range(rank)]
        data = S.arraynd("data", "f", tuple(m))
        names = ["x%d" % d for d in range(rank)]
        if case["dup"]:
            names[-1] = names[0]
        if case["form"] == "arrays-default-names":
            names = ["x%d" % d for d in range(rank)]
        return {"labels": labs, "m": m, "data": data, "names": names, "old": S.snapshot(data)}

    def call(self, fn, env):
        case, L, names, data = env["case"], env["labels"], env["names"], env["data"]
        DimArray, Axis, Axes = env["S"].da.DimArray, env["S"].da.Axis, env["S"].da.Axes
        f = case["form"]
        if f == "pairs":
            return DimArray(data, axes=[(n, l) for n, l in zip(names, L)])
        if f == "pairs-as-lists":
            return DimArray(data, axes=[(n, l) for n, l in zip(names, L)], copy=True)
        if f == "axis-objects":
            return DimArray(data, axes=[Axis(l, n) for n, l in zip(names, L)])
        if f == "lists+dims":
            return DimArray(data, axes=list(L), dims=list(names))
        if f == "arrays-default-names":
            return DimArray(data, axes=list(L))
        if f == "dict+dims":
            return DimArray(data, axes=dict(zip(names, L)), dims=list(names))
        if f == "labels+dims":
            return DimArray(data, labels=list(L), dims=tuple(names))
        if f == "axes-instance":
            return DimArray(data, axes=Axes([Axis(l, n) for n, l in zip(names, L)]))
        if f == "single-pair":
            return DimArray(data, axes=(names[0], L[0]))
        if f == "bare-labels+dim":
            return DimArray(data, axes=L[0], dims=names[0])
        raise AssertionError(f)

    def raises(self, S, case, env):
        mismatch = S.lor(*[env["m"][d] != S.n(env["labels"][d]) for d in range(case["rank"])])
        if case["dup"]:
            return {Exception: True}
        return {Exception: mismatch}

    def post(self, S, case, env, result):
        rank = case["rank"]
        yield "is-dimarray", S.is_dimarray(result)
        for c in wf_clauses(S, result):
            yield c
        yield "dims-are-the-names-in-order", tuple(result.dims) == tuple(env["names"])
        for d in range(rank):
            Lr, L = result.axes[d].values, env["labels"][d]
            yield "x%d:labels-are-the-given-labels" % d, S.land(S.n(Lr) == S.n(L), S.forall(0, S.n(L), lambda k, Lr=Lr, L=L: S.implies(k < S.n(Lr), lambda: S.at(Lr, k) == S.at(L, k))))
        yield "values-are-the-given-values", S.forall_nd(env["m"], lambda *k: S.same(S.at(result.values, *k), S.at(env["old"], *k)))
        yield "no-metadata", len(result.attrs) == 0

    def canaries(self, S, case, env, result):
        yield "first-dimension-is-empty", S.n(result.axes[0].values) == 0


class Helpers(Contract):
    """zeros / ones / empty / nans(axes=..., dims=...), (dims=, shape=) and zeros_like / ones_like / empty_like / nans_like(a): a
    well-formed array over exactly the axes a DimArray built with the same axes arguments has (a's axes for *_like, a
    itself untouched and its buffer not shared), filled with 0 / 1 / anything / NaN.  [C05]"""
    target = "dimarray.core.dimarraycls:empty"
    props = ("C05",)
    inlined = ("empty", "zeros", "ones", "nans", "empty_like", "zeros_like", "ones_like", "nans_like", "Axes._init", "DimArray.__init__")

    def cases(self, tier):
        for helper in ("zeros", "ones", "empty", "nans"):
            for rank in (1, 2):
                for form in ("pairs", "axis-objects", "lists+dims", "dims+shape", "like"):
                    yield {"name": "%s-r%d-%s" % (helper, rank, form), "helper": helper, "rank": rank, "form": form}

    def bound_lengths(self, case):
        return ["lab%d.n" % d for d in range(case["rank"])]

    def setup(self, S, case):
        return {"labels": _labels(S, case["rank"]), "names": ["x%d" % d for d in range(case["rank"])]}

    def call(self, fn, env):
        import importlib
        case, L, names, S = env["case"], env["labels"], env["names"], env["S"]
        mod = importlib.import_module("dimarray.core.dimarraycls")
        h = getattr(mod, case["helper"])
        f = case["form"]
        if f == "pairs":
            return h(axes=[(n, l) for n, l in zip(names, L)])
        if f == "axis-objects":
            return h(axes=[S.da.Axis(l, n) for n, l in zip(names, L)])
        if f == "lists+dims":
            return h(axes=list(L), dims=list(names))
        if f == "like":
            # zeros_like(a) / ones_like(a) / empty_like(a) / nans_like(a): over the axes of an existing array, which stays as it was
            a = S.da.DimArray(S.arraynd("like.data", "f", tuple(S.n(l) for l in L)), axes=[(n, l) for n, l in zip(names, L)])
            env["like"], env["like_data"] = a, S.snapshot(a.values)
            return getattr(mod, case["helper"] + "_like")(a)
        return h(dims=tuple(names), shape=tuple(S.n(l) for l in L))

    def post(self, S, case, env, result):
        rank = case["rank"]
        yield "is-dimarray", S.is_dimarray(result)
        for c in wf_clauses(S, result):
            yield c
        yield "dims-are-the-names-in-order", tuple(result.dims) == tuple(env["names"])
        for d in range(rank):
            Lr, L = result.axes[d].values, env["labels"][d]
            if case["form"] == "dims+shape":
                yield "x%d:default-labels-0..n-1" % d, S.land(S.n(Lr) == S.n(L), S.forall(0, S.n(L), lambda k, Lr=Lr: S.implies(k < S.n(Lr), lambda: S.at(Lr, k) == k)))
            else:
                yield "x%d:labels-are-the-given-labels" % d, S.land(S.n(Lr) == S.n(L), S.forall(0, S.n(L), lambda k, Lr=Lr, L=L: S.implies(k < S.n(Lr), lambda: S.at(Lr, k) == S.at(L, k))))
        shape = [S.n(l) for l in env["labels"]]
        fill = {"zeros": 0, "ones": 1}.get(case["helper"])
        if fill is not None:
            yield "filled", S.forall_nd(shape, lambda *k: S.at(result.values, *k) == fill)
        elif case["helper"] == "nans":
            yield "filled", S.forall_nd(shape, lambda *k: S.isnan(S.at(result.values, *k)))
        if case["form"] == "like":
            a = env["like"]
            yield "like:a-new-array-with-its-own-buffer", S.land(result is not a, S.lnot(S.same_buffer(result.values, a.values)))
            yield "like:the-model-array-is-untouched", S.land(
                tuple(a.dims) == tuple(env["names"]), S.forall_nd(shape, lambda *k: S.same(S.at(a.values, *k), S.at(env["like_data"], *k))),
                *[S.land(S.n(a.axes[d].values) == S.n(env["labels"][d]),
                         S.forall(0, S.n(env["labels"][d]), lambda k, d=d: S.at(a.axes[d].values, k) == S.at(env["labels"][d], k))) for d in range(rank)])

    def canaries(self, S, case, env, result):
        yield "first-dimension-is-empty", S.n(result.axes[0].values) == 0


class AxesSetter(Contract):
    """a.axes = X for X an Axes instance, a list of Axis objects, a list of (name, labels) pairs or a list of label arrays:
    either the new axes have exactly the array's shape and the array stays well-formed with the new labels, or an exception
    is raised and -- [C05]"""
    target = "dimarray.core.dimarraycls:DimArray.axes"
    props = ("C05",)
    inlined = ("DimArray.axes.fset", "Axes._init")

    def cases(self, tier):
        for rank in (1, 2):
            for form in ("axes-instance", "axis-objects", "pairs", "arrays"):
                yield {"name": "r%d-%s" % (rank, form), "rank": rank, "form": form}

    def bound_lengths(self, case):
        return ["lab%d.n" % d for d in range(case["rank"])] + ["newlab%d.n" % d for d in range(case["rank"])]

    def setup(self, S, case):
        rank = case["rank"]
        labs = _labels(S, rank)
        data = S.arraynd("data", "f", tuple(S.n(l) for l in labs))
        arr = S.da.DimArray(data, axes=[S.da.Axis(l, "x%d" % d) for d, l in enumerate(labs)])
        new = _labels(S, rank, prefix="new")
        return {"arr": arr, "labels": labs, "new": new, "data": data, "names": ["y%d" % d for d in range(rank)]}

    def call(self, fn, env):
        case, arr, new, names, S = env["case"], env["arr"], env["new"], env["names"], env["S"]
        f = case["form"]
        if f == "axes-instance":
            arr.axes = S.da.Axes([S.da.Axis(l, n) for n, l in zip(names, new)])
        elif f == "axis-objects":
            arr.axes = [S.da.Axis(l, n) for n, l in zip(names, new)]
        elif f == "pairs":
            arr.axes = [(n, l) for n, l in zip(names, new)]
        else:
            arr.axes = list(new)
        return arr

    def raises(self, S, case, env):
        mismatch = S.lor(*[S.n(env["new"][d]) != S.n(env["labels"][d]) for d in range(case["rank"])])
        return {Exception: mismatch}

    def post(self, S, case, env, result):
        for c in wf_clauses(S, result):
            yield c
        for d in range(case["rank"]):
            Lr, L = result.axes[d].values, env["new"][d]
            yield "x%d:labels-are-the-new-labels" % d, S.land(S.n(Lr) == S.n(L), S.forall(0, S.n(L), lambda k, Lr=Lr, L=L: S.implies(k < S.n(Lr), lambda: S.at(Lr, k) == S.at(L, k))))
        yield "values-untouched", result.values is env["data"]

    def canaries(self, S, case, env, result):
        yield "first-dimension-is-empty", S.n(result.axes[0].values) == 0


class AxisCache(Contract):
    """No stale cached state on an Axis: after any sequence  query -- mutate -- query  the axis answers is_monotonic()
    exactly like a freshly constructed Axis with the same labels, and stays one-dimensional with the same length.  Mutators:
    ax.values = new labels (size-checked), ax[i] = v, ax[:] = new, ax.sort(), slicing / indexing (a new Axis that may
    inherit the cache), and relabelling through DimArray.set_axis.  [C05]"""
    target = "dimarray.core.axes:Axis"
    props = ("C05",)
    inlined = ("Axis.values.fset", "Axis.__setitem__", "Axis.sort", "Axis.__getitem__", "Axis.is_monotonic", "is_monotonic", "_maybe_cast_type")

    MUTATORS = ("values-setter", "setitem-scalar", "setitem-all", "sort", "slice-1:", "slice-:-1", "slice-::-1", "slice-::2", "index-list", "none")
    SLICES = {"slice-1:": slice(1, None), "slice-:-1": slice(None, -1), "slice-::-1": slice(None, None, -1), "slice-::2": slice(None, None, 2)}

    def cases(self, tier):
        for order in ("inc", "dec", "unique", "any"):
            for mut in self.MUTATORS:
                for query_first in (True, False):
                    yield {"name": "%s-%s-%s" % (order, mut, "queried" if query_first else "unqueried"), "order": order, "mut": mut, "query_first": query_first}

    bound_names = ("lab.n", "new.n")

    def setup(self, S, case):
        L = S.array1d("lab", "f")
        if case["order"] != "any":
            assume_order(S, L, case["order"])
        ax = S.da.Axis(L, "x")
        env = {"ax": ax, "L": L}
        if case["mut"] in ("values-setter", "setitem-all"):
            env["new"] = S.array1d("new", "f")
        if case["mut"] == "setitem-scalar":
            env["i"] = S.int("i")
            env["v"] = S.real("v")
            S.assume(S.land(0 <= env["i"], env["i"] < S.n(L)), "position in range")
        if case["mut"] == "index-list":
            env["q"] = S.array1d("q", "I")
            S.assume(S.forall(0, S.n(env["q"]), lambda k: S.land(0 <= S.at(env["q"], k), S.at(env["q"], k) < S.n(L))), "positions in range")
        return env

    def call(self, fn, env):
        case, ax = env["case"], env["ax"]
        if case["query_first"]:
            ax.is_monotonic()                     # fills the cache
        m = case["mut"]
        if m == "values-setter":
            ax.values = env["new"]
        elif m == "setitem-scalar":
            ax[env["i"]] = env["v"]
        elif m == "setitem-all":
            ax[slice(None)] = env["new"]
        elif m == "sort":
            ax.sort()
        elif m in self.SLICES:
            ax = ax[self.SLICES[m]]
        elif m == "index-list":
            ax = ax[env["q"]]
        return ax

    def raises(self, S, case, env):
        if case["mut"] in ("values-setter", "setitem-all"):
            # ax[:] = new is NumPy assignment: a single new label is broadcast
            one = S.n(env["new"]) == 1 if case["mut"] == "setitem-all" else False
            return {ValueError: S.land(S.n(env["new"]) != S.n(env["L"]), S.lnot(one))}
        return {}

    def post(self, S, case, env, result):
        import importlib
        is_monotonic = importlib.import_module("dimarray.core.indexing").is_monotonic
        vals = result.values
        yield "still-one-dimensional", len(S.shape(vals)) == 1
        if case["mut"] in ("values-setter", "setitem-scalar", "setitem-all", "sort", "none"):
            yield "same-length", S.n(vals) == S.n(env["L"])
        yield "name-kept", result.name == "x"
        # Representation invariant of the cache: it is EMPTY (None: Axis.is_monotonic then recomputes from the current labels,
        # which is what a fresh axis does -- the cases `none-unqueried` discharge exactly that), or it holds the answer a fresh
        # axis gives.  A mutator that leaves a filled cache behind must justify it.
        if getattr(result, "_monotonic", None) is None:
            yield "cache-empty-after-the-mutation", True
            if case["mut"] != "none":
                return
        answer = result.is_monotonic()
        fresh = S.da.Axis(vals.copy(), result.name)
        yield "answers-like-a-fresh-axis", S.iff(answer, fresh.is_monotonic())

    def canaries(self, S, case, env, result):
        yield "axis-is-empty", S.n(result.values) == 0


class NestedDict(Contract):
    """BOUNDED STAND-IN ONLY (never counted as proved).  The nested-dict form  DimArray({l0: {l1: v, ...}, ...}, dims=[d0, d1])
    (and the one-level dict for one dimension) builds the array the (name, labels) form builds from the same labels and
    values: it goes through from_nested -> stack(align=True) over Python dicts, outside the symbolic engine's reach.
    Evaluated on the real code over label arrays of length 1-3 (distinct labels) and every NaN pattern of the family.  [C05]"""
    target = "dimarray.core.dimarraycls:DimArray"
    props = ("C05",)
    native_only = True

    def cases(self, tier):
        for rank in (1, 2):
            yield {"name": "r%d-nested" % rank, "rank": rank}

    def setup(self, S, case):
        rank = case["rank"]
        labs = []
        for d in range(rank):
            L = S.array1d("lab%d" % d, ("O", "f")[d] if rank == 2 else "f")
            assume_order(S, L, "unique")
            S.assume(S.n(L) >= 1, "at least one label")
            labs.append(L)
        data = S.arraynd("data", "f", tuple(S.n(l) for l in labs))
        return {"labels": labs, "data": data}

    def call(self, fn, env):
        import numpy as np
        L, data = env["labels"], np.asarray(env["data"])
        DimArray = env["S"].da.DimArray
        if env["case"]["rank"] == 1:
            return DimArray({float(k): float(data[i]) for i, k in enumerate(L[0])}, dims=["x0"])
        nested = {k0: {float(k1): float(data[i, j]) for j, k1 in enumerate(L[1])} for i, k0 in enumerate(L[0])}
        return DimArray(nested, dims=["x0", "x1"])

    def post(self, S, case, env, result):
        import numpy as np
        rank = case["rank"]
        ref = S.da.DimArray(np.asarray(env["data"]), axes=[("x%d" % d, np.asarray(env["labels"][d])) for d in range(rank)])
        yield "is-dimarray", S.is_dimarray(result)
        for c in wf_clauses(S, result):
            yield c
        yield "dims-equal-the-pairs-form", tuple(result.dims) == tuple(ref.dims)
        yield "labels-equal-the-pairs-form", all(list(result.axes[d].values) == list(ref.axes[d].values) for d in range(rank))
        yield "values-equal-the-pairs-form", result.values.shape == ref.values.shape and bool(np.all(
            (result.values == ref.values) | (np.isnan(result.values.astype(float)) & np.isnan(ref.values))))


class MultiAxisCache(Contract):
    """BOUNDED STAND-IN ONLY (never counted as proved).  The second cache of the library: a grouped axis (MultiAxis) builds its
    tuple labels lazily and keeps them.  After  query -- relabel a member axis (ax[i] = v, ax.values = new) -- query  the
    grouped axis must answer like a freshly built one over the same members.  Evaluated on the real code (the label tuples are
    built by Python-level code outside the symbolic engine's reach).  [C05]"""
    target = "dimarray.core.axes:MultiAxis"
    props = ("C05",)
    native_only = True

    def cases(self, tier):
        for mut in ("none", "member-setitem", "member-values-setter"):
            for queried in (True, False):
                yield {"name": "%s-%s" % (mut, "queried" if queried else "unqueried"), "mut": mut, "queried": queried}

    def setup(self, S, case):
        L0, L1 = S.array1d("m0", "f"), S.array1d("m1", "f")
        S.assume(S.n(L0) >= 1, "first member non-empty")
        return {"L": [L0, L1], "v": S.real("v")}

    def call(self, fn, env):
        import importlib
        S, case = env["S"], env["case"]
        MultiAxis = importlib.import_module("dimarray.core.axes").MultiAxis
        members = [S.da.Axis(L.copy(), "g%d" % i) for i, L in enumerate(env["L"])]
        g = MultiAxis(*members)
        if case["queried"]:
            g.values
        if case["mut"] == "member-setitem":
            members[0][0] = env["v"]
        elif case["mut"] == "member-values-setter":
            members[0].values = members[0].values[::-1].copy()
        env["members"] = members
        return g

    def post(self, S, case, env, result):
        import importlib
        MultiAxis = importlib.import_module("dimarray.core.axes").MultiAxis
        fresh = MultiAxis(*[S.da.Axis(m.values.copy(), m.name) for m in env["members"]])
        yield "answers-like-a-freshly-built-grouped-axis", list(result.values) == list(fresh.values) and int(result.size) == int(fresh.size)


GROUPED_OPS = ("ix-slice", "ix-slice-step", "ix-list", "ix-scalar", "take_axis", "compress_axis", "dropna", "diff", "cumsum", "sort_axis",
               "mean", "transpose", "copy", "axis-slice", "is_monotonic", "add-itself", "unflatten")


class GroupedAxisLikeFresh(Contract):
    """BOUNDED STAND-IN ONLY (never counted as proved).  An array that went through flatten() -- its only axis a grouped axis
    whose labels are the tuples of member labels -- answers further operations exactly like a freshly constructed 1-d array
    with the same values and the same tuple labels: position slices, lists and scalars, take_axis, compress_axis, dropna, diff,
    cumsum, sort_axis, mean, transpose, copy, slicing the axis object, is_monotonic, a + a; and unflatten() restores the
    original.  (The grouped axis is a second Axis class with its own constructor: every attribute the inherited methods read
    must exist on it.)  Member labels of length 1-3 / 1-2, NaN patterns of the family.  [C05]"""
    target = "dimarray.core.axes:MultiAxis"
    props = ("C05",)
    native_only = True

    def cases(self, tier):
        for op in GROUPED_OPS:
            yield {"name": op, "op": op}

    def setup(self, S, case):
        L0, L1 = S.array1d("m0", "f"), S.array1d("m1", "O")
        assume_order(S, L0, "unique")
        assume_order(S, L1, "unique")
        S.assume(S.n(L0) >= 1, "first member non-empty")
        S.assume(S.n(L1) >= 1, "second member non-empty")
        return {"L": [L0, L1], "data": S.arraynd("data", "f", (S.n(L0), S.n(L1))), "p": S.int("p"), "q": S.array1d("q", "I")}

    def _apply(self, env, a):
        import numpy as np
        op = env["case"]["op"]
        n = a.shape[0]
        p = int(env["p"]) % n
        q = [int(t) % n for t in np.asarray(env["q"])]
        if op == "ix-slice":
            return a.ix[p:]
        if op == "ix-slice-step":
            return a.ix[::2]
        if op == "ix-list":
            return a.ix[q] if q else a.ix[[0]]
        if op == "ix-scalar":
            return a.ix[p]
        if op == "take_axis":
            return a.take_axis(q or [0], indexing="position")
        if op == "compress_axis":
            return a.compress_axis(np.arange(n) % 2 == p % 2)
        if op == "dropna":
            return a.dropna()
        if op == "diff":
            return a.diff()
        if op == "cumsum":
            return a.cumsum()
        if op == "sort_axis":
            return a.sort_axis()
        if op == "mean":
            return a.mean()
        if op == "transpose":
            return a.T
        if op == "copy":
            return a.copy()
        if op == "axis-slice":
            return a.axes[0][p:]
        if op == "is_monotonic":
            return bool(a.axes[0].is_monotonic())
        if op == "add-itself":
            return a + a
        raise AssertionError(op)

    def call(self, fn, env):
        import numpy as np
        S = env["S"]
        L0, L1 = np.asarray(env["L"][0], dtype=float), np.asarray(env["L"][1])
        a = S.da.DimArray(np.array(env["data"], dtype=float), axes=[("g0", L0.copy()), ("g1", L1.copy())])
        f = a.flatten()
        env["orig"], env["flat"] = a, f
        if env["case"]["op"] == "unflatten":
            return f.unflatten()
        return self._apply(env, f)

    def post(self, S, case, env, result):
        import numpy as np
        f, a = env["flat"], env["orig"]
        same = lambda x, y: np.shape(x) == np.shape(y) and bool(np.all((np.asarray(x) == np.asarray(y)) | (np.isnan(np.asarray(x, dtype=float)) & np.isnan(np.asarray(y, dtype=float)))))
        labs = lambda ax: [tuple(t) if isinstance(t, (tuple, list, np.ndarray)) else t for t in list(ax.values)]
        if case["op"] == "unflatten":
            yield "unflatten-restores-the-original", S.is_dimarray(result) and tuple(result.dims) == ("g0", "g1") and same(result.values, a.values) and \
                all(list(r.values) == list(o.values) for r, o in zip(result.axes, a.axes))
            return
        fresh = S.da.DimArray(np.array(f.values, dtype=float, order="C"), axes=[(f.dims[0], [tuple(t) for t in f.axes[0].values])])
        expected = self._apply(env, fresh)
        if S.is_dimarray(expected):
            yield "answers-like-a-freshly-constructed-array", S.is_dimarray(result) and tuple(result.dims) == tuple(expected.dims) and same(result.values, expected.values) \
                and all(labs(r) == labs(e) for r, e in zip(result.axes, expected.axes))
            for c in wf_clauses(S, result):
                yield c
        elif hasattr(expected, "values") and hasattr(expected, "name"):      # an Axis
            yield "answers-like-a-freshly-constructed-array", hasattr(result, "values") and result.name == expected.name and labs(result) == labs(expected)
        else:
            yield "answers-like-a-freshly-constructed-array", same(result, expected)


def _producers(np, da):
    """operations that RETURN an array (from a(x0, x1) with float / str labels and its 1-d companion b(x0))"""
    return {
        "transpose": lambda a, b: a.T,
        "swapaxes": lambda a, b: a.swapaxes(0, 1),
        "newaxis+squeeze": lambda a, b: a.newaxis("z", pos=1).squeeze("z"),
        "newaxis-values": lambda a, b: a.newaxis("z", values=[7, 8], pos=0),
        "ix-slice": lambda a, b: a.ix[::-1],
        "ix-list": lambda a, b: a.ix[[0, 0]],
        "label-slice": lambda a, b: a[a.axes[0].values.min():],
        "take_axis": lambda a, b: a.take_axis([0], axis=1, indexing="position"),
        "sort_axis": lambda a, b: a.sort_axis("x0"),
        "sort_axis-reversed": lambda a, b: a.ix[::-1].sort_axis("x0"),
        "reindex_axis": lambda a, b: a.reindex_axis(list(a.axes[0].values[::-1]) + [99.5], axis="x0"),
        "flatten+unflatten": lambda a, b: a.flatten().unflatten(),
        "reshape-group-ungroup": lambda a, b: a.reshape("x0,x1").reshape("x0", "x1"),
        "group-transposed": lambda a, b: a.flatten(("x1", "x0")).unflatten().transpose("x0", "x1"),
        "stack+take": lambda a, b: da.stack([a, a], axis="k", keys=["u", "v"]).take("v", axis="k"),
        "concatenate": lambda a, b: da.concatenate([a, a.set_axis(a.axes[0].values + 1000., axis="x0", inplace=False)], axis="x0"),
        "add-scalar": lambda a, b: a + 1,
        "add-array": lambda a, b: a + b,
        "cumsum": lambda a, b: a.cumsum(axis="x0"),
        "diff-keepaxis": lambda a, b: a.diff(axis="x0", keepaxis=True),
        "fillna": lambda a, b: a.fillna(0.),
        "copy": lambda a, b: a.copy(),
        "broadcast": lambda a, b: b.broadcast(a),
        "align": lambda a, b: da.align([a, b])[0],
        "set-dims": lambda a, b: (lambda c: (setattr(c, "dims", ("x1", "x0")), setattr(c, "dims", ("x0", "x1")), c)[2])(a.copy()),
        "set_axis-values": lambda a, b: a.set_axis(a.axes[0].values * 2, axis="x0", inplace=False),
        "axis-setitem-unsorts": lambda a, b: (lambda c: (c.axes[0].is_monotonic(), c.axes[0].__setitem__(0, 1e6), c)[2])(a.copy()),
        "put-copy": lambda a, b: a.put(a.axes[0].values[0], -1., axis="x0", inplace=False),
        "dataset-roundtrip": lambda a, b: (lambda ds: ds["v"])(da.Dataset(v=a, w=b)),
        "dropna": lambda a, b: a.dropna(axis="x0", minvalid=0),
        "interp-at-nodes": lambda a, b: a.interp_axis(a.sort_axis("x0").axes[0].values, axis="x0"),
        "rollaxis": lambda a, b: a.rollaxis("x1").rollaxis("x0"),
        "mask-compress": lambda a, b: a.compress_axis(np.ones(a.shape[0], dtype=bool), axis="x0"),
    }


def _consumers(np, da):
    """further operations and queries; each returns something comparable (in-place ones return the modified array)"""
    return {
        "ix-slice": lambda r: r.ix[1:],
        "first-label": lambda r: r[r.axes[0].values[0]],
        "label-slice": lambda r: r[r.axes[0].values[0]:r.axes[0].values[-1]],
        "mean": lambda r: r.mean(axis=0),
        "transpose": lambda r: r.T,
        "sort_axis": lambda r: r.sort_axis(0),
        "reindex-own": lambda r: r.reindex_axis(r.axes[0].values[::-1], axis=0),
        "add": lambda r: r + r,
        "flatten": lambda r: r.flatten(),
        "is_monotonic": lambda r: [bool(ax.is_monotonic()) for ax in r.axes],
        "assign-in-place": lambda r: (r.__setitem__(r.axes[0].values[0], -5.), r)[1],
        "take_axis": lambda r: r.take_axis([0], axis=r.ndim - 1, indexing="position"),
        "copy": lambda r: r.copy(),
        "to_json": lambda r: r.to_json(),
    }


class HistoryLikeFresh(Contract):
    """BOUNDED STAND-IN ONLY (never counted as proved).  The statement's last sentence taken literally, one step deep: the array
    RETURNED by each of 33 producing operations answers each of 14 further operations and queries (position and label
    indexing, label slices, reductions, transposes, sorting, reindexing, arithmetic, flattening, monotonicity queries, an
    in-place assignment, take_axis, copy, to_json) exactly like a freshly constructed array with the same values, labels, dims
    and metadata -- same values, same labels, same dims, or the same exception type.  (The proved part of C05 -- well-formedness
    and cache coherence as invariants -- is what makes this hold for histories of any length; this stand-in looks for state
    the invariants do not name.)  Labels of length 1-3 / 1-2 in any order, NaN patterns of the family.  [C05]"""
    target = "dimarray.core.dimarraycls:DimArray"
    props = ("C05",)
    native_only = True
    enumeration_cap = {"quick": 20000, "thorough": 150000}      # attempts per producer (each evaluation runs 14 consumers twice)

    def cases(self, tier):
        import numpy as np
        for name in _producers(np, None):
            yield {"name": name, "producer": name}

    def setup(self, S, case):
        L0, L1 = S.array1d("lab0", "f"), S.array1d("lab1", "O")
        assume_order(S, L0, "unique")
        assume_order(S, L1, "unique")
        S.assume(S.n(L0) >= 1, "non-empty")
        S.assume(S.n(L1) >= 1, "non-empty")
        return {"L": [L0, L1], "data": S.arraynd("data", "f", (S.n(L0), S.n(L1)))}

    def call(self, fn, env):
        import numpy as np
        S = env["S"]
        da = S.da
        L0, L1 = np.asarray(env["L"][0], dtype=float), np.asarray(env["L"][1])
        a = da.DimArray(np.array(env["data"], dtype=float), axes=[("x0", L0.copy()), ("x1", L1.copy())])
        a.attrs["units"] = "K"
        b = da.DimArray(np.arange(len(L0), dtype=float), axes=[("x0", L0.copy())])
        return _producers(np, da)[env["case"]["producer"]](a, b)

    def post(self, S, case, env, result):
        import copy
        import numpy as np
        da = S.da
        yield "is-dimarray", S.is_dimarray(result)
        if not S.is_dimarray(result):
            return

        def fresh_of(r):
            # (freshly constructed = from the plain nested values: C-ordered memory, whatever layout the producer left behind)
            f = da.DimArray(np.array(r.values, order="C"), axes=[(ax.name, np.array(ax.values)) for ax in r.axes])
            f.attrs.update(copy.deepcopy(dict(r.attrs)))
            for fa, ra in zip(f.axes, r.axes):
                fa.attrs.update(copy.deepcopy(dict(ra.attrs)))
            return f

        def norm(x):
            if S.is_dimarray(x):
                v = np.asarray(x.values)
                return ("da", tuple(x.dims), [[repr(t) for t in list(ax.values)] for ax in x.axes], v.shape, str(v.dtype.kind),
                        [repr(t) for t in v.ravel().tolist()], sorted(dict(x.attrs).items(), key=repr).__repr__())
            if isinstance(x, np.ndarray):
                return ("nd", x.shape, [repr(t) for t in x.ravel().tolist()])
            return ("py", repr(x))
        if len(result.axes) == 0 or any(ax.size == 0 for ax in result.axes):
            return
        for cname, cons in _consumers(np, da).items():
            outs = []
            for obj in (copy.deepcopy(result) if cname == "assign-in-place" else result, fresh_of(result)):
                try:
                    outs.append(("ok", norm(cons(obj))))
                except Exception as e:
                    outs.append(("raises", type(e).__name__))
            yield "then-%s:answers-like-a-freshly-constructed-array" % cname, outs[0] == outs[1]


# ---- every DimArray RETURNED by an operation under contract is well-formed ---------------------------------------------
def wf_only(cls):
    """the contract `cls` with its postcondition replaced by `every returned DimArray is well-formed` (same cases, same setup,
    same call, same exception conditions): the paths are explored again and only that clause is discharged"""
    def post(self, S, case, env, result):
        return wf_clauses(S, result)

    def canaries(self, S, case, env, result):
        return ()

    def raises(self, S, case, env):
        # C05 is about what is RETURNED; when and what an operation raises is decided by the operation's own property
        return {Exception: (False, True)}

    def known_regions(self, S, case, env):
        return {}

    name = cls.__name__ + "WF"
    W = type(name, (cls,), {"post": post, "canaries": canaries, "raises": raises, "known_regions": known_regions, "props": ("C05",),
                            "bounded_clauses": (), "__module__": __name__, "bounded_obligations": lambda self, case: (),
                            "__doc__": "Every DimArray returned by %s is well-formed (one axis per array dimension, each 1-d with the length of "
                                       "that dimension, distinct non-empty names), on every path and for every input of %s's cases.  [C05]" % (cls.target, cls.__name__)})
    setattr(sys.modules[__name__], name, W)
    return W


def _make_all():
    from . import bases, align, reshape, transform, join, missing, regroup
    out = []
    for cls in (bases.GetItem, align.TakeAxis, align.ReindexAxis, align.SortAxis, align.Align,
                reshape.Transpose, reshape.SwapAxes, reshape.RollAxis, reshape.NewAxis, reshape.Squeeze, reshape.Repeat,
                transform.Reduce, transform.Cumulative, transform.ArgExtremum, transform.Diff,
                join.Stack, join.Concatenate, regroup.Flatten, regroup.Unflatten, regroup.Reshape,
                missing.FillNa, missing.SetNa, missing.CompressAxis, missing.DropNa1D):
        out.append(wf_only(cls))
    return out


WF_CONTRACTS = _make_all()


RENAMES = {
    # name: (rank, how, argument, expected dims | None when the request must be REJECTED)
    "dims-tuple-fresh": (2, "dims", ("u", "v"), ("u", "v")),
    "dims-list-fresh": (2, "dims", ["u", "v"], ("u", "v")),
    "dims-tuple-swap": (2, "dims", ("x1", "x0"), ("x1", "x0")),
    "dims-tuple-cycle": (3, "dims", ("x1", "x2", "x0"), ("x1", "x2", "x0")),
    "dims-tuple-one-kept": (3, "dims", ("x0", "w", "x1"), ("x0", "w", "x1")),
    "dims-tuple-same": (2, "dims", ("x0", "x1"), ("x0", "x1")),
    "dims-dict-one": (2, "dims", {"x0": "u"}, ("u", "x1")),
    "dims-dict-swap": (2, "dims", {"x0": "x1", "x1": "x0"}, ("x1", "x0")),
    "dims-dict-chain": (3, "dims", {"x0": "x1", "x1": "w"}, ("x1", "w", "x2")),
    "dims-tuple-duplicate": (2, "dims", ("u", "u"), None),
    "dims-dict-collision": (2, "dims", {"x0": "x1"}, None),
    "dims-tuple-too-short": (2, "dims", ("u",), None),
    "dims-tuple-empty-name": (2, "dims", ("u", ""), None),
    "set_axis-name-fresh-inplace": (2, "set_axis-inplace", ("u", 0), ("u", "x1")),
    "set_axis-name-fresh-copy": (2, "set_axis-copy", ("u", 1), ("x0", "u")),
    "set_axis-name-own-copy": (2, "set_axis-copy", ("x1", 1), ("x0", "x1")),
    "set_axis-name-collision-inplace": (2, "set_axis-inplace", ("x1", 0), None),
    "set_axis-name-collision-copy": (2, "set_axis-copy", ("x0", "x1"), None),
    "axes-setitem-same-name": (2, "axes-setitem", ("x0", 0), ("x0", "x1")),
    "axes-setitem-renaming-by-name": (2, "axes-setitem", ("u", "x1"), ("x0", "u")),
    "axes-setitem-collision": (2, "axes-setitem", ("x1", 0), None),
    "axes-setitem-collision-by-name": (3, "axes-setitem", ("x0", "x2"), None),
    # renaming a RESULT that kept a dimension whole (c = a[:, label] has a's x0 axis): whatever happens to c, a must stay as it is
    "set_axis-on-a-slice-that-shares-the-axis": (2, "via-shared-slice", ("x1", 0), ("x0", "x1")),
    "axis-name-setter-fresh": (2, "axis-name", ("u", 0), ("u", "x1")),
    "axis-name-setter-collision": (2, "axis-name", ("x1", 0), None),
}


class Rename(Contract):
    """Renaming dimensions -- a.dims = names (tuple / list: all at once, so that a permutation of the present names is a
    permutation; dict: old -> new), a.set_axis(name=..., axis=..., inplace=...), a.axes[k] = Axis(labels, name),
    a.axes[i].name = n --: either the request
    names every dimension with distinct non-empty strings, and then the array (the returned copy for inplace=False) is
    well-formed with exactly the requested names in order, its labels, values and metadata as they were; or it does not
    (a duplicate, a collision with another dimension, an empty name, a wrong count), and then an exception is raised and
    the array is still well-formed with its labels, values and metadata -- no array with duplicate dimension names is ever
    produced.  Names are concrete; the code
    under them is loop-free over the dimensions, so the case list is a complete analysis for ranks 2-3.  [C05]"""
    target = "dimarray.core.bases:AbstractHasAxes._set_dims"
    props = ("C05",)
    inlined = ("dims.fset", "DimArray.set_axis", "Axis.set", "Axis.name.fset", "DimArray.copy")

    def cases(self, tier):
        for name, (rank, how, arg, want) in RENAMES.items():
            yield {"name": name, "rank": rank, "how": how}

    def bound_lengths(self, case):
        return ["lab%d.n" % d for d in range(case["rank"])]

    def setup(self, S, case):
        rank = case["rank"]
        labs = _labels(S, rank)
        data = S.arraynd("data", "f", tuple(S.n(l) for l in labs))
        arr = S.da.DimArray(data, axes=[S.da.Axis(l, "x%d" % d) for d, l in enumerate(labs)])
        arr.attrs["units"] = "K"
        return {"arr": arr, "labels": labs, "data": data, "old": S.snapshot(data)}

    def call(self, fn, env):
        case, arr = env["case"], env["arr"]
        rank, how, arg, want = RENAMES[case["name"]]
        if how == "dims":
            arr.dims = arg
            return arr
        if how == "set_axis-inplace":
            r = arr.set_axis(name=arg[0], axis=arg[1])
            env["returned"] = r
            return arr
        if how == "set_axis-copy":
            return arr.set_axis(name=arg[0], axis=arg[1], inplace=False)
        if how == "via-shared-slice":
            c = arr.ix[:, 0]                      # dims ('x0',): for c the name x1 is free
            env["c"] = c
            c.set_axis(name=arg[0], axis=0)
            return arr
        if how == "axes-setitem":
            # a.axes[k] = Axis(same labels, another name): replaces the axis object
            pos = arg[1] if isinstance(arg[1], int) else list(arr.dims).index(arg[1])
            arr.axes[arg[1]] = env["S"].da.Axis(env["labels"][pos].copy(), arg[0])
            return arr
        arr.axes[arg[1]].name = arg[0]
        return arr

    def raises(self, S, case, env):
        rank, how, arg, want = RENAMES[case["name"]]
        if how == "via-shared-slice":
            return {Exception: (False, True)}         # refusing is as good as renaming c alone
        return {Exception: want is None}

    def _as_it_was(self, S, case, env):
        arr, labs = env["arr"], env["labels"]
        rank = case["rank"]
        return S.land(tuple(arr.dims) == tuple("x%d" % d for d in range(rank)), arr.values is env["data"], dict(arr.attrs) == {"units": "K"},
                      S.forall_nd(S.shape(env["old"]), lambda *p: S.same(S.at(arr.values, *p), S.at(env["old"], *p))),
                      *[S.land(S.n(arr.axes[d].values) == S.n(labs[d]), S.forall(0, S.n(labs[d]), lambda k, d=d: S.at(arr.axes[d].values, k) == S.at(labs[d], k)))
                        for d in range(rank)])

    def post(self, S, case, env, result):
        rank, how, arg, want = RENAMES[case["name"]]
        labs = env["labels"]
        yield "is-dimarray", S.is_dimarray(result)
        for c in wf_clauses(S, result):
            yield c
        if want is None:
            return          # (the request had to be rejected: reported by the raises clause; what was produced instead is judged above)
        yield "dims-are-exactly-the-requested-names-in-order", tuple(result.dims) == tuple(want)
        yield "labels-values-metadata-as-they-were", S.land(
            dict(result.attrs) == {"units": "K"},
            S.forall_nd(S.shape(env["old"]), lambda *p: S.same(S.at(result.values, *p), S.at(env["old"], *p))),
            *[S.land(S.n(result.axes[d].values) == S.n(labs[d]), S.forall(0, S.n(labs[d]), lambda k, d=d: S.at(result.axes[d].values, k) == S.at(labs[d], k)))
              for d in range(rank)])
        if how == "set_axis-copy":
            yield "inplace=False:receiver-untouched", S.land(result is not env["arr"], self._as_it_was(S, case, env))
        elif how == "set_axis-inplace":
            yield "in-place-returns-none", env["returned"] is None

    def post_exc(self, S, case, env, exc):
        # (the statement asks that no ill-formed array exists, not that a refused request is atomic: which of the valid names
        # of a refused request were already applied is left open)
        arr, labs = env["arr"], env["labels"]
        yield "rejected-request-leaves-a-well-formed-array", well_formed(S, arr)
        yield "rejected-request-leaves-labels-values-metadata-as-they-were", S.land(
            arr.values is env["data"], dict(arr.attrs) == {"units": "K"},
            S.forall_nd(S.shape(env["old"]), lambda *p: S.same(S.at(arr.values, *p), S.at(env["old"], *p))),
            *[S.land(S.n(arr.axes[d].values) == S.n(labs[d]), S.forall(0, S.n(labs[d]), lambda k, d=d: S.at(arr.axes[d].values, k) == S.at(labs[d], k)))
              for d in range(case["rank"])])

    def canaries(self, S, case, env, result):
        yield "first-dimension-is-empty", S.n(result.axes[0].values) == 0
