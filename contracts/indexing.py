"""Contracts for dimarray/core/indexing.py"""
from dverif.contract_base import Contract
from .common import (in_slice, slice_bounds, strictly_increasing, strictly_decreasing, unique,
                     first_occurrence, absent, assume_order, order_of)

STEPS = (None, 1, 2, 3, -1, -2)


def _step(case):
    return 1 if case["step"] is None else case["step"]


class LocateSlice(Contract):
    """locate_slice(values, start, stop, step) -> (istart, istop)  [C02]

    mode bbox   (numeric, strictly monotonic axis): slice(istart, istop, step) visits exactly the
                positions whose label lies in the closed box [start, stop] read in travel order, every
                |step|-th starting from the first one met; no exception for any length (0 included).
    mode strict (string labels, or numeric labels that are not monotonic; labels unique): both bounds
                must be labels (IndexError otherwise); the slice runs from start's position to stop's,
                inclusive, in travel order; open bounds extend to the end; never wraps around.
    """
    target = "dimarray.core.indexing:locate_slice"
    props = ("C02",)
    inlined = ("is_numeric", "is_monotonic_equal", "is_increasing_equal", "is_decreasing_equal", "_is_ordered",
               "_locate_slice_strict (strict mode: its callee locate_one is used through its contract)")
    bound_names = ("values.n",)

    def cases(self, tier):
        for kind in ("f", "i"):
            for direction in ("inc", "dec"):
                for step in STEPS:
                    for has_start in (True, False):
                        for has_stop in (True, False):
                            if kind == "i" and tier == "quick" and step in (3, -2):
                                continue
                            yield {"name": "bbox-%s-%s-step%s-%s%s" % (kind, direction, step, "a" if has_start else "_", "b" if has_stop else "_"),
                                   "mode": "bbox", "kind": kind, "dir": direction, "step": step,
                                   "has_start": has_start, "has_stop": has_stop}
        # monotonic WITH repeated labels (non-decreasing / non-increasing): still a bounding box
        for direction in ("inc-ties", "dec-ties"):
            for step in STEPS:
                for has_start in (True, False):
                    for has_stop in (True, False):
                        if tier == "quick" and step in (3, -2, 2):
                            continue
                        yield {"name": "bbox-f-%s-step%s-%s%s" % (direction, step, "a" if has_start else "_", "b" if has_stop else "_"),
                               "mode": "bbox", "kind": "f", "dir": direction, "step": step, "has_start": has_start, "has_stop": has_stop}
        for kind in ("O", "f"):
            for step in STEPS:
                for has_start in (True, False):
                    for has_stop in (True, False):
                        if tier == "quick" and step in (3, -2):
                            continue
                        yield {"name": "strict-%s-step%s-%s%s" % (kind, step, "a" if has_start else "_", "b" if has_stop else "_"),
                               "mode": "strict", "kind": kind, "dir": "shuffled", "step": step,
                               "has_start": has_start, "has_stop": has_stop}

    # -- inputs ------------------------------------------------------------
    def setup(self, S, case):
        values = S.array1d("values", case["kind"])
        n = S.n(values)
        if case["mode"] == "bbox" and case["dir"].endswith("-ties"):
            for nm, f in self._ties(S, case, values):
                S.assume(f, nm)
            start = S.real("start") if case["has_start"] else None
            stop = S.real("stop") if case["has_stop"] else None
        elif case["mode"] == "bbox":
            assume_order(S, values, case["dir"])
            start = S.real("start") if case["has_start"] else None
            stop = S.real("stop") if case["has_stop"] else None
        else:
            assume_order(S, values, "unique")
            if case["kind"] != "O":
                # numeric but not monotonic: witnesses of one ascent and one descent
                u, d = S.int("ascent_at"), S.int("descent_at")
                S.assume(S.land(0 <= u, u + 1 < n, S.implies(S.land(0 <= u, u + 1 < n), lambda: S.at(values, u) < S.at(values, u + 1))), "some ascent")
                S.assume(S.land(0 <= d, d + 1 < n, S.implies(S.land(0 <= d, d + 1 < n), lambda: S.at(values, d) > S.at(values, d + 1))), "some descent")
            start = S.label("start", case["kind"]) if case["has_start"] else None
            stop = S.label("stop", case["kind"]) if case["has_stop"] else None
        env = {"values": values, "start": start, "stop": stop, "step": case["step"],
               "args": (values, start, stop, case["step"])}
        return env

    def _ties(self, S, case, v):
        n = S.n(v)
        if case["dir"] == "inc-ties":
            yield "labels non-decreasing", S.forall2(0, n, lambda i, j: S.at(v, i) <= S.at(v, j))
        else:
            # (an axis whose last label is not below its first -- all labels equal -- counts as increasing)
            yield "labels non-increasing, the last below the first", S.land(n >= 2, S.forall2(0, n, lambda i, j: S.at(v, i) >= S.at(v, j)),
                                                                         S.implies(n >= 2, lambda: S.at(v, n - 1) < S.at(v, 0)))

    def requires(self, S, case, env):
        v = env["values"]
        if case["mode"] == "bbox" and case["dir"].endswith("-ties"):
            for c in self._ties(S, case, v):
                yield c
        elif case["mode"] == "bbox":
            if case["dir"] == "inc":
                yield "increasing", strictly_increasing(S, v)
            else:
                yield "decreasing", S.land(strictly_decreasing(S, v), S.n(v) >= 2)
        else:
            yield "unique", unique(S, v)

    def bind(self, values, start, stop, step, issorted=False):
        if issorted:
            raise NotImplementedError("issorted=True")
        order = order_of(values)
        kind = values.dtype.kind
        if step not in STEPS:
            raise NotImplementedError("step %r" % (step,))
        if kind in "fiu" and order in ("inc", "dec"):
            case = {"mode": "bbox", "kind": kind, "dir": order}
        elif order == "unique" and kind == "O":
            case = {"mode": "strict", "kind": kind, "dir": "shuffled"}
        else:
            raise NotImplementedError("axis of kind %s with order tag %r" % (kind, order))
        case.update(step=step, has_start=start is not None, has_stop=stop is not None, name="bound")
        return case, {"values": values, "start": start, "stop": stop, "step": step}

    def fresh_result(self, S, case, env):
        return S.fresh_int(env["_fresh"] + ".istart"), S.fresh_int(env["_fresh"] + ".istop")

    # -- spec ----------------------------------------------------------------
    def _inbox(self, S, case, env, p):
        L = S.at(env["values"], p)
        sgn = (1 if case["dir"].startswith("inc") else -1) * (1 if _step(case) > 0 else -1)
        cs = []
        if env["start"] is not None:
            cs.append(env["start"] <= L if sgn > 0 else env["start"] >= L)
        if env["stop"] is not None:
            cs.append(L <= env["stop"] if sgn > 0 else L >= env["stop"])
        return S.land(*cs)

    def raises(self, S, case, env):
        if case["mode"] == "bbox":
            return {}       # numeric bounds on a numeric monotonic axis: no exception for any length (incl. 0)
        v = env["values"]
        conds = []
        if env["start"] is not None:
            conds.append(absent(S, v, env["start"]))
        if env["stop"] is not None:
            conds.append(absent(S, v, env["stop"]))
        return {IndexError: S.lor(*conds)}

    def post(self, S, case, env, result):
        v = env["values"]
        n = S.n(v)
        istart, istop = result
        step = _step(case)
        tau = 1 if step > 0 else -1
        lo, hi = slice_bounds(S, n, istart, istop, step)
        ins = lambda p: in_slice(S, n, istart, istop, step, p)
        if case["mode"] == "bbox":
            box = lambda p: self._inbox(S, case, env, p)
            # ghost hints (proof steps, dropped when not provable): the visited *range* lies inside the box,
            # and the box lies inside the visited range -- the stride is then pure arithmetic
            rng = lambda p: S.land(tau * lo <= tau * p, tau * p < tau * hi)
            h1 = lambda: S.forall(0, n, lambda p: S.implies(rng(p), lambda: box(p)))
            h2 = lambda: S.forall(0, n, lambda p: S.implies(box(p), lambda: rng(p)))
            yield "selected-inside-box", S.forall(0, n, lambda p: S.implies(ins(p), lambda: box(p))), h1
            # (same two lemmas: a label in the box is in the visited range, so the range is non-empty and starts at lo;
            #  lo, being in the range, is in the box)
            yield ("starts-at-first-in-travel-order", S.forall(0, n, lambda q: S.implies(
                box(q), lambda: S.land(0 <= lo, lo < n, S.implies(S.land(0 <= lo, lo < n), lambda: box(lo)), tau * lo <= tau * q))), h2, h1)
            yield "every-step-th-inside-box-selected", S.forall(0, n, lambda p: S.implies(
                S.land(box(p), tau * (p - lo) >= 0, S.mod(tau * (p - lo), abs(step)) == 0), lambda: ins(p))), h2
            return
        # strict: positions of the two bounds (labels are unique, so "the" position)
        def spec(p):
            cs = [S.mod(tau * (p - lo), abs(step)) == 0]
            if env["start"] is not None:
                cs.append(S.exists(0, n, lambda i: S.land(S.at(v, i) == env["start"], tau * i <= tau * p)))
            if env["stop"] is not None:
                cs.append(S.exists(0, n, lambda i: S.land(S.at(v, i) == env["stop"], tau * p <= tau * i)))
            return S.land(*cs)
        # the first visited position is start's position (or the end of the axis for an open start)
        if env["start"] is not None:
            yield "starts-at-start-label", S.forall(0, n, lambda p: S.implies(ins(p), lambda: S.land(
                0 <= lo, lo < n, S.implies(S.land(0 <= lo, lo < n), lambda: S.at(v, lo) == env["start"]))))
        else:
            yield "open-start-begins-at-the-end-of-the-axis", S.forall(0, n, lambda p: S.implies(
                ins(p), lo == (0 if tau > 0 else n - 1)))
        yield "selected-iff-between-the-bounds", S.forall(0, n, lambda p: S.iff(ins(p), S.land(tau * (p - lo) >= 0, spec(p))))

    def canaries(self, S, case, env, result):
        n = S.n(env["values"])
        istart, istop = result
        step = _step(case)
        # false: "the stop bound is exclusive" -- a label equal to `stop` is never selected
        if env["stop"] is not None:
            yield "stop-exclusive", S.forall(0, n, lambda p: S.implies(
                in_slice(S, n, istart, istop, step, p), lambda: S.at(env["values"], p) != env["stop"]))
        else:
            yield "never-selects-anything", S.forall(0, n, lambda p: S.lnot(in_slice(S, n, istart, istop, step, p)))


class LocateOne(Contract):
    """locate_one(values, val, tol=None): exact search returns the least position holding val
    (IndexError iff absent); with tol the first position of the nearest label, IndexError iff that
    label is farther than tol.  [C01]"""
    target = "dimarray.core.indexing:locate_one"
    props = ("C01", "C02")
    bound_names = ("values.n",)

    def cases(self, tier):
        for kind in ("f", "i", "O"):
            yield {"name": "exact-%s" % kind, "kind": kind, "tol": False}
        for kind in ("f", "i"):
            yield {"name": "tol-%s" % kind, "kind": kind, "tol": True}
        yield {"name": "tol-on-strings", "kind": "O", "tol": True}

    def setup(self, S, case):
        values = S.array1d("values", case["kind"])
        val = S.label("val", "f" if case["kind"] == "i" else case["kind"])
        tol = S.real("tol") if case["tol"] else None
        return {"values": values, "val": val, "tol": tol, "args": (values, val), "kwargs": {"tol": tol}}

    def bind(self, values, val, issorted=False, tol=None, side="left"):
        if issorted:
            raise NotImplementedError("issorted=True")
        kind = values.dtype.kind
        return ({"name": "bound", "kind": kind, "tol": tol is not None},
                {"values": values, "val": val, "tol": tol})

    def fresh_result(self, S, case, env):
        return S.fresh_int(env["_fresh"] + ".match")

    def _dist(self, S, env, i):
        d = S.at(env["values"], i) - env["val"]
        return S.ite(d >= 0, d, -d)

    def raises(self, S, case, env):
        v, x, n = env["values"], env["val"], S.n(env["values"])
        if not case["tol"]:
            return {IndexError: absent(S, v, x)}
        if case["kind"] == "O":
            # A tolerance on a string axis (only reachable by calling locate_one directly; AbstractAxis.loc drops tol for
            # non-numeric axes first).  No property fixes the exception type; what must never happen is a silently returned
            # position: an exception is ALWAYS raised -- TypeError when there is a label to subtract from, and on an empty
            # axis whatever the empty search raises (ValueError today).
            return {TypeError: (n > 0, True), ValueError: (n == 0, n == 0)}
        # nothing within tolerance  <=>  every label is farther than tol  (an empty axis has no nearest label)
        # (an empty axis has no nearest label: IndexError or ValueError are both accepted there)
        return {IndexError: S.forall(0, n, lambda i: self._dist(S, env, i) > env["tol"]),
                ValueError: n == 0}

    def post(self, S, case, env, result):
        v, x, n = env["values"], env["val"], S.n(env["values"])
        m = result
        if not case["tol"]:
            yield "least-position-holding-val", first_occurrence(S, v, x, m)
            return
        yield "in-bounds", S.land(0 <= m, m < n)
        yield "nearest", S.forall(0, n, lambda i: self._dist(S, env, m) <= self._dist(S, env, i))
        yield "first-among-nearest", S.forall(0, m, lambda i: self._dist(S, env, m) < self._dist(S, env, i))
        yield "within-tolerance", self._dist(S, env, m) <= env["tol"]

    def canaries(self, S, case, env, result):
        if not case["tol"]:
            yield "always-position-zero", result == 0
        else:
            yield "always-exact", S.at(env["values"], result) == env["val"]


class LocateMany(Contract):
    """locate_many(values, val, side) (unsorted search through argsort + searchsorted + clip): every
    returned position is in bounds and holds the smallest label that is >= (side='left') or > (side='right')
    the requested one, or the largest label when there is none -- in particular (left) the requested label
    itself whenever it is on the axis; IndexError iff the axis is empty and something is requested.
    [C01, C07]"""
    target = "dimarray.core.indexing:locate_many"
    props = ("C01", "C07")
    bound_names = ("values.n", "val.n")

    def cases(self, tier):
        for kind in ("f", "i", "O"):
            for side in ("left", "right"):
                yield {"name": "unsorted-%s-%s" % (kind, side), "kind": kind, "side": side}

    def setup(self, S, case):
        values = S.array1d("values", case["kind"])
        val = S.array1d("val", case["kind"])
        return {"values": values, "val": val, "args": (values, val), "kwargs": {"side": case["side"]}}

    def bind(self, values, val, issorted=False, side="left"):
        if issorted or side not in ("left", "right"):
            raise NotImplementedError("issorted / side")
        if isinstance(val, (list, tuple)):
            from dverif import symnp
            val = symnp.asarray(val)
        if not hasattr(val, "dtype") or val.ndim != 1:
            raise NotImplementedError("needle is not a 1-D array")
        return {"name": "bound", "kind": values.dtype.kind, "side": side}, {"values": values, "val": val}

    def fresh_result(self, S, case, env):
        return S.fresh_array1d(env["_fresh"] + ".matches", "I", S.n(env["val"]))

    def raises(self, S, case, env):
        return {IndexError: S.land(S.n(env["values"]) == 0, S.n(env["val"]) > 0)}

    def post(self, S, case, env, result):
        v, q = env["values"], env["val"]
        n, m = S.n(v), S.n(q)
        above = (lambda a, b: a >= b) if case["side"] == "left" else (lambda a, b: a > b)
        R = lambda j: S.at(result, j)
        inb = lambda j: S.land(0 <= R(j), R(j) < n)
        yield "same-length", S.n(result) == m
        yield "in-bounds", S.forall(0, m, lambda j: inb(j))
        # ---- ghost hints: the proof, spelled out (each is PROVED from the library contracts before it is used) --------
        # rank = inverse permutation of np.argsort(values): rank[p] is where label p stands in sorted order.
        rank = S.sort_rank(v)
        rk = lambda p: S.at(rank, p)
        in_n = lambda p: S.land(0 <= p, p < n)
        # L0: sorted order is label order
        L0 = lambda: S.forall(0, n, lambda a: S.forall(0, n, lambda b: S.implies(rk(a) <= rk(b), lambda: S.at(v, a) <= S.at(v, b))))
        # H1: a label at-or-above the requested one stands at or after the match   (searchsorted: all before R are below)
        H1 = lambda: S.forall(0, m, lambda j: S.forall(0, n, lambda i: S.implies(
            S.land(inb(j), above(S.at(v, i), S.at(q, j))), lambda: rk(R(j)) <= rk(i))))
        # H2: when something is at-or-above, the match itself is at-or-above        (searchsorted: all from R on are not below)
        H2 = lambda: S.forall(0, m, lambda j: S.forall(0, n, lambda i: S.implies(
            S.land(inb(j), above(S.at(v, i), S.at(q, j))), lambda: above(S.at(v, R(j)), S.at(q, j)))))
        # H3: when nothing is at-or-above, the match is the last label in sorted order  (R == n, clipped to n-1)
        H3 = lambda: S.forall(0, m, lambda j: S.implies(
            S.land(inb(j), S.forall(0, n, lambda i: S.lnot(above(S.at(v, i), S.at(q, j))))),
            lambda: S.forall(0, n, lambda i: rk(i) <= rk(R(j)))))
        yield ("smallest-label-at-or-above", S.forall(0, m, lambda j: S.forall(0, n, lambda i: S.implies(
            S.land(inb(j), above(S.at(v, i), S.at(q, j))),
            lambda: S.land(above(S.at(v, R(j)), S.at(q, j)), S.at(v, R(j)) <= S.at(v, i))))), L0, H1, H2)
        yield ("largest-label-when-none-above", S.forall(0, m, lambda j: S.implies(
            S.land(inb(j), S.forall(0, n, lambda i: S.lnot(above(S.at(v, i), S.at(q, j))))),
            lambda: S.forall(0, n, lambda i: S.at(v, i) <= S.at(v, R(j))))), H3)
        if case["side"] == "left":
            # corollary of smallest-label-at-or-above (stated as a hint so that it is available here)
            C = lambda: S.forall(0, m, lambda j: S.forall(0, n, lambda i: S.implies(
                S.land(inb(j), above(S.at(v, i), S.at(q, j))),
                lambda: S.land(above(S.at(v, R(j)), S.at(q, j)), S.at(v, R(j)) <= S.at(v, i)))))
            yield ("present-labels-are-found", S.forall(0, m, lambda j: S.forall(0, n, lambda i: S.implies(
                S.land(inb(j), S.at(v, i) == S.at(q, j)), lambda: S.at(v, R(j)) == S.at(q, j)))), C)

    def canaries(self, S, case, env, result):
        v, q = env["values"], env["val"]
        yield "everything-is-found", S.forall(0, S.n(q), lambda j: S.implies(
            S.land(0 <= S.at(result, j), S.at(result, j) < S.n(v)), lambda: S.at(v, S.at(result, j)) == S.at(q, j)))


class ExpandedIndexer(Contract):
    """expanded_indexer(key, ndim): a tuple of length ndim; non-Ellipsis entries in order, the first
    Ellipsis expanded to the missing full slices, padding with full slices; IndexError iff too many.  [C01]"""
    target = "dimarray.core.indexing:expanded_indexer"
    props = ("C01",)

    def cases(self, tier):
        import itertools
        toks = ("x", "E")
        for ndim in range(0, 5):
            for ln in range(0, 6):
                for combo in itertools.product(toks, repeat=ln):
                    if combo.count("E") > 2:
                        continue
                    yield {"name": "ndim%d-%s" % (ndim, "".join(combo) or "empty"), "ndim": ndim, "key": list(combo)}
            yield {"name": "ndim%d-nontuple" % ndim, "ndim": ndim, "key": None}

    def setup(self, S, case):
        if case["key"] is None:
            marker = _NonTuple(0)
            return {"items": [marker], "key": marker, "args": (marker, case["ndim"])}
        items = [_NonTuple(i) for i, t in enumerate(case["key"]) if t == "x"]
        it = iter(items)
        key = tuple(Ellipsis if t == "E" else next(it) for t in case["key"])
        return {"items": items, "key": key, "args": (key, case["ndim"])}

    def _too_many(self, case):
        if case["key"] is None:
            return 1 > case["ndim"]
        k = case["key"]
        n_items = k.count("x")
        if "E" in k:
            # first ellipsis expands to ndim + 1 - len(key) (if positive), later ones to one slice each
            total = n_items + max(case["ndim"] + 1 - len(k), 0) + (k.count("E") - 1)
        else:
            total = n_items
        return total > case["ndim"]

    def raises(self, S, case, env):
        return {IndexError: self._too_many(case)}

    def post(self, S, case, env, result):
        full = slice(None)
        yield "is-tuple-of-length-ndim", isinstance(result, tuple) and len(result) == case["ndim"]
        non_full = [r for r in result if not (isinstance(r, slice) and r == full)]
        if case["key"] is None:
            yield "items-kept-in-order", len(non_full) == 1 and non_full[0] is env["args"][0]
        else:
            yield "items-kept-in-order", len(non_full) == len(env["items"]) and all(a is b for a, b in zip(non_full, env["items"]))
            k = case["key"]
            if "E" in k:
                lead = k.index("E")
                yield "items-before-ellipsis-stay-in-front", all(result[i] is env["items"][i] for i in range(lead))
                trail = len(k) - 1 - max(i for i, t in enumerate(k) if t == "E")
                yield "items-after-last-ellipsis-stay-at-the-end", all(
                    result[len(result) - 1 - j] is env["items"][len(env["items"]) - 1 - j] for j in range(trail)) if k.count("E") == 1 else True
            else:
                yield "items-lead", all(result[i] is env["items"][i] for i in range(len(env["items"])))

    def canaries(self, S, case, env, result):
        yield "one-entry-too-many", len(result) == case["ndim"] + 1


class _NonTuple(object):
    """an opaque index item"""
    def __init__(self, i):
        self.i = i
    def __repr__(self):
        return "item%d" % self.i


KINDS = "biufcOUSMm"


class MaybeCastType(Contract):
    """_maybe_cast_type(values, newval): the returned array holds the same elements and has a dtype kind
    that can hold `newval` losslessly per the documented table (i<-f gives f, S<-U gives U, anything
    else that does not fit gives O); unchanged kinds return the very same array.  [C03, C07, C17]"""
    target = "dimarray.core.indexing:_maybe_cast_type"
    props = ("C03",)
    bound_names = ("values.n",)

    def cases(self, tier):
        for a in "bifO":
            for b in "bifO":
                yield {"name": "%s<-%s" % (a, b), "old": a, "new": b}

    def setup(self, S, case):
        kind = {"b": "b", "i": "I", "f": "f", "O": "O"}[case["old"]]
        values = S.array1d("values", kind)
        newval = {"b": lambda: S.bool("newval"), "i": lambda: S.int("newval"), "f": lambda: S.real("newval"),
                  "O": lambda: S.strlabel("newval")}[case["new"]]()
        return {"values": values, "newval": newval, "args": (values, newval)}

    @staticmethod
    def expected(old, new):
        if old == new or old == "O":
            return old
        if old == "f" and new == "i":
            return "f"
        if old == "i" and new == "f":
            return "f"
        return "O"

    def post(self, S, case, env, result):
        exp = self.expected(case["old"], case["new"])
        yield "kind-per-table", S.kind(result) == exp
        yield "same-length", S.n(result) == S.n(env["values"])
        yield "elements-preserved", S.forall(0, S.n(env["values"]), lambda i: S.at(result, i) == S.at(env["values"], i))
        if exp == case["old"]:
            yield "unchanged-kind-returns-same-array", result is env["values"]
        else:
            yield "cast-is-a-fresh-array", S.lnot(S.same_buffer(result, env["values"]))

    def canaries(self, S, case, env, result):
        yield "kind-differs-from-table", S.kind(result) != self.expected(case["old"], case["new"])
