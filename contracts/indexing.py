"""Contracts for dimarray/core/indexing.py"""
from dverif.contract_base import Contract
from .common import (in_slice, slice_bounds, strictly_increasing, strictly_decreasing, unique,
                     first_occurrence, absent)

STEPS = (None, 1, 2, 3, -1, -2)


class LocateSlice(Contract):
    """locate_slice on a strictly monotonic numeric axis: the returned (istart, istop) with the
    caller's step selects exactly the bounding box [start, stop] in travel order (C02)."""
    target = "dimarray.core.indexing:locate_slice"
    props = ("C02",)
    inlined = ("is_numeric", "is_monotonic_equal", "is_increasing_equal", "is_decreasing_equal", "_is_ordered")
    bound_names = ("values.n",)

    def cases(self, tier):
        for kind in ("f", "i"):
            for direction in ("inc", "dec"):
                for step in STEPS:
                    for has_start in (True, False):
                        for has_stop in (True, False):
                            if kind == "i" and tier == "quick" and step in (3, -2):
                                continue
                            yield {"name": "%s-%s-step%s-%s%s" % (kind, direction, step, "a" if has_start else "_", "b" if has_stop else "_"),
                                   "kind": kind, "dir": direction, "step": step, "has_start": has_start, "has_stop": has_stop}

    def setup(self, S, case):
        values = S.array1d("values", case["kind"])
        if case["dir"] == "dec":
            S.assume(S.n(values) >= 2, "a decreasing axis has at least two labels (shorter axes count as increasing)")
        if case["dir"] == "inc":
            S.assume(strictly_increasing(S, values), "labels strictly increasing")
        else:
            S.assume(strictly_decreasing(S, values), "labels strictly decreasing")
        start = S.real("start") if case["has_start"] else None
        stop = S.real("stop") if case["has_stop"] else None
        return {"values": values, "start": start, "stop": stop, "step": case["step"],
                "args": (values, start, stop, case["step"])}

    def raises(self, S, case, env):
        return {}       # numeric bounds on a numeric monotonic axis: no exception for any length (incl. 0)

    def _inbox(self, S, case, env, p):
        L = S.at(env["values"], p)
        step = 1 if case["step"] is None else case["step"]
        sgn = (1 if case["dir"] == "inc" else -1) * (1 if step > 0 else -1)
        cs = []
        if env["start"] is not None:
            cs.append(env["start"] <= L if sgn > 0 else env["start"] >= L)
        if env["stop"] is not None:
            cs.append(L <= env["stop"] if sgn > 0 else L >= env["stop"])
        return S.land(*cs)

    def post(self, S, case, env, result):
        n = S.n(env["values"])
        istart, istop = result
        step = 1 if case["step"] is None else case["step"]
        tau = 1 if step > 0 else -1
        lo, hi = slice_bounds(S, n, istart, istop, step)
        ins = lambda p: in_slice(S, n, istart, istop, step, p)
        box = lambda p: self._inbox(S, case, env, p)
        yield "selected-inside-box", S.forall(0, n, lambda p: S.implies(ins(p), box(p)))
        yield "starts-at-first-in-travel-order", S.forall(0, n, lambda q: S.implies(
            box(q), S.land(0 <= lo, lo < n, box(lo), tau * lo <= tau * q)))
        yield "every-step-th-inside-box-selected", S.forall(0, n, lambda p: S.implies(
            S.land(box(p), tau * (p - lo) >= 0, S.mod(tau * (p - lo), abs(step)) == 0), ins(p)))

    def canaries(self, S, case, env, result):
        n = S.n(env["values"])
        istart, istop = result
        step = 1 if case["step"] is None else case["step"]
        # false: "the stop bound is exclusive" -- a label equal to `stop` is never selected
        if env["stop"] is not None:
            yield "stop-exclusive", S.forall(0, n, lambda p: S.implies(
                in_slice(S, n, istart, istop, step, p), S.at(env["values"], p) != env["stop"]))
        else:
            yield "never-selects-anything", S.forall(0, n, lambda p: S.lnot(in_slice(S, n, istart, istop, step, p)))
