"""Contracts for attribute routing (GetSetDelAttrMixin) and axis-level metadata  [C16]"""
from dverif.contract_base import Contract
from .common import assume_order


class _Sentinel(object):
    def __init__(self, tag):
        self.tag = tag

    def __repr__(self):
        return "<%s>" % self.tag


def _make(S, kind):
    """a small concrete object of each class that mixes in GetSetDelAttrMixin"""
    da = S.da
    if kind == "Axis":
        obj = da.Axis(S.concrete_array([10.0, 20.0, 30.0]), "x0")
        dims = ()
    elif kind == "DimArray":
        obj = da.DimArray(S.concrete_array([[1.0, 2.0, 3.0], [4.0, 5.0, 6.0]]),
                          axes=[("x0", S.concrete_array([10.0, 20.0])), ("x1", S.concrete_array([1.0, 2.0, 3.0]))])
        dims = ("x0", "x1")
    elif kind == "Dataset":
        a = da.DimArray(S.concrete_array([1.0, 2.0]), axes=[("x0", S.concrete_array([10.0, 20.0]))])
        obj = da.Dataset()
        obj["v"] = a
        dims = ("x0",)
    else:
        raise ValueError(kind)
    return obj, dims


# one representative name per class of names the routing code can distinguish; see AttrRouting's docstring
NAMES = {
    "Axis": {"public": "units", "private": "_hidden", "member": "values", "member2": "name", "member3": "size", "dim": None},
    "DimArray": {"public": "units", "private": "_hidden", "member": "values", "member2": "axes", "member3": "shape", "dim": "x1"},
    "Dataset": {"public": "units", "private": "_hidden", "member": "axes", "member2": "dims", "member3": "keys", "dim": "x0"},
}


class AttrRouting(Contract):
    """obj.name / obj.name = v / del obj.name on DimArray, Dataset and Axis.

    The routing code can do only three things with a name: compare it for equality with the finitely many strings it
    knows (class members via hasattr, the __metadata_exclude__ / __metadata_include__ lists, the dimension names, the keys
    of attrs) and test whether it starts with an underscore.  Names therefore fall into the classes
    {public, underscore-prefixed, class member, dimension name} x {present in attrs, absent}; the functions are loop-free,
    so ONE execution per (class of object, operation, class of name, presence) is a complete case analysis -- *given that
    parametricity argument*, which is an assumption of this check, not something it proves.  Expected behaviour, from the
    statement: public non-member names read / write / delete `attrs`; a dimension name reads / writes that axis' labels;
    underscore and member names never enter `attrs`, and an entry stored in `attrs` under such a name is neither reachable
    nor deletable through attribute syntax.  [C16]"""
    target = "dimarray.core.bases:GetSetDelAttrMixin.__getattr__"
    props = ("C16",)

    def cases(self, tier):
        for kind in ("Axis", "DimArray", "Dataset"):
            for nclass in ("public", "private", "member", "member2", "member3", "dim"):
                if NAMES[kind][nclass] is None:
                    continue
                for op in ("get", "set", "del"):
                    for in_attrs in (False, True):
                        yield {"name": "%s-%s-%s-%s" % (kind, op, nclass, "inattrs" if in_attrs else "absent"),
                               "kind": kind, "op": op, "nclass": nclass, "in_attrs": in_attrs}
            # The strings the routing code itself singles out -- every entry of the class's own __metadata_include__ /
            # __metadata_exclude__ lists (read from the REAL class on every run, along its whole MRO) -- are name classes of
            # their own.  What must happen to them follows from what they look like: an underscore name or a class member
            # "never enters attrs" whatever list it is on; anything else is an ordinary public name.
            for listed in self._listed_names(kind):
                for op in ("get", "set", "del"):
                    for in_attrs in (False, True):
                        yield {"name": "%s-%s-listed:%s-%s" % (kind, op, listed, "inattrs" if in_attrs else "absent"),
                               "kind": kind, "op": op, "nclass": "listed", "listed": listed, "in_attrs": in_attrs}

    @staticmethod
    def _listed_names(kind):
        from dverif import loader
        cls = getattr(loader.load(), kind)
        out = []
        for k in cls.__mro__:
            for attr in ("__metadata_include__", "__metadata_exclude__"):
                for nm in k.__dict__.get(attr, ()):
                    if isinstance(nm, str) and nm not in out:
                        out.append(nm)
        return out

    def setup(self, S, case):
        obj, dims = _make(S, case["kind"])
        if case["nclass"] == "listed":
            name = case["listed"]
            # classify the listed name by what it looks like (this is what decides the expected routing)
            if hasattr(type(obj), name):
                case = dict(case, nclass="member")
            elif name.startswith("_"):
                case = dict(case, nclass="private")
            elif name in dims:
                case = dict(case, nclass="dim")
            else:
                case = dict(case, nclass="public")
        else:
            name = NAMES[case["kind"]][case["nclass"]]
        stored = _Sentinel("stored-in-attrs")
        other = _Sentinel("other-entry")
        obj.attrs["keepme"] = other
        if case["in_attrs"]:
            obj.attrs[name] = stored           # put there directly, bypassing attribute syntax
        return {"obj": obj, "dims": dims, "attr": name, "stored": stored, "other": other,
                "attrs0": dict(obj.attrs), "new": _Sentinel("assigned"), "case": case}

    def call(self, fn, env):
        obj, name, op = env["obj"], env["attr"], env["case"]["op"]
        out = {"raised": None, "value": None}
        new = env["new"]
        if env["case"]["nclass"] == "dim" and op == "set":
            ax = obj.axes[name]
            new = env["new_labels"] = [float(100 + k) for k in range(len(ax.values.tolist()))]
        elif env["case"]["nclass"].startswith("member") and op == "set":
            try:
                new = getattr(obj, name)       # something the member's own setter accepts; the claim is only about attrs
            except Exception:
                pass
        try:
            if op == "get":
                out["value"] = getattr(obj, name)
            elif op == "set":
                setattr(obj, name, new)
            else:
                delattr(obj, name)
        except Exception as e:
            out["raised"] = type(e)
        return out

    def post(self, S, case, env, result):
        case = env["case"]            # (a name taken from an include / exclude list has been classified in setup)
        obj, name, op, nclass = env["obj"], env["attr"], case["op"], case["nclass"]
        attrs0, stored = env["attrs0"], env["stored"]
        routed_to_attrs = nclass == "public"
        yield "other-metadata-untouched", obj.attrs.get("keepme") is env["other"]
        if op == "get":
            if routed_to_attrs:
                if case["in_attrs"]:
                    yield "public-name-reads-attrs", result["raised"] is None and result["value"] is stored
                else:
                    yield "absent-public-name-raises-AttributeError", result["raised"] is AttributeError
            elif nclass == "dim":
                labels = obj.axes[name].values
                yield "dimension-name-reads-the-axis-labels", result["raised"] is None and result["value"] is labels
            else:
                yield "entry-under-private-or-member-name-not-reachable", result["value"] is not stored
            yield "get-does-not-change-attrs", dict(obj.attrs) == attrs0
        elif op == "set":
            if routed_to_attrs:
                yield "public-name-writes-attrs", result["raised"] is None and obj.attrs.get(name) is env["new"]
                yield "only-that-entry-changed", {k: v for k, v in obj.attrs.items() if k != name} == {k: v for k, v in attrs0.items() if k != name}
            elif nclass == "dim":
                yield "dimension-name-writes-the-axis-labels", result["raised"] is None and obj.axes[name].values.tolist() == env["new_labels"]
                yield "attrs-untouched-by-a-dimension-write", dict(obj.attrs) == attrs0
            else:
                yield "private-or-member-name-never-enters-attrs", dict(obj.attrs) == attrs0
        else:
            if routed_to_attrs:
                if case["in_attrs"]:
                    yield "public-name-deletes-from-attrs", result["raised"] is None and name not in obj.attrs
                    yield "only-that-entry-removed", dict(obj.attrs) == {k: v for k, v in attrs0.items() if k != name}
                else:
                    yield "absent-public-name-raises-AttributeError", result["raised"] is AttributeError
            elif nclass != "dim":
                yield "entry-under-private-or-member-name-not-deletable", dict(obj.attrs) == attrs0
            # (a dimension name "reads and writes that axis' labels"; the statement does not say what deleting it does)

    def canaries(self, S, case, env, result):
        yield "attrs-always-empty", len(env["obj"].attrs) == 0


class AttrsProperty(Contract):
    """obj.attrs = mapping replaces the content (and keeps the same dict object); del obj.attrs empties it.  [C16]"""
    target = "dimarray.core.bases:AbstractHasMetadata.attrs"
    props = ("C16",)

    def cases(self, tier):
        for kind in ("Axis", "DimArray", "Dataset"):
            for op in ("assign", "delete"):
                yield {"name": "%s-%s" % (kind, op), "kind": kind, "op": op}

    def setup(self, S, case):
        obj, dims = _make(S, case["kind"])
        obj.attrs["old"] = 1
        return {"obj": obj, "dict0": obj.attrs}

    def call(self, fn, env):
        obj = env["obj"]
        if env["case"]["op"] == "assign":
            obj.attrs = {"a": 1, "b": [2]}
        else:
            del obj.attrs
        return obj.attrs

    def post(self, S, case, env, result):
        if case["op"] == "assign":
            yield "content-replaced", dict(result) == {"a": 1, "b": [2]}
        else:
            yield "emptied", dict(result) == {}
        yield "same-dict-object-kept", result is env["dict0"]

    def canaries(self, S, case, env, result):
        yield "old-entry-survives", "old" in result


class AxisMetadataSurvivesIndexing(Contract):
    """Axis.__getitem__ / Axis.take: the sub-axis keeps the axis' name, tolerance and metadata (a copy of the dict, not the
    same object); a full slice returns the axis itself; a scalar position returns the label.  [C16, C01]"""
    target = "dimarray.core.axes:Axis.__getitem__"
    props = ("C16", "C01")
    bound_names = ("lab.n", "idx.n")

    def cases(self, tier):
        for how in ("slice", "list", "mask", "take", "full", "scalar"):
            yield {"name": how, "how": how}

    def setup(self, S, case):
        L = S.array1d("lab", "f")
        assume_order(S, L, "unique")
        ax = S.da.Axis(L, "x0", tol=0.5, units="m", history=["made"])
        how = case["how"]
        if how == "slice":
            item = slice(S.int("a"), S.int("b"), None)
        elif how in ("list", "take"):
            item = S.array1d("idx", "I")
        elif how == "mask":
            item = S.array1d("idx", "b", n=S.n(L))
        elif how == "full":
            item = slice(None)
        else:
            item = S.int("p")
        return {"ax": ax, "L": L, "item": item, "attrs0": dict(ax.attrs)}

    def call(self, fn, env):
        if env["case"]["how"] == "take":
            return env["ax"].take(env["item"])
        return env["ax"][env["item"]]

    def raises(self, S, case, env):
        n = S.n(env["L"])
        how = case["how"]
        if how in ("list", "take"):
            q = env["item"]
            return {IndexError: S.exists(0, S.n(q), lambda j: S.lor(S.at(q, j) < -n, S.at(q, j) >= n))}
        if how == "scalar":
            return {IndexError: S.lor(env["item"] < -n, env["item"] >= n)}
        return {}

    def post(self, S, case, env, result):
        ax = env["ax"]
        how = case["how"]
        if how == "full":
            yield "full-slice-returns-the-axis-itself", result is ax
            return
        if how == "scalar":
            n, p = S.n(env["L"]), env["item"]
            yield "scalar-position-returns-the-label", result == S.at(env["L"], S.ite(p < 0, p + n, p))
            return
        yield "is-axis-with-same-name-and-tolerance", S.land(isinstance(result, S.da.Axis), result.name == "x0", result.tol == 0.5)
        yield "metadata-kept", dict(result.attrs) == env["attrs0"]
        yield "metadata-is-a-copy", result.attrs is not ax.attrs
        yield "source-axis-untouched", S.land(dict(ax.attrs) == env["attrs0"], ax.values is env["L"], ax.name == "x0")

    def canaries(self, S, case, env, result):
        if case["how"] not in ("full", "scalar"):
            yield "metadata-dropped", len(result.attrs) == 0
        elif case["how"] == "full":
            yield "full-slice-copies", result is not env["ax"]
        else:
            yield "always-first-label", result == S.at(env["L"], 0)


class CopyIndependence(Contract):
    """DimArray.copy() / Axis.copy() / Axes.copy() are deep: the copy has the same dims, labels, data and metadata, and
    shares NOTHING mutable with the original -- not the data buffer, not a label buffer, not an Axis object, not the attrs
    dictionary, not a mutable value stored in attrs.  (Object identity is exact here, so disjointness of the two object
    graphs is what "later changes to the copy never show through, and vice versa" means.)  copy(shallow=True) is a
    different function and deliberately shares.  [C15]"""
    target = "dimarray.core.dimarraycls:DimArray.copy"
    props = ("C15",)

    def cases(self, tier):
        for what in ("DimArray", "Axis", "Axes"):
            for rank in ((0, 1, 2, 3) if what == "DimArray" else (2,)):
                yield {"name": "%s-r%d" % (what, rank), "what": what, "rank": rank}

    def bound_lengths(self, case):
        return ["lab%d.n" % d for d in range(case["rank"])]

    def setup(self, S, case):
        from .bases import make_dimarray
        arr, labels, data = make_dimarray(S, case["rank"], attrs={"units": "K", "history": ["made"], "nested": {"k": [1]}})
        for ax in arr.axes:
            ax.attrs["long_name"] = ["axis", "meta"]
        return {"arr": arr, "labels": labels, "data": data}

    def call(self, fn, env):
        what = env["case"]["what"]
        if what == "DimArray":
            return env["arr"].copy()
        if what == "Axis":
            return env["arr"].axes[0].copy()
        return env["arr"].axes.copy()

    def post(self, S, case, env, result):
        arr, labels, data = env["arr"], env["labels"], env["data"]
        rank, what = case["rank"], case["what"]

        def axis_pair(new, old, L, tag):
            yield tag + ":equal", S.land(new.name == old.name, S.n(new.values) == S.n(L),
                                         S.forall(0, S.n(L), lambda k: S.implies(k < S.n(new.values), lambda: S.at(new.values, k) == S.at(L, k))),
                                         dict(new.attrs) == dict(old.attrs))
            yield tag + ":shares-nothing", S.land(new is not old, S.lnot(S.same_buffer(new.values, old.values)), new.attrs is not old.attrs,
                                                  new.attrs["long_name"] is not old.attrs["long_name"])
        if what == "Axis":
            for c in axis_pair(result, arr.axes[0], labels[0], "axis"):
                yield c
            return
        if what == "Axes":
            yield "same-number-of-axes", len(result) == rank and result is not arr.axes
            for d in range(rank):
                for c in axis_pair(result[d], arr.axes[d], labels[d], "axis%d" % d):
                    yield c
            return
        yield "is-dimarray-with-same-dims", S.land(S.is_dimarray(result), result is not arr, tuple(result.dims) == tuple(arr.dims))
        for d in range(rank):
            for c in axis_pair(result.axes[d], arr.axes[d], labels[d], "axis%d" % d):
                yield c
        yield "data-equal", S.forall_nd(S.shape(data), lambda *p: S.same(S.at(result.values, *p), S.at(data, *p)))
        yield "data-buffer-not-shared", S.lnot(S.same_buffer(result.values, arr.values))
        yield "metadata-equal", dict(result.attrs) == dict(arr.attrs)
        yield "metadata-and-its-mutable-values-not-shared", S.land(
            result.attrs is not arr.attrs, result.attrs["history"] is not arr.attrs["history"],
            result.attrs["nested"] is not arr.attrs["nested"], result.attrs["nested"]["k"] is not arr.attrs["nested"]["k"])
        yield "axes-container-not-shared", result.axes is not arr.axes
        yield "original-untouched", S.land(arr.values is data, *[arr.axes[d].values is labels[d] for d in range(rank)])

    def canaries(self, S, case, env, result):
        if case["what"] == "DimArray":
            yield "copy-is-the-original", result is env["arr"]
        elif case["what"] == "Axis":
            yield "copy-is-the-original", result is env["arr"].axes[0]
        else:
            yield "copy-is-the-original", result is env["arr"].axes
