"""Contracts for interp_axis / interp_like  [C18]"""
from dverif.contract_base import Contract
from .common import assume_order
from .bases import make_dimarray

ATTRS = {"units": "K", "history": ["made"]}


class Interp1D(Contract):
    """a.interp_axis(new, axis) for a one-dimensional array: the function makes exactly ONE call numpy.interp(new, xs, ys, left,
    right) (recorded by the harness) in which xs is ascending and (xs, ys) are the operand's (label, value) pairs -- sorted
    first when the labels are not stored in non-decreasing order, so the result does not depend on the storage order --, and
    returns that call's result on the axis `new` (exactly: same labels, same order, the axis' name kept) with the metadata;
    left / right are forwarded (NaN by default); the operand is untouched.  Exactness at the nodes and the fills outside the
    label range are then numpy.interp's own facts.  [C18]"""
    target = "dimarray.core.transform:interp_axis"
    props = ("C18", "C15", "C16")
    inlined = ("_get_axis_info", "Axis.__init__", "_interp_internal_maybe_sort", "sort_axis (own contract: SortAxis)", "_numpy_interp", "_constructor")

    def cases(self, tier):
        for order in ("inc", "dec", "unique"):
            for by in ("name", "position", "default"):
                for fills in ("default", "given"):
                    for issorted in (None, True) if order == "inc" else (None,):
                        for lk in ("f", "i"):
                            if lk == "i" and (by != "name" or fills != "default"):
                                continue
                            yield {"name": "%s-%s-by_%s-fills_%s-issorted_%s" % (lk, order, by, fills, issorted), "order": order, "by": by,
                                   "fills": fills, "issorted": issorted, "lk": lk}

    bound_names = ("lab0.n", "new.n")

    def setup(self, S, case):
        arr, labels, data = make_dimarray(S, 1, orders={0: case["order"]}, kinds=(case["lk"],), attrs=ATTRS)
        S.assume(S.n(labels[0]) >= 1, "at least one label (numpy.interp refuses an empty node array)")
        new = S.array1d("new", "f")
        env = {"arr": arr, "labels": labels, "data": data, "old": S.snapshot(data), "new": new, "attrs0": dict(arr.attrs), "calls": []}
        if case["fills"] == "given":
            env["left"], env["right"] = S.real("left"), S.real("right")
        return env

    def call(self, fn, env):
        import importlib
        case, arr = env["case"], env["arr"]
        mod = importlib.import_module("dimarray.core.transform")
        orig = mod._numpy_interp

        def recording(x, xp, yp, left=None, right=None):
            r = orig(x, xp, yp, left=left, right=right)
            env["calls"].append((x, xp, yp, left, right, r))
            return r
        mod._numpy_interp = recording
        try:
            kw = {}
            if case["by"] != "default":
                kw["axis"] = "x0" if case["by"] == "name" else 0
            if case["fills"] == "given":
                kw["left"], kw["right"] = env["left"], env["right"]
            if case["issorted"] is not None:
                kw["issorted"] = case["issorted"]
            return arr.interp_axis(env["new"], **kw)
        finally:
            mod._numpy_interp = orig

    def post(self, S, case, env, result):
        L, data, new = env["labels"][0], env["data"], env["new"]
        calls = env["calls"]
        yield "is-dimarray", S.is_dimarray(result)
        ok = len(calls) == 1
        yield "one-call-of-numpy-interp", ok
        if not ok:
            return
        x, xs, ys, left, right, r = calls[0]
        yield "evaluated-at-exactly-the-new-points", S.land(S.n(x) == S.n(new), S.forall(0, S.n(new), lambda k: S.implies(k < S.n(x), lambda: S.at(x, k) == S.at(new, k))))
        if case["fills"] == "given":
            yield "fills-forwarded", S.land(left is env["left"] or S.same(left, env["left"]), right is env["right"] or S.same(right, env["right"]))
        else:
            yield "fills-default-to-nan", S.land(S.isnan(left), S.isnan(right))
        # (successive nodes: what numpy.interp requires of xp; the global order follows by induction, which is not needed here)
        yield "nodes-ascending", S.forall(0, S.n(xs) - 1, lambda k: S.at(xs, k) <= S.at(xs, k + 1))
        n = S.n(L)
        yield "as-many-nodes-as-labels", S.land(S.n(xs) == n, S.n(ys) == n)
        if xs is L:
            yield "nodes-are-the-operands-label-value-pairs", ys is data
        else:
            rank = S.sort_rank(L)
            yield "nodes-are-the-operands-label-value-pairs", S.forall(0, n, lambda p: S.land(
                0 <= S.at(rank, p), S.at(rank, p) < n,
                S.implies(S.land(0 <= S.at(rank, p), S.at(rank, p) < n), lambda: S.land(S.at(xs, S.at(rank, p)) == S.at(L, p), S.same(S.at(ys, S.at(rank, p)), S.at(env["old"], p))))))
        yield "values-are-that-calls-result", S.land(S.n(result.values) == S.n(new), S.forall(0, S.n(new), lambda k: S.same(S.at(result.values, k), S.at(r, k))))
        Lr = result.axes[0].values
        yield "axis-is-exactly-the-new-points", S.land(tuple(result.dims) == ("x0",), S.n(Lr) == S.n(new), S.forall(0, S.n(new), lambda k: S.implies(k < S.n(Lr), lambda: S.at(Lr, k) == S.at(new, k))))
        yield "metadata-kept", dict(result.attrs) == env["attrs0"]
        arr = env["arr"]
        yield "operand-untouched", S.land(arr.values is data, arr.axes[0].values is L, dict(arr.attrs) == env["attrs0"],
                                          S.forall(0, n, lambda p: S.same(S.at(data, p), S.at(env["old"], p))))

    def canaries(self, S, case, env, result):
        yield "result-is-empty", S.n(result.values) == 0


def _reference(np, labels, data, new, axis, left, right):
    order = np.argsort(labels, kind="stable")
    xs = np.asarray(labels, dtype=float)[order]
    moved = np.moveaxis(np.asarray(data, dtype=float), axis, 0)[order]
    flat = moved.reshape(moved.shape[0], -1)
    out = np.empty((len(new), flat.shape[1]))
    for j in range(flat.shape[1]):
        out[:, j] = np.interp(new, xs, flat[:, j], left=left, right=right)
    return np.moveaxis(out.reshape((len(new),) + moved.shape[1:]), 0, axis)


def _same(np, x, y):
    x, y = np.asarray(x, dtype=float), np.asarray(y, dtype=float)
    return x.shape == y.shape and bool(np.all(np.isclose(x, y, rtol=1e-12, atol=1e-12) | (np.isnan(x) & np.isnan(y))))


class InterpND(Contract):
    """BOUNDED STAND-IN ONLY (never counted as proved).  interp_axis on arrays of rank 1-3 along every numeric axis: for every
    one-dimensional fibre along the axis the result is numpy.interp(new, labels sorted ascending, the fibre's values in that
    order, left, right) -- whatever order the labels are stored in --, it reproduces the original values at existing labels,
    gives the fills (NaN by default) outside the label range, the axis is exactly `new`, the other axes and the metadata are
    unchanged and the operand is untouched.  The N-d path recomputes positions and weights itself (floor / ceil / a
    fraction times a difference: nonlinear real arithmetic, outside the symbolic engine's reach); interp_like and the
    Dataset variant must agree with interp_axis.  Evaluated on the real code over unsorted distinct labels of length 1-3 over
    a 5-value alphabet, new points of length 0-3 over the same alphabet extended below and above, every NaN pattern of the
    family.  (Values compared with a relative tolerance of 1e-12: the two computations round differently.)  [C18]"""
    target = "dimarray.core.transform:interp_axis"
    props = ("C18",)
    native_only = True

    def cases(self, tier):
        for rank in (1, 2, 3):
            for d in range(rank):
                if d == 1:
                    continue      # dimension x1 carries string labels
                for fills in ("default", "given"):
                    for variant in ("interp_axis", "interp_like", "dataset"):
                        if variant != "interp_axis" and (fills == "given" and rank == 3):
                            continue
                        yield {"name": "r%d-axis%d-fills_%s-%s" % (rank, d, fills, variant), "rank": rank, "d": d, "fills": fills, "variant": variant}

    def setup(self, S, case):
        arr, labels, data = make_dimarray(S, case["rank"], kinds=("f", "O", "f"), attrs=ATTRS)
        for L in labels:
            S.assume(S.n(L) >= 1, "at least one label")
        new = S.array1d("new", "f")
        shift = S.real("shift")          # moves the new points below / above the label range
        env = {"arr": arr, "labels": labels, "data": data, "new": new, "shift": shift, "attrs0": dict(arr.attrs)}
        if case["fills"] == "given":
            env["left"], env["right"] = S.real("left"), S.real("right")
        return env

    def _new(self, env):
        import numpy as np
        return np.asarray(env["new"], dtype=float) + float(env["shift"])

    def call(self, fn, env):
        import numpy as np
        case, arr = env["case"], env["arr"]
        S = env["S"]
        kw = {}
        if case["fills"] == "given":
            kw["left"], kw["right"] = float(env["left"]), float(env["right"])
        new = self._new(env)
        name = "x%d" % case["d"]
        if case["variant"] == "interp_axis":
            return arr.interp_axis(new, axis=name, **kw)
        if case["variant"] == "interp_like":
            return arr.interp_like(S.da.Axes([S.da.Axis(new, name)]), **kw)
        ds = S.da.Dataset()
        ds["v"] = arr
        ds["w"] = S.da.DimArray(np.arange(3.), axes=[("other", [1., 2., 3.])])       # a variable without the axis
        out = ds.interp_axis(new, axis=name, **kw)
        env["ds_out"] = out
        return out["v"]

    def post(self, S, case, env, result):
        import numpy as np
        rank, d = case["rank"], case["d"]
        new = self._new(env)
        left = float(env["left"]) if case["fills"] == "given" else np.nan
        right = float(env["right"]) if case["fills"] == "given" else np.nan
        labels = [np.asarray(L) for L in env["labels"]]
        data = np.asarray(env["data"], dtype=float)
        ref = _reference(np, labels[d].astype(float), data, new, d, left, right)
        yield "is-dimarray-with-the-same-dims", S.is_dimarray(result) and tuple(result.dims) == tuple("x%d" % e for e in range(rank))
        yield "every-fibre-is-numpys-interp-of-the-sorted-nodes", _same(np, result.values, ref)
        yield "axis-is-exactly-the-new-points", list(np.asarray(result.axes[d].values, dtype=float)) == list(new)
        yield "other-axes-unchanged", all(list(result.axes[e].values) == list(labels[e]) for e in range(rank) if e != d)
        if case["variant"] != "dataset":
            yield "metadata-kept", dict(result.attrs) == env["attrs0"]
        else:
            out = env["ds_out"]
            yield "variable-without-the-axis-unchanged", list(out["w"].values) == [0., 1., 2.] and list(out["w"].axes[0].values) == [1., 2., 3.]
        arr = env["arr"]
        yield "operand-untouched", _same(np, arr.values, data) and all(list(arr.axes[e].values) == list(labels[e]) for e in range(rank)) and dict(arr.attrs) == env["attrs0"]


class InterpAtNodes(Contract):
    """BOUNDED STAND-IN ONLY (never counted as proved).  "It reproduces the original values at existing labels": interp_axis
    evaluated at the axis' own labels (in any order, repeats allowed) returns exactly the values stored at those labels --
    for finite values, NaN and +/-inf alike (a weighted sum `v + 0 * (v - v)` is NaN for an infinite v) --, for arrays of rank
    1-3 along every numeric axis, the Dataset variant included.  [C18]"""
    target = "dimarray.core.transform:interp_axis"
    props = ("C18",)
    native_only = True

    def cases(self, tier):
        for rank in (1, 2, 3):
            for d in range(rank):
                if d == 1:
                    continue
                for special in ("finite-or-nan", "inf", "-inf"):
                    for variant in ("interp_axis", "dataset"):
                        if variant == "dataset" and rank == 3:
                            continue
                        yield {"name": "r%d-axis%d-%s-%s" % (rank, d, special, variant), "rank": rank, "d": d, "special": special, "variant": variant}

    def setup(self, S, case):
        arr, labels, data = make_dimarray(S, case["rank"], kinds=("f", "O", "f"), attrs=ATTRS)
        for L in labels:
            S.assume(S.n(L) >= 1, "at least one label")
        return {"arr": arr, "labels": labels, "data": data, "q": S.array1d("q", "I"), "p": S.int("p")}

    def call(self, fn, env):
        import numpy as np
        case, S = env["case"], env["S"]
        labels = [np.asarray(L) for L in env["labels"]]
        data = np.array(env["data"], dtype=float)
        if case["special"] != "finite-or-nan" and data.size:
            flat = data.reshape(-1)
            flat[int(env["p"]) % flat.size] = np.inf if case["special"] == "inf" else -np.inf
        a = S.da.DimArray(data, axes=[("x%d" % e, L.copy()) for e, L in enumerate(labels)])
        d = case["d"]
        n = len(labels[d])
        q = [int(t) % n for t in np.asarray(env["q"])] or list(range(n))
        new = np.asarray(labels[d], dtype=float)[q]
        env.update({"a": a, "q": q, "data0": data.copy()})
        if case["variant"] == "interp_axis":
            return a.interp_axis(new, axis="x%d" % d)
        ds = S.da.Dataset()
        ds["v"] = a
        return ds.interp_axis(new, axis="x%d" % d)["v"]

    def post(self, S, case, env, result):
        import numpy as np
        d, q = case["d"], env["q"]
        want = np.take(env["data0"], q, axis=d)
        got = np.asarray(result.values, dtype=float)
        yield "values-at-existing-labels-are-the-stored-values", got.shape == want.shape and bool(np.all((got == want) | (np.isnan(got) & np.isnan(want))))
        yield "operand-untouched", bool(np.all((env["a"].values == env["data0"]) | (np.isnan(env["a"].values) & np.isnan(env["data0"]))))
