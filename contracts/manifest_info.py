"""Claims per property (source of MANIFEST.json; regenerate with tools/gen_manifest.py)."""

TECH = "contract-based deductive verification (symbolic execution of the real source against sidecar contracts; z3 discharges every obligation; bounded counterexamples replayed natively)"

CLAIMS = {
    "C01": {
        "category": "proof",
        "text": "The whole read chain is under contract and every obligation is discharged by z3 for unbounded axis lengths, labels and data: locate_one (least matching position / nearest within tol, IndexError iff absent), locate_many (positions in bounds and exact for present labels), expanded_indexer, AbstractAxis.loc (against the three callee contracts), _get_indices (against AxisLoc; all spellings: tuple, bare, dict by name / by position, axis=name / position; label and position mode; tol; the three sources of the indexing mode incl. both values of the indexing.by option), _getitem (against GetIndices: full orthogonal view equation -- kept dims, labels L[src(k)], cells data[src(k)], scalar results, metadata copied, operand untouched) and the .loc/.iloc/.ix/.nloc/.sel/.isel/take plumbing. Rank is enumerated 0-2 (+ five rank-3 mixes) in quick and 0-3 in thorough; everything else is symbolic.",
        "note": "Assumed: the NumPy contract library (searchsorted, argsort, take/clip, boolean compress with witness enumeration, np.ix_ open-mesh advanced indexing incl. NumPy's placement rule, slice arithmetic); _expand_slice replaced by its definition (slice.indices needs concrete ints). Not covered by proof: the N-d boolean mask read (compress -> getaxes_broadcast) and indexing.broadcast=True; keepdims. Labels unique, never NaN; mathematical ints; floats as reals.",
        "technique": TECH,
    },
    "C03": {
        "category": "proof",
        "text": "_setitem is proved against the same GetIndices contract a read uses: with pos the position tuple, exactly the cells pos addresses change (closed-form membership for slices and masks, existential for position lists), each to the broadcast right-hand side at its selection coordinate, all other cells / labels / dims / metadata untouched; inplace=False leaves the receiver's buffer untouched and returns a modified deep copy; cast=True widens per _maybe_cast_type's table (itself proved for all 16 kind pairs among b/i/f/O) and without it a float stored into int data is truncated (modelled, so dropping the cast is a refuted obligation). N-d boolean masks with scalar values included. Ranks 1-2 quick, 1-3 thorough; sizes, labels, data symbolic.",
        "note": "Assumed: NumPy assignment semantics as modelled in symnp._setitem (basic + open-mesh integer arrays with last-write-wins, boolean masks, broadcasting of the value to the selection shape), deepcopy of arrays. List indices are taken duplicate-free (read-back is only well defined then). Array right-hand sides for label *slices* are covered with scalar values only.",
        "technique": TECH,
    },
    "C07": {
        "category": "proof",
        "text": "reindex_axis is proved against the locate_many contract (itself proved for both searchsorted sides with an explicit four-lemma argument over the sorted rank): the result's axis is exactly the new labels (order and repeats kept); every slice at a label that exists is the operand's slice at that label; missing labels are NaN-filled and integer data is widened to float if and only if something is filled; raise_error raises IndexError iff a label is missing; method='left'/'right' takes the slice of the first label >= / > the requested one in sorted order, or of the largest label; other axes equal, metadata copied, operand untouched. take_axis (positions incl. negative and repeated, other axes deep-copied) proved separately. Ranks 1-2, float / string / int labels, float / int data; all sizes, labels and data symbolic.",
        "note": "Assumed: NumPy contracts for argsort (permutation with explicit inverse), searchsorted(sorter=), take(mode=clip/raise), boolean-mask assignment, deepcopy. Labels unique and never NaN. reindex_like (a loop of reindex_axis over shared dimensions) is not separately under contract yet. Values given as ndarray or Axis; Python lists go through np.asarray (modelled).",
        "technique": TECH,
    },
    "C02": {
        "category": "proof",
        "text": "locate_slice, _locate_slice_strict (inlined), locate_one and the slice branch of AbstractAxis.loc are proved, for every axis length (0 included), every strictly monotonic numeric axis in both directions, all steps in {None,1,2,3,-1,-2}, every combination of present/absent bounds with arbitrary real values, and for unique string labels, to return a slice that visits exactly the inclusive bounding box / the run between the two labels, in travel order, never wrapped around. Unbounded in length, labels and bounds; discharged by z3 per path.",
        "note": "Assumed: NumPy's searchsorted / argsort / where / boolean-index contracts (dverif/symnp.py), mathematical integers, reals for floats, unique labels without NaN. Position slices (.ix) and the N-d combination are carried by C01's _get_indices contract. The non-monotonic numeric case reaches the strict branch (proved through LocateSlice strict-f cases). Solver stability: every obligation has discharged in every run observed, but about one run in four one decreasing-axis bounding-box obligation (out of ~3170) needs the fallback solver variant and >10 s; the check prints it as FRAGILE. searchsorted on a reversed buffer is stated re-indexed onto buffer positions (validated against NumPy 2.5.3 by brute force, lengths 0-4).",
        "technique": TECH,
    },
}

NOT_APPLICABLE = {
    "C20": "netCDF4 is not installed: dimarray.io.nc cannot be imported, every clause is a fact about the external library and the file; no contract within reach can be validated or replayed (DESIGN.md section 10)",
}

NOTES = "dverif: see DESIGN.md. Properties not yet listed under checks or not_applicable are still being brought under contract."
