"""Claims per property (source of MANIFEST.json; regenerate with tools/gen_manifest.py)."""

TECH = "contract-based deductive verification (symbolic execution of the real source against sidecar contracts; z3 discharges every obligation; bounded counterexamples replayed natively)"

CLAIMS = {
    "C02": {
        "category": "proof",
        "text": "locate_slice, _locate_slice_strict (inlined), locate_one and the slice branch of AbstractAxis.loc are proved, for every axis length (0 included), every strictly monotonic numeric axis in both directions, all steps in {None,1,2,3,-1,-2}, every combination of present/absent bounds with arbitrary real values, and for unique string labels, to return a slice that visits exactly the inclusive bounding box / the run between the two labels, in travel order, never wrapped around. Unbounded in length, labels and bounds; discharged by z3 per path.",
        "note": "Assumed: NumPy's searchsorted / argsort / where / boolean-index contracts (dverif/symnp.py), mathematical integers, reals for floats, unique labels without NaN. Position slices (.ix) and the N-d combination are carried by C01's _get_indices contract. The non-monotonic numeric case reaches the strict branch (proved through LocateSlice strict-f cases).",
        "technique": TECH,
    },
}

NOT_APPLICABLE = {
    "C20": "netCDF4 is not installed: dimarray.io.nc cannot be imported, every clause is a fact about the external library and the file; no contract within reach can be validated or replayed (DESIGN.md section 10)",
}

NOTES = "dverif: see DESIGN.md. Properties not yet listed under checks or not_applicable are still being brought under contract."
