"""Contracts for dimarray/core/operation.py: arithmetic between DimArrays, scalars and ndarrays  [C04]"""
import operator

from dverif.contract_base import Contract
from dverif.stubs import stub_of
from .common import assume_order, absent
from .align import ReindexAxis, GetAlignedAxes

OPS = {"add": operator.add, "subtract": operator.sub, "multiply": operator.mul, "true_divide": operator.truediv,
       "floor_divide": operator.floordiv, "power": operator.pow}
ATTRS = {"units": "K"}


def _make(S, t, dims):
    labs, axes = {}, []
    for d in dims:
        L = S.array1d("a%d.%s" % (t, d), "O" if d == "y" else "f")      # x: numeric labels, y: string labels
        assume_order(S, L, "unique")
        labs[d] = L
        axes.append(S.da.Axis(L, d))
    data = S.arraynd("a%d.data" % t, "f", tuple(S.n(labs[d]) for d in dims))
    arr = S.da.DimArray(data, axes=axes)
    arr.attrs.update(ATTRS)
    return arr, labs, data


class Operation(Contract):
    """a op b for two DimArrays (op in + - * / // **): the result's dimensions are a's, in a's order, followed by those only b
    has; every shared dimension carries the COMMON axis _get_aligned_axes computes for (a, b) with the default outer join
    (each label of either operand once: AxisUnion's contract, C06) and every other dimension its operand's labels; the cell
    at every label coordinate is NumPy's op of a's cell and b's cell at that coordinate -- matched by LABEL along every
    dimension the operand has and broadcast along those it lacks, whatever order the dimensions and labels are stored in --
    and NaN (NumPy's op with a NaN operand) where an operand has no such label; the result shares no axis with the operands,
    carries none of their metadata, and the operands are untouched.  [C04, C15, C16]"""
    target = "dimarray.core.operation:operation"
    props = ("C04", "C15", "C16")
    uses = (stub_of(ReindexAxis), stub_of(GetAlignedAxes))
    inlined = ("OpMixin operators", "_binary_op", "align (own contract: Align, C06)", "align_dims", "get_dims",
               "reshape -> unflatten / squeeze / transpose / newaxis / flatten (own contracts, C10 / C11)", "Axis.copy", "_constructor")
    max_paths = 800

    CONFIGS = {
        "x|x": (["x"], ["x"]),
        "x|y": (["x"], ["y"]),
        "xy|x": (["x", "y"], ["x"]),
        "xy|y": (["x", "y"], ["y"]),
        "x|xy": (["x"], ["x", "y"]),
        "y|xy": (["y"], ["x", "y"]),
        "xy|yx": (["x", "y"], ["y", "x"]),
        "xy|xy": (["x", "y"], ["x", "y"]),
        "0|x": ([], ["x"]),
        "x|0": (["x"], []),
        # three dimensions, partly shared, in different orders (thorough tier)
        "xyz|zx": (["x", "y", "z"], ["z", "x"]),
        "zx|xyz": (["z", "x"], ["x", "y", "z"]),
    }

    QUICK = {"x|x": tuple(OPS), "x|y": ("add", "power"), "xy|x": ("add",), "x|xy": ("true_divide",), "y|xy": ("subtract",), "xy|yx": ("add",),
             "0|x": ("multiply",), "x|0": ("add",)}

    def cases(self, tier):
        for cfg in self.CONFIGS:
            for op in OPS:
                if tier == "quick" and op not in self.QUICK.get(cfg, ()):
                    continue
                yield {"name": "%s-%s" % (cfg, op), "cfg": cfg, "op": op}

    def bound_lengths(self, case):
        da, db = self.CONFIGS[case["cfg"]]
        return ["a0.%s.n" % d for d in da] + ["a1.%s.n" % d for d in db]

    def setup(self, S, case):
        da, db = self.CONFIGS[case["cfg"]]
        a, la, xa = _make(S, 0, da)
        b, lb, xb = _make(S, 1, db)
        return {"a": a, "b": b, "labels": [la, lb], "datas": [xa, xb], "old": [S.snapshot(xa), S.snapshot(xb)], "dims": [da, db],
                "axes0": [list(a.axes), list(b.axes)]}

    def call(self, fn, env):
        return OPS[env["case"]["op"]](env["a"], env["b"])

    def raises(self, S, case, env):
        return {IndexError: False}

    def _common(self, S, env):
        calls = S.calls("GetAlignedAxes")
        if calls:
            return {ax.name: ax.values for ax in calls[-1][3]}
        import importlib
        mod = importlib.import_module("dimarray.core.align")
        return {ax.name: ax.values for ax in mod._get_aligned_axes([env["a"], env["b"]])}

    def post(self, S, case, env, result):
        da, db = env["dims"]
        shared = [d for d in da if d in db]
        rdims = list(da) + [d for d in db if d not in da]
        yield "is-dimarray", S.is_dimarray(result)
        ok = tuple(result.dims) == tuple(rdims)
        yield "dims-are-the-first-operands-then-the-new-ones", ok
        if not ok:
            return
        common = self._common(S, env) if shared else {}
        la, lb = env["labels"]
        R = {}
        for i, d in enumerate(rdims):
            Lr = result.axes[i].values
            want = common[d] if d in shared else (la[d] if d in da else lb[d])
            R[d] = Lr
            yield "%s:%s" % (d, "carries-the-common-axis" if d in shared else "carries-its-operands-labels"), S.land(
                S.n(Lr) == S.n(want), S.forall(0, S.n(want), lambda k, Lr=Lr, want=want: S.implies(k < S.n(Lr), lambda: S.at(Lr, k) == S.at(want, k))))
        yield "no-axis-shared-with-an-operand", all(result.axes[i] is not ax for i in range(len(rdims)) for axes in env["axes0"] for ax in axes)
        rv, (oa, ob) = result.values, env["old"]
        op = case["op"]
        shape = [S.n(R[d]) for d in rdims]
        na = {d: S.n(la[d]) for d in da}
        nb = {d: S.n(lb[d]) for d in db}

        def cells(k, body):
            """forall positions p (in a) and q (in b) whose labels are the result's labels at k: body(p, q)"""
            kk = dict(zip(rdims, k))

            def over_b(p):
                def inner(*q):
                    qq = dict(zip(db, q))
                    match = S.land(*([S.at(la[d], p[d]) == S.at(R[d], kk[d]) for d in da] + [S.at(lb[d], qq[d]) == S.at(R[d], kk[d]) for d in db]))
                    return S.implies(match, lambda: body(p, qq))
                return S.forall_nd([nb[d] for d in db], inner) if db else inner()
            return S.forall_nd([na[d] for d in da], lambda *p: over_b(dict(zip(da, p)))) if da else over_b({})

        yield "cell-is-numpys-op-of-both-operands-cells-at-that-label-coordinate", S.forall_nd(shape, lambda *k: cells(k, lambda p, q: S.same(
            S.at(rv, *k), S.op(op, S.at(oa, *[p[d] for d in da]), S.at(ob, *[q[d] for d in db])))))
        if shared and op != "power":
            def missing(*k):
                kk = dict(zip(rdims, k))
                lacks = S.lor(*([absent(S, la[d], S.at(R[d], kk[d])) for d in shared] + [absent(S, lb[d], S.at(R[d], kk[d])) for d in shared]))
                return S.implies(lacks, lambda: S.isnan(S.at(rv, *k)))
            yield "nan-where-an-operand-has-no-such-label", S.forall_nd(shape, missing)
        yield "no-metadata-of-the-operands", len(result.attrs) == 0
        for t, nm in ((0, "a"), (1, "b")):
            x = env[nm]
            yield "operand-%s-untouched" % nm, S.land(
                x.values is env["datas"][t], tuple(x.dims) == tuple(env["dims"][t]), dict(x.attrs) == ATTRS,
                all(u is v for u, v in zip(x.axes, env["axes0"][t])),
                S.forall_nd(S.shape(env["old"][t]), lambda *p, t=t: S.same(S.at(env["datas"][t], *p), S.at(env["old"][t], *p))),
                *[S.land(S.n(x.axes[i].values) == S.n(env["labels"][t][d]), x.axes[i].name == d) for i, d in enumerate(env["dims"][t])])

    def canaries(self, S, case, env, result):
        yield "result-is-empty", S.shape(result.values)[0] == 0 if len(S.shape(result.values)) else S.isnan(result.values if not S.is_dimarray(result) else S.at(result.values))


class UnaryOperation(Contract):
    """-a, +a (float data) and ~a (boolean data): NumPy's unary op on .values cell by cell, a's axes unchanged (equal labels, not
    the same objects as far as the binary operators go), none of the operand's metadata on the result (unary operators are
    arithmetic in the sense of C16), the operand untouched.  [C04's scalar sentence by analogy; C16, C15]"""
    target = "dimarray.core.dimarraycls:DimArray._unary_op"
    props = ("C04", "C16", "C15")
    inlined = ("OpMixin.__neg__ / __pos__ / __invert__", "_constructor")

    def cases(self, tier):
        for op in ("neg", "pos", "invert"):
            for rank in (1, 2):
                yield {"name": "%s-r%d" % (op, rank), "op": op, "rank": rank}

    def bound_lengths(self, case):
        return ["a0.%s.n" % d for d in ("x", "y")[:case["rank"]]]

    def setup(self, S, case):
        dims = ["x", "y"][:case["rank"]]
        a, la, xa = _make(S, 0, dims)
        if case["op"] == "invert":
            xa = S.arraynd("a0.mask", "b", tuple(S.n(la[d]) for d in dims))
            a = S.da.DimArray(xa, axes=[S.da.Axis(la[d], d) for d in dims])
            a.attrs.update(ATTRS)
        return {"a": a, "labels": la, "data": xa, "old": S.snapshot(xa), "dims": dims, "axes0": list(a.axes)}

    def call(self, fn, env):
        a, op = env["a"], env["case"]["op"]
        return -a if op == "neg" else (+a if op == "pos" else ~a)

    def post(self, S, case, env, result):
        dims, la = env["dims"], env["labels"]
        yield "is-dimarray", S.is_dimarray(result)
        ok = tuple(result.dims) == tuple(dims)
        yield "dims-unchanged", ok
        if not ok:
            return
        for i, d in enumerate(dims):
            Lr, L = result.axes[i].values, la[d]
            yield "%s:labels-unchanged" % d, S.land(S.n(Lr) == S.n(L), S.forall(0, S.n(L), lambda k, Lr=Lr, L=L: S.implies(k < S.n(Lr), lambda: S.at(Lr, k) == S.at(L, k))))
        shape = [S.n(la[d]) for d in dims]
        old, rv, op = env["old"], result.values, case["op"]
        if op == "neg":
            body = lambda *k: S.same(S.at(rv, *k), -S.at(old, *k))
        elif op == "pos":
            body = lambda *k: S.same(S.at(rv, *k), S.at(old, *k))
        else:
            body = lambda *k: S.at(rv, *k) == S.lnot(S.at(old, *k))
        yield "cell-is-numpys-op-on-the-values", S.forall_nd(shape, body)
        yield "no-metadata-of-the-operand", len(result.attrs) == 0
        yield "a-new-array", S.land(result is not env["a"], S.lnot(S.same_buffer(result.values, env["a"].values)))
        a = env["a"]
        yield "operand-untouched", S.land(a.values is env["data"], all(u is v for u, v in zip(a.axes, env["axes0"])), dict(a.attrs) == ATTRS,
                                          S.forall_nd(shape, lambda *p: S.same(S.at(env["data"], *p), S.at(old, *p)) if op != "invert" else S.at(env["data"], *p) == S.at(old, *p)))

    def canaries(self, S, case, env, result):
        yield "result-is-empty", S.shape(result.values)[0] == 0


class ScalarOperation(Contract):
    """a op s, s op a (s a scalar) and a op v (v a plain ndarray of a's shape, right operand only): NumPy's op on .values,
    cell by cell, with a's axes unchanged (equal labels, not the same objects), for all six operators and both operand
    orders.  [C04]"""
    target = "dimarray.core.operation:operation"
    props = ("C04",)
    inlined = ("OpMixin operators incl. the reflected ones", "_binary_op", "_rbinary_op", "_constructor")

    def cases(self, tier):
        for op in OPS:
            for rank in (1, 2):
                for other in ("scalar-right", "scalar-left", "ndarray-right"):
                    if rank == 2 and tier == "quick" and op not in ("add", "true_divide"):
                        continue
                    yield {"name": "%s-r%d-%s" % (op, rank, other), "op": op, "rank": rank, "other": other}

    def bound_lengths(self, case):
        return ["a0.%s.n" % d for d in ("x", "y")[:case["rank"]]]

    def setup(self, S, case):
        dims = ["x", "y"][:case["rank"]]
        a, la, xa = _make(S, 0, dims)
        env = {"a": a, "labels": la, "data": xa, "old": S.snapshot(xa), "dims": dims, "axes0": list(a.axes)}
        if case["other"] == "ndarray-right":
            env["v"] = S.arraynd("v", "f", tuple(S.n(la[d]) for d in dims))
        else:
            env["s"] = S.real("s")
        return env

    def call(self, fn, env):
        case, f = env["case"], OPS[env["case"]["op"]]
        if case["other"] == "scalar-right":
            return f(env["a"], env["s"])
        if case["other"] == "scalar-left":
            return f(env["s"], env["a"])
        return f(env["a"], env["v"])

    def post(self, S, case, env, result):
        dims, la = env["dims"], env["labels"]
        yield "is-dimarray", S.is_dimarray(result)
        ok = tuple(result.dims) == tuple(dims)
        yield "dims-unchanged", ok
        if not ok:
            return
        for i, d in enumerate(dims):
            Lr, L = result.axes[i].values, la[d]
            yield "%s:labels-unchanged" % d, S.land(S.n(Lr) == S.n(L), S.forall(0, S.n(L), lambda k, Lr=Lr, L=L: S.implies(k < S.n(Lr), lambda: S.at(Lr, k) == S.at(L, k))))
        shape = [S.n(la[d]) for d in dims]
        op, old, rv = case["op"], env["old"], result.values
        if case["other"] == "scalar-right":
            body = lambda *k: S.same(S.at(rv, *k), S.op(op, S.at(old, *k), env["s"]))
        elif case["other"] == "scalar-left":
            body = lambda *k: S.same(S.at(rv, *k), S.op(op, env["s"], S.at(old, *k)))
        else:
            body = lambda *k: S.same(S.at(rv, *k), S.op(op, S.at(old, *k), S.at(env["v"], *k)))
        yield "cell-is-numpys-op-on-the-values", S.forall_nd(shape, body)
        yield "no-metadata-of-the-operand", len(result.attrs) == 0
        a = env["a"]
        yield "operand-untouched", S.land(a.values is env["data"], all(u is v for u, v in zip(a.axes, env["axes0"])), dict(a.attrs) == ATTRS,
                                          S.forall_nd(shape, lambda *p: S.same(S.at(env["data"], *p), S.at(old, *p))))

    def canaries(self, S, case, env, result):
        yield "result-is-empty", S.shape(result.values)[0] == 0


class Comparison(Contract):
    """a < s, a <= s, a > s, a >= s, a == s, a != s (s a scalar) and a cmp b for a DimArray b over EQUAL axes: a boolean DimArray
    with NumPy's comparison cell by cell, over a's own dims and labels, WITHOUT the operands' metadata; for a DimArray b whose
    axes differ the ordering operators raise ValueError and == answers False; operands untouched.  [C16, C15]"""
    target = "dimarray.core.dimarraycls:DimArray._cmp"
    props = ("C16", "C15")
    inlined = ("_to_array_equiv", "Axes.__ne__ / Axis.__eq__", "_constructor")

    CMPS = {"lt": operator.lt, "le": operator.le, "gt": operator.gt, "ge": operator.ge, "eq": operator.eq, "ne": operator.ne}

    def cases(self, tier):
        for cmp in self.CMPS:
            for other in ("scalar", "dimarray-same-axes", "dimarray-other-labels"):
                if other != "scalar" and cmp in ("le", "ge", "ne") and tier == "quick":
                    continue
                yield {"name": "%s-%s" % (cmp, other), "cmp": cmp, "other": other}

    def bound_lengths(self, case):
        return ["a0.x.n"] + (["a1.x.n"] if case["other"] == "dimarray-other-labels" else [])

    def setup(self, S, case):
        a, la, xa = _make(S, 0, ["x"])
        env = {"a": a, "la": la, "data": xa, "old": S.snapshot(xa), "axes0": list(a.axes)}
        if case["other"] == "scalar":
            env["s"] = S.real("s")
        elif case["other"] == "dimarray-same-axes":
            xb = S.arraynd("a1.data", "f", (S.n(la["x"]),))
            env["b"] = S.da.DimArray(xb, axes=[S.da.Axis(la["x"].copy(), "x")])
            env["bdata"] = xb
        else:
            b, lb, xb = _make(S, 1, ["x"])
            env["b"], env["lb"], env["bdata"] = b, lb, xb
        return env

    def call(self, fn, env):
        case = env["case"]
        rhs = env["s"] if case["other"] == "scalar" else env["b"]
        return self.CMPS[case["cmp"]](env["a"], rhs)

    def _differ(self, S, env):
        la, lb = env["la"]["x"], env["lb"]["x"]
        return S.lor(S.n(la) != S.n(lb), S.exists(0, S.n(la), lambda k: S.implies(k < S.n(lb), lambda: S.at(la, k) != S.at(lb, k))))

    def raises(self, S, case, env):
        if case["other"] == "dimarray-other-labels" and case["cmp"] not in ("eq", "ne"):
            return {ValueError: self._differ(S, env)}
        return {}

    def post(self, S, case, env, result):
        cmp, la, old = case["cmp"], env["la"]["x"], env["old"]
        n = S.n(la)
        if case["other"] == "dimarray-other-labels" and cmp in ("eq", "ne"):
            # axes differ: == answers False, != answers True (a plain bool); equal axes: as below
            yield "plain-bool-iff-the-axes-differ", S.iff(self._differ(S, env), not S.is_dimarray(result))
            if not S.is_dimarray(result):
                yield "answer-when-the-axes-differ", result is (cmp == "ne")
                return
        yield "is-dimarray-over-the-operands-dims", S.is_dimarray(result) and tuple(result.dims) == ("x",)
        Lr = result.axes[0].values
        yield "labels-are-the-operands", S.land(S.n(Lr) == n, S.forall(0, n, lambda k: S.implies(k < S.n(Lr), lambda: S.at(Lr, k) == S.at(la, k))))
        f = {"lt": lambda x, y: x < y, "le": lambda x, y: x <= y, "gt": lambda x, y: x > y, "ge": lambda x, y: x >= y, "eq": lambda x, y: x == y, "ne": lambda x, y: x != y}[cmp]
        rhs = (lambda k: env["s"]) if case["other"] == "scalar" else (lambda k: S.at(env["bdata"], k))
        yield "boolean-result", S.kind(result.values) == "b"
        yield "numpys-comparison-cell-by-cell", S.forall(0, n, lambda k: S.iff(S.at(result.values, k), f(S.at(old, k), rhs(k))))
        yield "no-metadata-of-the-operands", len(result.attrs) == 0
        a = env["a"]
        yield "operand-untouched", S.land(a.values is env["data"], all(u is v for u, v in zip(a.axes, env["axes0"])), dict(a.attrs) == ATTRS,
                                          S.forall(0, n, lambda p: S.same(S.at(env["data"], p), S.at(old, p))))

    def canaries(self, S, case, env, result):
        if S.is_dimarray(result):
            yield "result-is-empty", S.n(result.values) == 0
        else:
            yield "always-true", result is True
