"""Contracts for dimarray/core/missingvalues.py and compress_axis  [C17]"""
from dverif.contract_base import Contract
from .bases import make_dimarray
from .align import other_axes_equal, cell


def _setup(S, rank, data_kind="f"):
    arr, labels, data = make_dimarray(S, rank, data_kind=data_kind, attrs={"units": "K"})
    return {"arr": arr, "labels": labels, "data": data, "old": S.snapshot(data), "attrs0": dict(arr.attrs)}


def _untouched(S, env, rank):
    arr = env["arr"]
    return S.land(S.forall_nd(S.shape(env["old"]), lambda *p: S.same(S.at(arr.values, *p), S.at(env["old"], *p))),
                  tuple(arr.dims) == tuple("x%d" % d for d in range(rank)), dict(arr.attrs) == env["attrs0"],
                  *[arr.axes[d].values is env["labels"][d] for d in range(rank)])


def _axes_and_meta(S, env, result, rank):
    yield "dims-kept", tuple(result.dims) == tuple("x%d" % d for d in range(rank))
    yield "all-axes-equal", other_axes_equal(S, result, env["labels"], -1)
    yield "metadata-kept", dict(result.attrs) == env["attrs0"]


class FillNa(Contract):
    """fillna(value): exactly the NaN cells become `value`, every other cell, all labels and metadata are kept; the operand
    is untouched unless inplace=True; integer data (which has no NaN) comes back as float with its values kept.  [C17]"""
    target = "dimarray.core.missingvalues:fillna"
    props = ("C17", "C15")
    inlined = ("_isnan", "put -> _setitem -> _setvalues_bool / _setvalues_ortho (own contract: SetItem)", "_maybe_cast_type")

    def cases(self, tier):
        for rank in (1, 2, 3) if tier != "quick" else (1, 2):
            for dk in ("f", "I"):
                for inplace in (False, True):
                    yield {"name": "r%d-data_%s-%s" % (rank, dk, "inplace" if inplace else "copy"), "rank": rank, "dk": dk, "inplace": inplace}

    def bound_lengths(self, case):
        return ["lab%d.n" % d for d in range(case["rank"])]

    def setup(self, S, case):
        env = _setup(S, case["rank"], case["dk"])
        env["value"] = S.real("value")
        S.assume(S.lnot(S.isnan(env["value"])), "the replacement is a number")
        return env

    def call(self, fn, env):
        return env["arr"].fillna(env["value"], inplace=env["case"]["inplace"])

    def post(self, S, case, env, result):
        old, v, rank = env["old"], env["value"], case["rank"]
        target = env["arr"] if case["inplace"] else result
        if case["inplace"]:
            yield "in-place-returns-none", result is None
        else:
            yield "operand-untouched", _untouched(S, env, rank)
        for c in _axes_and_meta(S, env, target, rank):
            yield c
        new = target.values
        yield "nan-cells-filled-others-kept", S.forall_nd(S.shape(old), lambda *p: S.same(
            S.at(new, *p), S.ite(S.isnan(S.at(old, *p)), v, S.at(old, *p))))
        if case["dk"] == "I":
            yield "integer-data-comes-back-as-float", S.kind(new) == "f"

    def canaries(self, S, case, env, result):
        target = env["arr"] if case["inplace"] else result
        yield "every-cell-becomes-the-value", S.forall_nd(S.shape(env["old"]), lambda *p: S.same(S.at(target.values, *p), env["value"]))


class SetNa(Contract):
    """setna(value): exactly the cells equal to the value (or to one of a list of values, or selected by a boolean mask of
    the array's shape, or by any member of a sequence mixing values and masks) become NaN; every other cell, labels and metadata are kept; integer data is promoted to float rather
    than failing; the operand is untouched unless inplace=True.  [C17]"""
    target = "dimarray.core.missingvalues:setna"
    props = ("C17", "C15")
    inlined = ("_matches", "put -> _setitem (own contract: SetItem)", "_maybe_cast_type")

    def cases(self, tier):
        for rank in (1, 2):
            for dk in ("f", "I"):
                for arg in ("scalar", "list2", "mask", "value+mask", "mask+mask"):
                    for inplace in (False, True):
                        if inplace and (dk == "I" or "+" in arg):
                            continue
                        yield {"name": "r%d-data_%s-%s-%s" % (rank, dk, arg, "inplace" if inplace else "copy"), "rank": rank, "dk": dk, "arg": arg, "inplace": inplace}

    def bound_lengths(self, case):
        return ["lab%d.n" % d for d in range(case["rank"])]

    def setup(self, S, case):
        env = _setup(S, case["rank"], case["dk"])
        mk = S.real if case["dk"] == "f" else S.int
        if case["arg"] == "scalar":
            env["value"] = mk("value")
        elif case["arg"] == "list2":
            env["value"] = [mk("value0"), mk("value1")]
        elif case["arg"] == "value+mask":
            # a sequence may mix values and masks (documented: a.setna([-99, a > 1]))
            env["value"] = [mk("value0"), S.arraynd("mask", "b", S.shape(env["data"]))]
        elif case["arg"] == "mask+mask":
            env["value"] = (S.arraynd("mask", "b", S.shape(env["data"])), S.arraynd("mask1", "b", S.shape(env["data"])))
        else:
            env["value"] = S.arraynd("mask", "b", S.shape(env["data"]))
        return env

    def call(self, fn, env):
        return env["arr"].setna(env["value"], inplace=env["case"]["inplace"])

    def _hit(self, S, case, env, p):
        old, v = env["old"], env["value"]
        x = S.at(old, *p)
        if case["arg"] == "scalar":
            return S.land(S.lnot(S.isnan(x)), x == v)
        if case["arg"] == "list2":
            return S.land(S.lnot(S.isnan(x)), S.lor(x == v[0], x == v[1]))
        if case["arg"] == "value+mask":
            return S.lor(S.land(S.lnot(S.isnan(x)), x == v[0]), S.at(v[1], *p))
        if case["arg"] == "mask+mask":
            return S.lor(S.at(v[0], *p), S.at(v[1], *p))
        return S.at(v, *p)

    def post(self, S, case, env, result):
        old, rank = env["old"], case["rank"]
        target = env["arr"] if case["inplace"] else result
        if case["inplace"]:
            yield "in-place-returns-none", result is None
        else:
            yield "operand-untouched", _untouched(S, env, rank)
        for c in _axes_and_meta(S, env, target, rank):
            yield c
        new = target.values
        yield "matching-cells-are-nan", S.forall_nd(S.shape(old), lambda *p: S.implies(self._hit(S, case, env, p), lambda: S.isnan(S.at(new, *p))))
        yield "other-cells-kept", S.forall_nd(S.shape(old), lambda *p: S.implies(S.lnot(self._hit(S, case, env, p)), lambda: S.same(S.at(new, *p), S.at(old, *p))))
        yield "result-can-hold-nan", S.kind(new) == "f"

    def canaries(self, S, case, env, result):
        target = env["arr"] if case["inplace"] else result
        yield "nothing-becomes-nan", S.forall_nd(S.shape(env["old"]), lambda *p: S.same(S.at(target.values, *p), S.at(env["old"], *p)))


class CompressAxis(Contract):
    """compress_axis(mask, axis): the slices at the true positions of the mask, in their original order, each with its
    label; other axes, metadata kept; operand untouched.  [C17]"""
    target = "dimarray.core.dimarraycls:DimArray.compress_axis"
    props = ("C17", "C15", "C16")

    def cases(self, tier):
        for rank in (1, 2, 3) if tier != "quick" else (1, 2):
            for d in range(rank):
                for by in ("name", "position"):
                    yield {"name": "r%d-axis%d-%s" % (rank, d, by), "rank": rank, "d": d, "by": by}

    def bound_lengths(self, case):
        return ["lab%d.n" % d for d in range(case["rank"])]

    def setup(self, S, case):
        env = _setup(S, case["rank"])
        env["mask"] = S.array1d("mask", "b", n=S.n(env["labels"][case["d"]]))
        return env

    def call(self, fn, env):
        c = env["case"]
        return env["arr"].compress_axis(env["mask"], axis="x%d" % c["d"] if c["by"] == "name" else c["d"])

    def post(self, S, case, env, result):
        arr, labels, data, d, rank = env["arr"], env["labels"], env["old"], case["d"], case["rank"]
        pos = S.mask_positions(env["mask"])
        m = S.n(pos)
        yield "dims-kept", tuple(result.dims) == tuple("x%d" % e for e in range(rank))
        Lr = result.axes[d].values
        yield "kept-labels-in-original-order", S.land(S.n(Lr) == m, S.forall(0, m, lambda k: S.implies(k < S.n(Lr), lambda: S.at(Lr, k) == S.at(labels[d], S.at(pos, k)))))
        yield "other-axes-equal", other_axes_equal(S, result, labels, d)
        shape = [S.n(L) if e != d else m for e, L in enumerate(labels)]
        yield "every-slice-moves-with-its-label", S.forall_nd(shape, lambda *ks: S.same(S.at(result.values, *ks), cell(S, data, ks, d, S.at(pos, ks[d]))))
        yield "metadata-kept", dict(result.attrs) == env["attrs0"]
        yield "operand-untouched", _untouched(S, env, rank)

    def canaries(self, S, case, env, result):
        yield "nothing-selected", S.n(result.axes[case["d"]].values) == 0


class DropNa1D(Contract):
    """dropna() on a 1-d array: exactly the labels whose cell is not NaN are kept, in their original order, each with its
    value; metadata kept; operand untouched.  (N-d dropna goes through flatten and boolean reductions; not covered yet.)  [C17]"""
    target = "dimarray.core.missingvalues:dropna"
    props = ("C17",)
    bound_names = ("lab0.n",)
    # completeness ("no valid label is lost") equates two enumerations of equal masks built as different array objects --
    # equal by induction only; it is carried by an exhaustive bounded stand-in.  Soundness of what is kept is proved.
    bounded_clauses = ("exactly-the-valid-labels-are-kept",)

    def cases(self, tier):
        for by in ("default", "name", "position"):
            yield {"name": "r1-axis-%s" % by, "by": by}

    def setup(self, S, case):
        return _setup(S, 1)

    def call(self, fn, env):
        by = env["case"]["by"]
        if by == "default":
            return env["arr"].dropna()
        return env["arr"].dropna(axis="x0" if by == "name" else 0)

    def post(self, S, case, env, result):
        L, old = env["labels"][0], env["old"]
        n = S.n(L)
        Lr, rv = result.axes[0].values, result.values
        m = S.n(Lr)
        yield "dims-kept", tuple(result.dims) == ("x0",)
        yield "no-nan-left", S.forall(0, m, lambda k: S.lnot(S.isnan(S.at(rv, k))))
        # every kept entry is an original (label, value) pair, and the kept labels keep their original order
        yield "kept-entries-are-original-pairs-in-order", S.forall2(0, m, lambda k, l: S.forall(0, n, lambda i: S.forall(0, n, lambda j: S.implies(
            S.land(S.at(L, i) == S.at(Lr, k), S.at(L, j) == S.at(Lr, l)), i < j))))
        yield "values-travel-with-their-labels", S.forall(0, m, lambda k: S.forall(0, n, lambda i: S.implies(
            S.at(L, i) == S.at(Lr, k), lambda: S.same(S.at(rv, k), S.at(old, i)))))
        # nothing valid is lost: stated through the library's own enumeration of the valid positions
        def complete():
            pos = S.mask_positions(S.map_not_nan(old))
            return S.land(m == S.n(pos), S.forall(0, S.n(pos), lambda k: S.implies(k < m, lambda: S.at(Lr, k) == S.at(L, S.at(pos, k)))))
        yield "exactly-the-valid-labels-are-kept", complete
        yield "metadata-kept", dict(result.attrs) == env["attrs0"]
        yield "operand-untouched", _untouched(S, env, 1)

    def canaries(self, S, case, env, result):
        yield "everything-dropped", S.n(result.axes[0].values) == 0


class DropNaND(Contract):
    """dropna(axis) on an array of two or more dimensions (default minvalid): the function makes exactly one call
    compress_axis(mask, axis=d) on the operand (recorded by the harness; what it returns is CompressAxis' contract) and returns
    its result, where mask is a boolean vector over the labels of d with  mask[i]  <=>  the slice at label i contains no NaN
    -- over ALL other coordinates, whatever order the dimensions are stored in (the other dimensions are flattened first:
    Flatten's contract, C11).  Hence exactly the labels whose slice is free of NaN are kept, in their original order, each
    slice with its label.  [C17]"""
    target = "dimarray.core.missingvalues:dropna"
    props = ("C17", "C15")
    inlined = ("_isnan", "DimArray.__array_wrap__", "flatten (own contract: Flatten)", "sum over the grouped axis (Reduce)", "DimArray._cmp",
               "compress_axis (own contract: CompressAxis; its call and result are recorded)")

    def cases(self, tier):
        for rank in (2, 3):
            for d in range(rank):
                if rank == 3 and tier == "quick" and d != 1:
                    continue
                for by in ("name", "position"):
                    yield {"name": "r%d-axis%d-%s" % (rank, d, by), "rank": rank, "d": d, "by": by}

    def bound_lengths(self, case):
        return ["lab%d.n" % d for d in range(case["rank"])]

    def setup(self, S, case):
        env = _setup(S, case["rank"])
        env["calls"] = []
        return env

    def call(self, fn, env):
        c, arr = env["case"], env["arr"]
        cls = type(arr)
        orig = cls.compress_axis

        def recording(self_, condition, axis=None, **kw):
            r = orig(self_, condition, axis=axis, **kw)
            if self_ is arr:
                env["calls"].append((condition, axis, kw, r))
            return r
        cls.compress_axis = recording
        try:
            return arr.dropna(axis="x%d" % c["d"] if c["by"] == "name" else c["d"])
        finally:
            cls.compress_axis = orig

    def post(self, S, case, env, result):
        rank, d, labels, old = case["rank"], case["d"], env["labels"], env["old"]
        calls = env["calls"]
        ok = len(calls) == 1 and calls[0][1] == d and not calls[0][2]
        yield "one-call-compress_axis-along-that-axis", ok
        if not ok:
            return
        mask = calls[0][0]
        mv = mask.values if S.is_dimarray(mask) else mask
        n = S.n(labels[d])
        yield "result-is-that-calls-result", result is calls[0][3]
        yield "mask-is-a-boolean-vector-over-the-labels", S.land(len(S.shape(mv)) == 1, S.n(mv) == n, S.kind(mv) == "b")
        others = [e for e in range(rank) if e != d]
        oshape = [S.n(labels[e]) for e in others]

        def slice_free_of_nan(i):
            def cellok(*j):
                idx = [None] * rank
                idx[d] = i
                for e, v in zip(others, j):
                    idx[e] = v
                # (naming the coordinate's row-major position among the flattened dimensions puts the term in front of the
                # solver that the reshape axioms are keyed on; the conjunct itself is a library fact)
                g = S.rowmajor(list(j), oshape)
                return S.land(g >= 0, S.lnot(S.isnan(S.at(old, *idx))))
            return S.forall_nd(oshape, cellok)
        yield "kept-labels-have-no-nan-in-their-slice", S.forall(0, n, lambda i: S.implies(S.at(mv, i), lambda: slice_free_of_nan(i)))

        def dropped_has_nan(i):
            # (stated contrapositively so that no existential is needed: a slice free of NaN is kept)
            return S.implies(slice_free_of_nan(i), lambda: S.at(mv, i))
        yield "labels-whose-slice-is-free-of-nan-are-kept", S.forall(0, n, dropped_has_nan)
        yield "operand-untouched", _untouched(S, env, rank)

    def canaries(self, S, case, env, result):
        yield "everything-dropped", S.n(result.axes[case["d"]].values) == 0



class DropNaMinvalid(Contract):
    """BOUNDED STAND-IN ONLY (never counted as proved).  dropna(axis, minvalid=k) on arrays of 2-3 dimensions for every k from 0
    to the slice size (and the default): exactly the labels whose slice holds at least k valid (non-NaN) values are kept
    (the default keeps the slices without any NaN), in their original order, each slice with its label, other axes and
    metadata kept, operand untouched.  Thresholds strictly between the ends need cardinalities; the counting law of the model
    only pins count == 0 and count == extent, so the general threshold is evaluated on the real code over arrays with extents
    1-3 and every NaN pattern of the family.  [C17]"""
    target = "dimarray.core.missingvalues:dropna"
    props = ("C17",)
    native_only = True

    def cases(self, tier):
        for rank in (2, 3):
            for d in range(rank):
                yield {"name": "r%d-axis%d" % (rank, d), "rank": rank, "d": d}

    def setup(self, S, case):
        env = _setup(S, case["rank"])
        for L in env["labels"]:
            S.assume(S.n(L) >= 1, "at least one label")
        env["k"] = S.int("k")
        return env

    def _minvalid(self, env):
        import numpy as np
        data = np.asarray(env["data"], dtype=float)
        size = data.size // data.shape[env["case"]["d"]]
        k = int(env["k"])
        return None if k < 0 else min(k, size)        # the alphabet's negative values stand for "default"

    def call(self, fn, env):
        d = env["case"]["d"]
        mv = self._minvalid(env)
        return env["arr"].dropna(axis="x%d" % d) if mv is None else env["arr"].dropna(axis="x%d" % d, minvalid=mv)

    def post(self, S, case, env, result):
        import numpy as np
        rank, d = case["rank"], case["d"]
        data = np.asarray(env["data"], dtype=float)
        labels = [np.asarray(L) for L in env["labels"]]
        mv = self._minvalid(env)
        moved = np.moveaxis(data, d, 0).reshape(data.shape[d], -1)
        valid = (~np.isnan(moved)).sum(axis=1)
        size = moved.shape[1]
        keep = valid >= (size if mv is None else mv)
        ref = np.compress(keep, data, axis=d)
        def same(x, y):
            x, y = np.asarray(x, dtype=float), np.asarray(y, dtype=float)
            return x.shape == y.shape and bool(np.all((x == y) | (np.isnan(x) & np.isnan(y))))
        yield "is-dimarray-with-the-same-dims", S.is_dimarray(result) and tuple(result.dims) == tuple("x%d" % e for e in range(rank))
        yield "exactly-the-labels-with-enough-valid-values-are-kept-in-order", list(result.axes[d].values) == list(labels[d][keep])
        yield "each-slice-moves-with-its-label", same(result.values, ref)
        yield "other-axes-unchanged", all(list(result.axes[e].values) == list(labels[e]) for e in range(rank) if e != d)
        yield "metadata-kept", dict(result.attrs) == env["attrs0"]
        arr = env["arr"]
        yield "operand-untouched", same(arr.values, data) and all(list(arr.axes[e].values) == list(labels[e]) for e in range(rank))



class SortAxisKey(Contract):
    """BOUNDED STAND-IN ONLY (never counted as proved).  sort_axis(axis, key=...) for a key FUNCTION and for a dict used as key (numbers or TUPLES as key values):
    the labels come out in ascending order of key(label) (ties in their original order), every slice with its label, other
    axes and metadata kept, operand untouched.  The sorting is Python-level (sorted(range(n), key=...)), outside the symbolic
    engine's reach; evaluated on the real code over arrays of rank 1-2 with distinct labels of length 0-3.  [C17]"""
    target = "dimarray.core.align:sort_axis"
    props = ("C17",)
    native_only = True

    def cases(self, tier):
        for rank in (1, 2):
            for key in ("negate", "dict", "abs-distance", "tuple", "dict-of-tuples"):
                yield {"name": "r%d-key_%s" % (rank, key), "rank": rank, "key": key}

    def setup(self, S, case):
        return _setup(S, case["rank"])

    def _key(self, env):
        import numpy as np
        L = [float(v) for v in np.asarray(env["labels"][0])]
        k = env["case"]["key"]
        if k == "negate":
            return (lambda v: -v), (lambda v: -v)
        if k == "abs-distance":
            return (lambda v: abs(v - 1.0)), (lambda v: abs(v - 1.0))
        if k == "tuple":
            # a multi-criteria key: any comparable Python object is a key, not only a number
            f = lambda v: (int(abs(v)) % 2, -v)
            return f, f
        if k == "dict-of-tuples":
            table = {v: ((7 * i + 3) % 2, -i) for i, v in enumerate(sorted(L))}
            return table, table.__getitem__
        table = {v: (7 * i + 3) % 5 for i, v in enumerate(sorted(L))}
        return table, table.__getitem__

    def call(self, fn, env):
        key, _ = self._key(env)
        return env["arr"].sort_axis(axis="x0", key=key)

    def post(self, S, case, env, result):
        import numpy as np
        rank = case["rank"]
        _, kf = self._key(env)
        L = [float(v) for v in np.asarray(env["labels"][0])]
        order = sorted(range(len(L)), key=lambda i: kf(L[i]))
        data = np.asarray(env["data"], dtype=float)
        same = lambda x, y: np.asarray(x).shape == np.asarray(y).shape and bool(np.all((np.asarray(x, dtype=float) == np.asarray(y, dtype=float)) | (np.isnan(np.asarray(x, dtype=float)) & np.isnan(np.asarray(y, dtype=float)))))
        yield "labels-in-ascending-key-order", [float(v) for v in result.axes[0].values] == [L[i] for i in order]
        yield "each-slice-moves-with-its-label", same(result.values, data[order])
        if rank == 2:
            yield "other-axis-unchanged", list(result.axes[1].values) == list(np.asarray(env["labels"][1]))
        yield "metadata-kept", dict(result.attrs) == env["attrs0"]
        yield "operand-untouched", same(env["arr"].values, data) and [float(v) for v in env["arr"].axes[0].values] == L


class SelectNative(Contract):
    """BOUNDED STAND-IN ONLY (never counted as proved).  Two selection forms not under a symbolic contract: take_axis(labels,
    axis) in LABEL mode (the slices at the listed labels, in the listed order, each with its label; IndexError for an absent
    label) and compress(mask) with a FULL N-d boolean mask (the selected cells in row-major order over a grouped axis whose
    labels are the selected coordinates).  Evaluated on the real code over arrays of rank 1-2, extents 1-3.  [C17]"""
    target = "dimarray.core.dimarraycls:DimArray.take_axis"
    props = ("C17",)
    native_only = True

    def cases(self, tier):
        for rank in (1, 2):
            for form in ("take_axis-label", "compress-ndmask"):
                yield {"name": "r%d-%s" % (rank, form), "rank": rank, "form": form}

    def setup(self, S, case):
        env = _setup(S, case["rank"])
        for L in env["labels"]:
            S.assume(S.n(L) >= 1, "non-empty")
        if case["form"] == "take_axis-label":
            env["q"] = S.array1d("q", "I")
        else:
            env["mask"] = S.arraynd("mask", "b", tuple(S.n(L) for L in env["labels"]))
        return env

    def call(self, fn, env):
        import numpy as np
        arr, case = env["arr"], env["case"]
        if case["form"] == "take_axis-label":
            L = np.asarray(env["labels"][0])
            pos = [int(t) % len(L) for t in np.asarray(env["q"])]
            env["pos"] = pos
            return arr.take_axis([L[p] for p in pos], axis="x0", indexing="label")
        return arr.compress(np.asarray(env["mask"], dtype=bool))

    def post(self, S, case, env, result):
        import numpy as np
        rank = case["rank"]
        data = np.asarray(env["data"], dtype=float)
        labels = [np.asarray(L) for L in env["labels"]]
        same = lambda x, y: np.asarray(x).shape == np.asarray(y).shape and bool(np.all((np.asarray(x, dtype=float) == np.asarray(y, dtype=float)) | (np.isnan(np.asarray(x, dtype=float)) & np.isnan(np.asarray(y, dtype=float)))))
        if case["form"] == "take_axis-label":
            pos = env["pos"]
            yield "labels-in-the-listed-order", list(result.axes[0].values) == [labels[0][p] for p in pos]
            yield "each-slice-with-its-label", same(result.values, data[pos] if pos else data[:0])
            if rank == 2:
                yield "other-axis-unchanged", list(result.axes[1].values) == list(labels[1])
            yield "metadata-kept", dict(result.attrs) == env["attrs0"]
        else:
            mask = np.asarray(env["mask"], dtype=bool)
            want = data[mask]
            if np.ndim(result) == 0 and not S.is_dimarray(result):
                yield "single-selected-cell", want.size == 1 and same(result, want[0])
            else:
                yield "selected-cells-in-row-major-order", same(result.values, want)
                coords = [tuple(labels[d][i[d]] for d in range(rank)) if rank > 1 else labels[0][i[0]] for i in np.argwhere(mask)]
                got = [tuple(t) if rank > 1 else t for t in result.axes[0].values]
                yield "labels-are-the-selected-coordinates", got == coords
        yield "operand-untouched", same(env["arr"].values, data)
