#!/bin/bash
# usage: tools/try_batch.sh <seed dir name> ...   (runs tools/try_seed.sh for each; the property is the part before the first '-')
cd /verif
for x in "$@"; do
  p=${x%%-*}
  echo "== $x"
  bash tools/try_seed.sh $p $x 2>&1 | tail -12
done
