#!/bin/bash
# usage: tools/mutant.sh <property> <file-relative-to-repo> <python-regex> <replacement> [extra dverif args]
# Applies one textual mutation to a scratch copy of /repo (outside /repo and /verif), runs the check
# against the copy, and removes the copy.
set -u
prop=$1; file=$2; pat=$3; rep=$4; shift 4
d=$(mktemp -d /tmp/dvmut.XXXXXX)
trap 'rm -rf "$d"' EXIT
rsync -a --exclude .git --exclude __pycache__ /repo/ "$d/"
python3 - "$d/$file" "$pat" "$rep" <<'PY'
import re, sys
p, pat, rep = sys.argv[1:4]
s = open(p).read()
n = len(re.findall(pat, s, flags=re.M))
if n != 1:
    print("MUTATION-ERROR pattern matches %d times" % n); sys.exit(9)
open(p, 'w').write(re.sub(pat, rep, s, count=1, flags=re.M))
PY
[ $? -eq 0 ] || exit 9
cd /verif && DVERIF_REPO="$d" DVERIF_EVIDENCE_DIR="$d/evidence" python3-vt -m dverif check "$prop" "$@" | tail -4
echo "exit=$?"
