"""Validation of statements about NumPy that the contract library (dverif/symnp.py) relies on, against the INSTALLED
NumPy under /venv/bin/python.  Assumption validation by bounded enumeration -- never counted as proof.
Exit 0: all agree; exit 3: a library statement disagrees with NumPy (a checker error, not a property verdict)."""
import itertools, json, sys
import numpy as np

results = []

def record(name, checked, bad, note=""):
    results.append({"contract": name, "checked": checked, "mismatches": bad, "note": note})

# 1. searchsorted on a reversed buffer, re-indexed onto buffer positions
alphabet = [0.0, 0.5, 1.0, 1.5, 2.0]
bad = n = 0
for ln in range(0, 5):
    for rev in itertools.combinations_with_replacement(alphabet, ln):
        buf = np.array(rev[::-1], dtype=float); view = buf[::-1]
        for x in [-1.0, 0.0, 0.25, 0.5, 1.0, 1.25, 2.0, 3.0]:
            for side in ("left", "right"):
                r = int(np.searchsorted(view, x, side=side)); n += 1
                lt = (lambda a, b: a < b) if side == "left" else (lambda a, b: a <= b)
                ok = 0 <= r <= ln and all(lt(buf[w], x) for w in range(ln - r, ln)) and all(not lt(buf[w], x) for w in range(0, ln - r))
                bad += 0 if ok else 1
record("searchsorted(reversed buffer), facts re-indexed onto buffer positions", n, bad)

# 2. buffer positions visited by an affine view
bad = n = 0
for stride in (1, 2, 3, -1, -2, -3):
    for off in range(-3, 8):
        for cnt in range(0, 6):
            d_ = {off + stride * k for k in range(cnt)}; st = abs(stride); f_ = set()
            for w in range(-25, 30):
                d = (w - off) if stride > 0 else (off - w)
                if d >= 0 and d % st == 0 and d // st < cnt: f_.add(w)
            n += 1; bad += 0 if d_ == f_ else 1
record("positions visited by an affine view: closed form", n, bad)

# 3. bounds rule of orthogonal (np.ix_) keys: IndexError <=> a bad integer, or a bad array entry while no array factor is empty
a0 = np.arange(6.).reshape(2, 3)
opts = {0: [("int_ok", 0), ("int_bad", 7), ("int_neg_ok", -2), ("int_neg_bad", -3), ("arr_empty", []), ("arr_ok", [1, 0]), ("arr_bad", [0, 7]), ("arr_negbad", [-3])],
        1: [("int_ok", 1), ("int_bad", 7), ("int_neg_ok", -3), ("int_neg_bad", -4), ("arr_empty", []), ("arr_ok", [2, 0, 2]), ("arr_bad", [1, 7]), ("arr_negbad", [-4, 0])]}
bad = n = 0
for (n0, k0), (n1, k1) in itertools.product(opts[0], opts[1]):
    arrs = [(d, np.array(k, dtype=int)) for d, k in ((0, k0), (1, k1)) if isinstance(k, list)]
    mesh = dict(zip([d for d, _ in arrs], np.ix_(*[x for _, x in arrs]))) if arrs else {}
    key = tuple(mesh[d] if d in mesh else k for d, k in ((0, k0), (1, k1)))
    names = (n0, n1)
    predicted = any(x in ("int_bad", "int_neg_bad") for x in names) or (any(x in ("arr_bad", "arr_negbad") for x in names) and "arr_empty" not in names)
    for op in ("read", "write"):
        a = a0.copy()
        try:
            if op == "read": a[key]
            else: a[key] = 9.0
            raised = False
        except IndexError:
            raised = True
        n += 1; bad += 0 if raised == predicted else 1
record("bounds rule for orthogonal keys (ints always checked; arrays only when no array factor is empty), read and write", n, bad)

# 4. facts the model mirrors about the installed NumPy
facts = {"np.in1d exists": hasattr(np, "in1d"), "np.array(list, copy=False) raises": None}
try:
    np.array([1, 2], copy=False); facts["np.array(list, copy=False) raises"] = False
except ValueError:
    facts["np.array(list, copy=False) raises"] = True
record("environment facts mirrored by the model: %s" % json.dumps(facts), 2, 0 if (facts["np.in1d exists"] is False and facts["np.array(list, copy=False) raises"] is True) else 1,
       "the model has no in1d and raises for copy=False on non-arrays")

# 5. an operator the elements do not support is applied element by element: no error on an EMPTY object array
bad = 0
try:
    r = np.array([], dtype=object) - "a"; bad += 0 if r.shape == (0,) else 1
except TypeError:
    bad += 1
try:
    np.array(["b"], dtype=object) - "a"; bad += 1
except TypeError:
    pass
try:
    np.argmin(np.abs(np.array([], dtype=object) - "a")); bad += 1
except ValueError:
    pass
record("string-label arithmetic: TypeError iff the array is non-empty; argmin of an empty sequence raises ValueError", 3, bad)

# 6. rollaxis: the model's permutation rule against NumPy, all (ndim <= 4, axis, start)
def model_roll(n, axis, start):
    if axis < 0: axis += n
    if start < 0: start += n
    if axis < start: start -= 1
    axes = list(range(n))
    if axis != start:
        axes.remove(axis); axes.insert(start, axis)
    return axes
bad = n = 0
for nd in range(1, 5):
    a = np.empty(tuple(range(2, 2 + nd)))
    for axis in range(-nd, nd):
        for start in range(-nd, nd + 1):
            n += 1
            bad += 0 if np.rollaxis(a, axis, start).shape == tuple(a.shape[i] for i in model_roll(nd, axis, start)) else 1
record("rollaxis permutation rule (ndim <= 4, every axis and start, negatives included)", n, bad)

# ---- round 2 -----------------------------------------------------------------------------------------------------------
import warnings
warnings.simplefilter("ignore")

# 7. row-major reshape: merging adjacent dimensions puts cell (i, j, k) at ((i*n1)+j)*n2+k; splitting is the inverse; the pairing
#    axioms (A1: fst/snd invert pair on the ranges, A2: pair inverts (fst, snd) below the product) hold for pair = i*n1 + j
bad = n = 0
for n0, n1, n2 in itertools.product(range(0, 4), repeat=3):
    a = np.arange(n0 * n1 * n2, dtype=float).reshape(n0, n1, n2)
    m01, m12, m012 = a.reshape(n0 * n1, n2), a.reshape(n0, n1 * n2), a.reshape(n0 * n1 * n2)
    for i, j, k in itertools.product(range(n0), range(n1), range(n2)):
        n += 1
        ok = m01[i * n1 + j, k] == a[i, j, k] and m12[i, j * n2 + k] == a[i, j, k] and m012[(i * n1 + j) * n2 + k] == a[i, j, k]
        bad += 0 if ok else 1
    back = m012.reshape(n0, n1, n2)
    n += 1; bad += 0 if np.array_equal(back, a) else 1
    for g in range(n0 * n1):
        n += 1; bad += 0 if (0 <= g // n1 < n0 and 0 <= g % n1 < n1 and (g // n1) * n1 + g % n1 == g) else 1
    if n0 * n1 * n2:
        for g in range(n0 * n1 * n2):
            n += 1; bad += 0 if tuple(int(t) for t in np.unravel_index(g, (n0, n1, n2))) == ((g // n2) // n1, (g // n2) % n1, g % n2) else 1
record("reshape is row-major (merge / split of adjacent dimensions), pairing axioms A1 / A2, unravel_index = inverse pairing", n, bad)

# 8. reshape(order='F') = transpose . row-major reshape onto reversed extents . transpose; order='A' follows Fortran contiguity
bad = n = 0
for shp, new in (((2, 3), (6,)), ((2, 3, 4), (6, 4)), ((2, 3, 4), (2, 12)), ((6,), (2, 3)), ((2, 12), (2, 3, 4))):
    a = np.arange(int(np.prod(shp)), dtype=float).reshape(shp)
    for arr in (a, np.asfortranarray(a), a.T.copy().T):
        n += 1; bad += 0 if np.array_equal(arr.reshape(new, order="F"), arr.T.reshape(tuple(reversed(new))).T) else 1
    if a.ndim >= 2:      # (a 1-d array is C- and F-contiguous at once: NumPy's 'A' means C there, and so does the model)
        n += 1; bad += 0 if np.array_equal(a.T.reshape(tuple(reversed(new)), order="A"), a.T.reshape(tuple(reversed(new)), order="F")) else 1   # full transpose of a C array is F-contiguous
    else:
        n += 1; bad += 0 if np.array_equal(a.reshape(new, order="A"), a.reshape(new, order="C")) else 1
    n += 1; bad += 0 if np.array_equal(a.reshape(new, order="A"), a.reshape(new, order="C")) else 1
record("reshape(order='F') by transposition; order='A' = 'F' for the full transpose of a fresh array and 'C' for a fresh array", n, bad)

# 9. np.array of a list of arrays: ValueError iff the shapes differ (no silent object array)
bad = n = 0
for s1, s2 in itertools.product([(0,), (1,), (2,), (2, 1), (1, 2)], repeat=2):
    n += 1
    try:
        r = np.array([np.zeros(s1), np.zeros(s2)]); raised = False
    except ValueError:
        raised = True
    bad += 0 if raised == (s1 != s2) else 1
record("np.array([a, b]) raises ValueError iff the shapes differ", n, bad)

# 10. elementwise == between arrays of different lengths: ValueError unless one has length 1 (broadcast)
bad = n = 0
for la, lb in itertools.product(range(0, 4), repeat=2):
    n += 1
    try:
        np.zeros(la) == np.zeros(lb); raised = False
    except ValueError:
        raised = True
    bad += 0 if raised == (la != lb and la != 1 and lb != 1) else 1
record("a == b raises ValueError iff the lengths differ and neither is 1", n, bad)

# 11. counting law for the sum of a boolean array along an axis; np.diff(n) = iterated first difference
bad = n = 0
for bits in itertools.product([False, True], repeat=6):
    m = np.array(bits).reshape(3, 2)
    for ax in (0, 1):
        c = m.sum(axis=ax); ext = m.shape[ax]
        for j, cj in enumerate(c):
            col = m[:, j] if ax == 0 else m[j, :]
            n += 1
            bad += 0 if (0 <= cj <= ext and (cj == 0) == (not col.any()) and (cj == ext) == bool(col.all())) else 1
rng = np.random.RandomState(0)
for _ in range(50):
    a = rng.rand(5, 4)
    for k in (1, 2, 3):
        for ax in (0, 1):
            r = a
            for _k in range(k):
                r = np.diff(r, axis=ax)
            n += 1; bad += 0 if np.array_equal(np.diff(a, n=k, axis=ax), r) else 1
record("boolean sum along an axis: 0 <= count <= extent, 0 iff none true, extent iff all true; np.diff(n=k) = k first differences", n, bad)

# 12. arithmetic ufuncs: a NaN operand gives NaN (not for power); add and multiply commute bit for bit; np.percentile of a list
#     of percentiles stacks the results along a new first axis; ufunc on an object with __array_wrap__ hands the result to it
vals = [0.0, -0.0, 1.0, -2.5, 3.0, np.inf, -np.inf, np.nan]
bad = n = 0
for f in (np.add, np.subtract, np.multiply, np.true_divide, np.floor_divide):
    for x in vals:
        n += 2
        bad += 0 if np.isnan(f(np.nan, x)) and np.isnan(f(x, np.nan)) else 1
for f in (np.add, np.multiply):
    for x, y in itertools.product(vals, repeat=2):
        n += 1
        u, v = f(x, y), f(y, x)
        bad += 0 if (u == v or (np.isnan(u) and np.isnan(v))) else 1
a = rng.rand(4, 3)
for ax in (0, 1):
    qs = [10.0, 50.0, 90.0]
    r = np.percentile(a, qs, axis=ax)
    n += 1; bad += 0 if r.shape == (3,) + tuple(s_ for k_, s_ in enumerate(a.shape) if k_ != ax) and all(np.array_equal(r[i], np.percentile(a, q, axis=ax)) for i, q in enumerate(qs)) else 1
class _W(object):
    def __init__(self, v): self.values = v; self.wrapped = None
    def __array__(self, dtype=None, copy=None): return self.values
    def __array_wrap__(self, result, context=None, return_scalar=False): self.wrapped = result; return ("wrapped", result)
w = _W(np.array([1.0, np.nan]))
r = np.isnan(w)
n += 1; bad += 0 if isinstance(r, tuple) and r[0] == "wrapped" and list(r[1]) == [False, True] else 1
record("ufunc laws: NaN propagation, commutativity of add / multiply, np.percentile(list) stacking, __array_wrap__ dispatch of np.isnan", n, bad)

# 13. NumPy's placement rule in ASSIGNMENT: an integer next to an array index counts as advanced; when the advanced indices are
#     separated by a slice their dimensions come FIRST in the selection, so that is the layout the value must have
bad = n = 0
a = np.zeros((2, 3, 4))
for key, shape in (((0, slice(None), [1, 3]), (2, 3)), ((slice(None), 0, [1, 3]), (2, 2)), (([0, 1], slice(None), 2), (2, 3)), ((slice(None), [0, 2], 1), (2, 2)),
                   ((0, slice(0, 2), [1, 3, 0]), (3, 2)), ((1, [0, 2], slice(None)), (2, 4))):
    n += 1
    bad += 0 if a[key].shape == shape else 1
    v = np.arange(float(np.prod(shape))).reshape(shape)
    b = a.copy(); b[key] = v
    n += 1; bad += 0 if np.array_equal(b[key], v) else 1
    if shape[0] != shape[1]:
        n += 1
        try:
            c = a.copy(); c[key] = v.T; bad += 1
        except ValueError:
            pass
record("placement rule of separated advanced indices (integers included) for reads and writes", n, bad)

# 14. a float stored into an integer array is truncated toward zero (scalar and array values, whole and partial assignment)
bad = n = 0
for v in (2.5, -2.5, 0.9, -0.9, 3.0, 1e-9):
    a = np.array([10, 20, 30]); a[1] = v
    n += 1; bad += 0 if a[1] == int(v) else 1
    a = np.array([10, 20, 30]); a[:] = np.array([v, v, v])
    n += 1; bad += 0 if list(a) == [int(v)] * 3 else 1
    a = np.array([10, 20, 30]); a[np.array([True, False, True])] = np.array([v, v])
    n += 1; bad += 0 if list(a) == [int(v), 20, int(v)] else 1
record("a float stored into an integer array is truncated toward zero", n, bad)

# 15. several 1-D integer index arrays are PAIRED (pointwise), reading and writing; a cell addressed twice keeps the last
#     value; the paired block is one dimension, placed where the first advanced index stands when the advanced indices
#     (integers included) are adjacent and first otherwise
bad = n = 0
rng = np.random.RandomState(5)
for trial in range(300):
    shape = tuple(rng.randint(1, 4, size=3))
    m = rng.randint(0, 4)
    I = [rng.randint(0, shape[d], size=m) for d in range(3)]
    base = rng.rand(*shape)
    for key_kind in ("IJ:", "I:J", ":IJ", "IJK", "Ij:", "i:J"):
        key, lay = [], []
        for d, ch in enumerate(key_kind):
            if ch == ":":
                key.append(slice(None))
            elif ch.isupper():
                key.append(I[d])
            else:
                key.append(int(rng.randint(0, shape[d])))
        key = tuple(key)
        n_arr = sum(1 for ch in key_kind if ch.isupper())
        adv = [d for d, ch in enumerate(key_kind) if ch != ":"]
        sl = [d for d, ch in enumerate(key_kind) if ch == ":"]
        separated = any(key_kind[d] == ":" for d in range(min(adv), max(adv) + 1))
        if n_arr >= 2 or (n_arr == 1):
            layout = (["pair"] + sl) if separated else ([d for d in sl if d < adv[0]] + ["pair"] + [d for d in sl if d > adv[0]])
        selshape = tuple(m if e == "pair" else shape[e] for e in layout)
        # read
        got = base[key]
        exp = np.empty(selshape)
        for sel in np.ndindex(*selshape):
            src = [None] * 3
            k = sel[layout.index("pair")]
            for d, ch in enumerate(key_kind):
                if ch == ":":
                    src[d] = sel[layout.index(d)]
                elif ch.isupper():
                    src[d] = I[d][k]
                else:
                    src[d] = key[d]
            exp[sel] = base[tuple(src)]
        n += 1; bad += 0 if got.shape == exp.shape and np.array_equal(got, exp) else 1
        # write (array value of the selection's shape; last write wins)
        v = rng.rand(*selshape)
        a = base.copy(); a[key] = v
        e = base.copy()
        for sel in np.ndindex(*selshape):
            src = [None] * 3
            k = sel[layout.index("pair")]
            for d, ch in enumerate(key_kind):
                if ch == ":":
                    src[d] = sel[layout.index(d)]
                elif ch.isupper():
                    src[d] = I[d][k]
                else:
                    src[d] = key[d]
            e[tuple(src)] = v[sel]
        # np.ndindex runs the paired coordinate in increasing k for a fixed rest only when "pair" is first; compare per cell
        # with the LAST k instead
        ok = True
        for cell in np.ndindex(*shape):
            ks = [k for k in range(m) if all((key_kind[d] == ":") or (key_kind[d].isupper() and I[d][k] == cell[d]) or
                                             (key_kind[d].islower() and key[d] == cell[d]) for d in range(3))]
            if not ks:
                ok = ok and a[cell] == base[cell]
            else:
                sel = tuple(ks[-1] if e_ == "pair" else cell[e_] for e_ in layout)
                ok = ok and a[cell] == v[sel]
        n += 1; bad += 0 if ok else 1
record("1-D integer index arrays are paired pointwise (read, write, last write wins, placement of the paired dimension)", n, bad)

print(json.dumps({"numpy": np.__version__, "results": results}, indent=1))
sys.exit(3 if any(r["mismatches"] for r in results) else 0)
