"""Validation of statements about NumPy that the contract library (dverif/symnp.py) relies on, against the INSTALLED
NumPy under /venv/bin/python.  Assumption validation by bounded enumeration -- never counted as proof.
Exit 0: all agree; exit 3: a library statement disagrees with NumPy (a checker error, not a property verdict)."""
import itertools, json, sys
import numpy as np

results = []

def record(name, checked, bad, note=""):
    results.append({"contract": name, "checked": checked, "mismatches": bad, "note": note})

# 1. searchsorted on a reversed buffer, re-indexed onto buffer positions
alphabet = [0.0, 0.5, 1.0, 1.5, 2.0]
bad = n = 0
for ln in range(0, 5):
    for rev in itertools.combinations_with_replacement(alphabet, ln):
        buf = np.array(rev[::-1], dtype=float); view = buf[::-1]
        for x in [-1.0, 0.0, 0.25, 0.5, 1.0, 1.25, 2.0, 3.0]:
            for side in ("left", "right"):
                r = int(np.searchsorted(view, x, side=side)); n += 1
                lt = (lambda a, b: a < b) if side == "left" else (lambda a, b: a <= b)
                ok = 0 <= r <= ln and all(lt(buf[w], x) for w in range(ln - r, ln)) and all(not lt(buf[w], x) for w in range(0, ln - r))
                bad += 0 if ok else 1
record("searchsorted(reversed buffer), facts re-indexed onto buffer positions", n, bad)

# 2. buffer positions visited by an affine view
bad = n = 0
for stride in (1, 2, 3, -1, -2, -3):
    for off in range(-3, 8):
        for cnt in range(0, 6):
            d_ = {off + stride * k for k in range(cnt)}; st = abs(stride); f_ = set()
            for w in range(-25, 30):
                d = (w - off) if stride > 0 else (off - w)
                if d >= 0 and d % st == 0 and d // st < cnt: f_.add(w)
            n += 1; bad += 0 if d_ == f_ else 1
record("positions visited by an affine view: closed form", n, bad)

# 3. bounds rule of orthogonal (np.ix_) keys: IndexError <=> a bad integer, or a bad array entry while no array factor is empty
a0 = np.arange(6.).reshape(2, 3)
opts = {0: [("int_ok", 0), ("int_bad", 7), ("int_neg_ok", -2), ("int_neg_bad", -3), ("arr_empty", []), ("arr_ok", [1, 0]), ("arr_bad", [0, 7]), ("arr_negbad", [-3])],
        1: [("int_ok", 1), ("int_bad", 7), ("int_neg_ok", -3), ("int_neg_bad", -4), ("arr_empty", []), ("arr_ok", [2, 0, 2]), ("arr_bad", [1, 7]), ("arr_negbad", [-4, 0])]}
bad = n = 0
for (n0, k0), (n1, k1) in itertools.product(opts[0], opts[1]):
    arrs = [(d, np.array(k, dtype=int)) for d, k in ((0, k0), (1, k1)) if isinstance(k, list)]
    mesh = dict(zip([d for d, _ in arrs], np.ix_(*[x for _, x in arrs]))) if arrs else {}
    key = tuple(mesh[d] if d in mesh else k for d, k in ((0, k0), (1, k1)))
    names = (n0, n1)
    predicted = any(x in ("int_bad", "int_neg_bad") for x in names) or (any(x in ("arr_bad", "arr_negbad") for x in names) and "arr_empty" not in names)
    for op in ("read", "write"):
        a = a0.copy()
        try:
            if op == "read": a[key]
            else: a[key] = 9.0
            raised = False
        except IndexError:
            raised = True
        n += 1; bad += 0 if raised == predicted else 1
record("bounds rule for orthogonal keys (ints always checked; arrays only when no array factor is empty), read and write", n, bad)

# 4. facts the model mirrors about the installed NumPy
facts = {"np.in1d exists": hasattr(np, "in1d"), "np.array(list, copy=False) raises": None}
try:
    np.array([1, 2], copy=False); facts["np.array(list, copy=False) raises"] = False
except ValueError:
    facts["np.array(list, copy=False) raises"] = True
record("environment facts mirrored by the model: %s" % json.dumps(facts), 2, 0 if (facts["np.in1d exists"] is False and facts["np.array(list, copy=False) raises"] is True) else 1,
       "the model has no in1d and raises for copy=False on non-arrays")

# 5. an operator the elements do not support is applied element by element: no error on an EMPTY object array
bad = 0
try:
    r = np.array([], dtype=object) - "a"; bad += 0 if r.shape == (0,) else 1
except TypeError:
    bad += 1
try:
    np.array(["b"], dtype=object) - "a"; bad += 1
except TypeError:
    pass
try:
    np.argmin(np.abs(np.array([], dtype=object) - "a")); bad += 1
except ValueError:
    pass
record("string-label arithmetic: TypeError iff the array is non-empty; argmin of an empty sequence raises ValueError", 3, bad)

# 6. rollaxis: the model's permutation rule against NumPy, all (ndim <= 4, axis, start)
def model_roll(n, axis, start):
    if axis < 0: axis += n
    if start < 0: start += n
    if axis < start: start -= 1
    axes = list(range(n))
    if axis != start:
        axes.remove(axis); axes.insert(start, axis)
    return axes
bad = n = 0
for nd in range(1, 5):
    a = np.empty(tuple(range(2, 2 + nd)))
    for axis in range(-nd, nd):
        for start in range(-nd, nd + 1):
            n += 1
            bad += 0 if np.rollaxis(a, axis, start).shape == tuple(a.shape[i] for i in model_roll(nd, axis, start)) else 1
record("rollaxis permutation rule (ndim <= 4, every axis and start, negatives included)", n, bad)

print(json.dumps({"numpy": np.__version__, "results": results}, indent=1))
sys.exit(3 if any(r["mismatches"] for r in results) else 0)
