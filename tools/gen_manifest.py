"""Regenerate MANIFEST.json from contracts/registry.py (run after editing the registry)."""
import json, os, sys
ROOT = os.path.dirname(os.path.dirname(os.path.abspath(__file__)))
sys.path.insert(0, ROOT)
os.environ.setdefault("DVERIF_NO_LOAD", "1")
from contracts import manifest_info as mi

base = json.load(open('/root/.vp/BASELINE.json'))
checks = []
for pid in sorted(mi.CLAIMS):
    c = mi.CLAIMS[pid]
    checks.append({
        "property_id": pid,
        "quick_cmd": "python3-vt -m dverif check %s --tier quick" % pid,
        "thorough_cmd": "python3-vt -m dverif check %s --tier thorough" % pid,
        "evidence_file": "/verif/evidence/%s.json" % pid,
        "replay_cmd_template": "python3-vt -m dverif replay {path}",
        "engine": "dverif",
        "level_claimed": {"category": c["category"], "text": c["text"], "design_ref": c.get("design_ref", "DESIGN.md section 9")},
        "level_note": c["note"],
        "technique": c["technique"],
    })
# the evidence files carry the registry's level: it must be the level claimed here
import re as _re
_reg = open(os.path.join(ROOT, "contracts", "registry.py")).read()
for pid in sorted(mi.CLAIMS):
    m_ = _re.search(r'"%s": \{(.*?)\n    \},' % pid, _reg, flags=_re.S)
    lvl = _re.search(r'"level": "(\w+)"', m_.group(1)).group(1) if m_ else None
    if lvl != mi.CLAIMS[pid]["category"]:
        sys.exit("level mismatch for %s: registry %r, manifest_info %r" % (pid, lvl, mi.CLAIMS[pid]["category"]))
    if lvl == "other" and '"explanation"' not in m_.group(1):
        sys.exit("level 'other' for %s needs an explanation in the registry" % pid)
na = dict(mi.NOT_APPLICABLE)
for line in open(os.path.join(ROOT, "properties.jsonl")):
    pid = json.loads(line)["id"]
    if pid not in mi.CLAIMS and pid not in na:
        na[pid] = "not claimed in this revision: its functions are not yet under contract (work in progress, see DESIGN.md section 12)"
m = {
    "version": 1,
    "setup_cmd": "python3-vt -m dverif selfcheck",
    "hooks": {"guard": "DIMARRAY_VERIF", "enable": "no hooks: contracts are sidecars under /verif/contracts, the repository sources are loaded unmodified",
              "baseline_off_cmd": base["cmd"].replace(" --junitxml=<file>", ""), "source_commits": [], "add_only": True},
    "engines": [{"name": "dverif", "path": "/verif/dverif", "serves_properties": sorted(mi.CLAIMS),
                 "kind_free_text": "contract-based deductive verification: the real dimarray sources are executed symbolically (numpy replaced by a contract library) against sidecar contracts, path by path; every obligation is discharged by z3; failed obligations get a bounded counterexample that is replayed on the real code under /venv/bin/python"}],
    "checks": checks,
    "notes": mi.NOTES,
    "not_applicable": [{"property_id": k, "reason": v} for k, v in sorted(na.items())],
}
json.dump(m, open(os.path.join(ROOT, "MANIFEST.json"), "w"), indent=1)
print("MANIFEST.json: %d checks, %d not applicable" % (len(checks), len(m["not_applicable"])))
