#!/bin/bash
# usage: tools/store_seed.sh <property> <slug>   -- copies /tmp/seed_<property>/SEED/* into /verif/seeded/<property>-<slug>/ and removes the worktree
set -e
p=$1; slug=$2; dst=/verif/seeded/$p-$slug
mkdir -p "$dst"
cp /tmp/seed_$p/SEED/patch.diff /tmp/seed_$p/SEED/demo.py "$dst/"
cp /tmp/seed_$p/SEED/notes.md "$dst/agent_notes.md"
echo "$p: files in patch: $(grep '^diff --git' "$dst/patch.diff" | awk '{print $3}' | tr '\n' ' ')"
git -C /repo worktree remove --force /tmp/seed_$p
rm -f /tmp/${p}_my.patch
