"""Run the repository's pinned baseline (guard off) and verify all 180 stable tests still pass."""
import json, subprocess, sys, tempfile, os, xml.etree.ElementTree as ET
base = json.load(open('/root/.vp/BASELINE.json'))
with tempfile.TemporaryDirectory() as d:
    x = os.path.join(d, 'j.xml')
    subprocess.run(base['cmd'].replace('<file>', x), shell=True, capture_output=True)
    passed = set()
    for tc in ET.parse(x).getroot().iter('testcase'):
        if not list(tc):
            passed.add('%s::%s' % (tc.get('classname'), tc.get('name')))
missing = [t for t in base['stable_pass'] if t not in passed]
print('stable baseline tests passing: %d / %d' % (len(base['stable_pass']) - len(missing), len(base['stable_pass'])))
for m in missing: print('  NOT PASSING', m)
sys.exit(1 if missing else 0)
