#!/bin/bash
# usage: tools/try_seed.sh <property> <dir with patch.diff and demo.py> [extra dverif args]
# Independent verification of a seeded change + run of the property's check against it, all on a scratch copy.
prop=$1; src=$2; shift 2; case "$src" in /*) ;; *) src=/verif/seeded/$src;; esac
d=$(mktemp -d /tmp/dvseed.XXXXXX); trap 'rm -rf "$d"' EXIT
rsync -a --exclude .git --exclude __pycache__ /repo/ "$d/"
cd "$d"
PYTHONPATH=$d /venv/bin/python "$src/demo.py" >/dev/null 2>&1; echo "demo on pristine copy: exit $?"
PYTHONPATH=$d /venv/bin/python -m pytest -q -p no:cacheprovider --timeout=900 --continue-on-collection-errors -rA 2>/dev/null | grep -E "^(PASSED|FAILED|ERROR)" | sort > "$d/.before"
patch -s -p1 < "$src/patch.diff" || { echo "PATCH DOES NOT APPLY"; exit 9; }
PYTHONPATH=$d /venv/bin/python "$src/demo.py" >/dev/null 2>&1; echo "demo on patched copy : exit $?"
PYTHONPATH=$d /venv/bin/python -m pytest -q -p no:cacheprovider --timeout=900 --continue-on-collection-errors -rA 2>/dev/null | grep -E "^(PASSED|FAILED|ERROR)" | sort > "$d/.after"
echo "test outcomes: $(wc -l < $d/.before) before, $(wc -l < $d/.after) after, differing lines: $(diff $d/.before $d/.after | grep -c '^[<>]')"
cd /verif
DVERIF_REPO="$d" DVERIF_EVIDENCE_DIR="$d/evidence" timeout 3000 python3-vt -m dverif check "$prop" "$@" > "$d/.out" 2>&1; code=$?
grep -E "^property=" "$d/.out" | cut -c1-170
grep -E "^  obligation" "$d/.out" | sed -E 's/^  obligation [^[]*\[[^]]*\]\.//; s/ \(.*//' | sort | uniq -c | sort -rn | head -6
echo "check exit code: $code"
