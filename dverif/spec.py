"""Spec API, symbolic interpretation.  Contracts are written against the small
interface shared by this module (z3 terms) and ``natspec`` (real NumPy values):

    S.int / S.real / S.label / S.length / S.array1d / S.arraynd   -- inputs
    S.assume                                                       -- requires
    S.forall / S.forall2 / S.exists / S.implies / S.land / S.lor / S.lnot / S.ite / S.iff
    S.at(arr, *idx) / S.n(arr) / S.shape(arr)

Python `and` / `or` / `not` and chained comparisons must not be used on
symbolic truth values inside contracts (they would fork the path); use the
combinators.
"""
import z3
from . import sym, symnp
from .sym import SymBool, SymInt, SymReal, SymStr, SymNum, to_z3, mkbool, mkint, conc, zint, fresh_name


class SymSpec(object):
    mode = "sym"

    @property
    def da(self):
        from . import loader
        return loader.load()

    def __init__(self, ctx, lengths=None):
        self.ctx = ctx
        self.lengths = dict(lengths or {})     # bounded mode: name -> concrete length
        self.inputs = []                        # (name, kind, descriptor) for model decoding
        self.requires = []

    # -- inputs -------------------------------------------------------------
    def int(self, name):
        t = z3.Int(name)
        self.inputs.append((name, "int", t))
        return SymInt(t)

    def real(self, name):
        t = z3.Real(name)
        self.inputs.append((name, "real", t))
        return SymReal(t)

    def strlabel(self, name):
        t = z3.Int(name)
        self.inputs.append((name, "str", t))
        return SymStr(t)

    def bool(self, name):
        t = z3.Bool(name)
        self.inputs.append((name, "bool", t))
        return SymBool(t)

    def label(self, name, kind):
        return {"i": self.int, "f": self.real, "O": self.strlabel}[kind](name)

    def length(self, name, minimum=0):
        if name in self.lengths:
            return self.lengths[name]
        t = z3.Int(name)
        self.ctx.add(t >= minimum)
        self.inputs.append((name, "int", t))
        return SymInt(t)

    def array1d(self, name, kind, n=None):
        """fresh 1-D array; kind in i/f/b/O (O = string labels).  n: length (int, SymInt or None for fresh)"""
        if n is None:
            n = self.length(name + ".n")
        # integer *labels* are embedded in the reals (only ==, <, +- are used on labels; integrality is
        # never needed, and dropping it only makes the proof more general); pass kind="I" for true ints
        elem = {"i": "real", "I": "int", "f": "real", "b": "bool", "O": "str"}[kind]
        kind = "i" if kind == "I" else kind
        srt = {"int": z3.IntSort(), "real": z3.RealSort(), "bool": z3.BoolSort(), "str": z3.IntSort()}[elem]
        f = z3.Function(name, z3.IntSort(), srt)
        arr = symnp.ndarray.from_fn(lambda i: f(zint(i)), (n,), kind, elem, name=name)
        arr.buf.tags["func"] = (f, arr.buf.fn)
        if kind == "i" and elem == "real" and isinstance(n, int):
            for i in range(n):           # bounded mode: counterexamples must be genuine integer labels
                self.ctx.add(z3.IsInt(f(i)))
        self.inputs.append((name, "array1d", (f, n, kind, elem)))
        return arr

    def arraynd(self, name, kind, shape):
        elem = {"i": "int", "I": "int", "f": "real", "b": "bool", "O": "str"}[kind]
        kind = "i" if kind == "I" else kind
        srt = {"int": z3.IntSort(), "real": z3.RealSort(), "bool": z3.BoolSort(), "str": z3.IntSort()}[elem]
        if len(shape) == 0:
            c = z3.Const(name, srt)
            self.inputs.append((name, "arraynd", (c, (), kind, elem)))
            return symnp.ndarray.from_fn(lambda: c, (), kind, elem, name=name)
        f = z3.Function(name, *([z3.IntSort()] * len(shape) + [srt]))
        arr = symnp.ndarray.from_fn(lambda *i: f(*[zint(k) for k in i]), tuple(shape), kind, elem, name=name)
        self.inputs.append((name, "arraynd", (f, tuple(shape), kind, elem)))
        return arr

    def fresh_int(self, name):
        return SymInt(z3.Int(name))

    def fresh_length(self, name):
        t = z3.Int(name)
        self.ctx.add(t >= 0)
        return SymInt(t)

    def fresh_array1d(self, name, kind, n):
        elem = {"i": "real", "I": "int", "f": "real", "b": "bool", "O": "str"}[kind]
        kind = "i" if kind == "I" else kind
        srt = {"int": z3.IntSort(), "real": z3.RealSort(), "bool": z3.BoolSort(), "str": z3.IntSort()}[elem]
        f = z3.Function(name, z3.IntSort(), srt)
        r = symnp.ndarray.from_fn(lambda i: f(zint(i)), (n,), kind, elem, name=name)
        r.buf.tags["func"] = (f, r.buf.fn)
        return r

    def fresh_arraynd(self, name, kind, shape):
        elem = {"i": "int", "I": "int", "f": "real", "b": "bool", "O": "str"}[kind]
        kind = "i" if kind == "I" else kind
        srt = {"int": z3.IntSort(), "real": z3.RealSort(), "bool": z3.BoolSort(), "str": z3.IntSort()}[elem]
        if not shape:
            c = z3.Const(name, srt)
            return symnp.ndarray.from_fn(lambda: c, (), kind, elem, name=name)
        f = z3.Function(name, *([z3.IntSort()] * len(shape) + [srt]))
        return symnp.ndarray.from_fn(lambda *i: f(*[zint(k) for k in i]), tuple(shape), kind, elem, name=name)

    def tag(self, arr, key, value):
        arr.buf.tags[key] = value

    def ghost_int(self, name, native=None):
        t = z3.Int(name)
        return SymInt(t)

    def assume(self, cond, text=""):
        self.ctx.add(to_z3(cond))
        self.requires.append(text or sym._short(to_z3(cond)))

    # -- logic ----------------------------------------------------------------
    @staticmethod
    def _b(x):
        return to_z3(x)

    def forall(self, lo, hi, body):
        return mkbool(sym.forall(lo, hi, lambda i: to_z3(body(mkint(i) if not isinstance(i, int) else i))))

    def forall2(self, lo, hi, body):
        w = lambda i: mkint(i) if not isinstance(i, int) else i
        return mkbool(sym.forall2(lo, hi, lambda i, j: to_z3(body(w(i), w(j)))))

    def exists(self, lo, hi, body):
        return mkbool(sym.exists(lo, hi, lambda i: to_z3(body(mkint(i) if not isinstance(i, int) else i))))

    def implies(self, a, b):
        if callable(b):
            b = b()
        return mkbool(z3.Implies(to_z3(a), to_z3(b)))

    def iff(self, a, b):
        return mkbool(to_z3(a) == to_z3(b))

    def land(self, *xs):
        return mkbool(sym.land(*xs))

    def lor(self, *xs):
        return mkbool(sym.lor(*xs))

    def lnot(self, a):
        return mkbool(z3.Not(to_z3(a)))

    def ite(self, c, a, b):
        return sym.wrap(z3.If(to_z3(c), to_z3(a), to_z3(b)))

    def mod(self, a, m):
        """a mod m for a concrete positive m (python semantics: result in [0, m))"""
        assert isinstance(m, int) and m > 0
        if isinstance(a, int):
            return a % m
        return mkint(to_z3(a) % m)

    def div(self, a, m):
        """floor(a / m) for a concrete positive m"""
        assert isinstance(m, int) and m > 0
        if isinstance(a, int):
            return a // m
        return mkint(to_z3(a) / m)

    def forall_nd(self, shape, body):
        """AND over the index box of `shape`"""
        w = lambda i: mkint(i) if not isinstance(i, int) else i
        return mkbool(symnp._forall_nd(tuple(symnp._z(s) for s in shape), lambda *ix: to_z3(body(*[w(i) for i in ix]))))

    def mask_positions(self, mask):
        """strictly increasing enumeration of the true positions (the library's own definition)"""
        return symnp.mask_positions(mask)

    def isin(self, a, b):
        """boolean array: a[i] occurs in b (NumPy's isin; the library contract carries an explicit witness)"""
        return symnp.isin(a, b)

    def np_apply(self, name, arr, axis=None, **kw):
        """NumPy's own function `name` applied to the array (uninterpreted in the model, memoized on content / axis / keywords:
        the very symbols the code obtains when it makes the same call)"""
        return getattr(symnp, name)(arr, axis=axis, **kw)

    def op(self, name, x, y):
        """the cell NumPy's binary ufunc np.<name> computes from the cells x and y (uninterpreted in the model)"""
        return symnp._wrap_elem(symnp.ufunc2_term(name, x, y), "real")

    def nan(self):
        return symnp._wrap_elem(symnp.NAN, "real")

    def prod(self, sizes):
        """the product of extents (remembers its factors: an array of that extent can be split back into them)"""
        return symnp.prod(list(sizes))

    def rowmajor(self, idx, sizes):
        """position of the coordinate idx in the row-major (C order) merge of dimensions of extents `sizes`"""
        if len(idx) == 1:
            return idx[0]
        return symnp.mkint(symnp.rowmajor([symnp.zint(i) for i in idx], list(sizes)))

    def unrowmajor(self, g, sizes):
        """the coordinate whose row-major position among dimensions of extents `sizes` is g"""
        if len(sizes) == 1:
            return [g]
        return [symnp.mkint(t) for t in symnp.unrowmajor(symnp.zint(g), [symnp._raw(x) for x in sizes])]

    def sort_rank(self, arr):
        """rank[p] = position of element p in NumPy's argsort order (the inverse permutation of np.argsort)"""
        return symnp.argsort(arr).buf.tags["inverse"]

    def calls(self, contract_name):
        """results of the callee contracts used on this path: [(case, env, result)]"""
        return [c for c in self.ctx.calls if c[0] == contract_name]

    # -- arrays ---------------------------------------------------------------
    def at(self, arr, *idx):
        return symnp._wrap_elem(arr.at(*idx), arr.elem)

    def n(self, arr):
        return symnp._ext(arr._shape[0])

    def shape(self, arr):
        return arr.shape

    def is_array(self, x):
        return isinstance(x, symnp.ndarray)

    def kind(self, arr):
        return arr.kind

    def isnan(self, x):
        if isinstance(x, SymReal):
            return mkbool(sym.ISNAN(x.t))
        if isinstance(x, float):
            return x != x
        return False

    def same(self, a, b):
        """two DATA cells hold the same value: equal, or both NaN (IEEE `==` is false on NaN; cells that were copied are
        nevertheless the same).  One meaning in both interpretations."""
        za, zb = to_z3(a), to_z3(b)
        if z3.is_real(za) or z3.is_real(zb):
            za, zb = sym._toreal(za), sym._toreal(zb)
            return mkbool(z3.Or(za == zb, z3.And(sym.ISNAN(za), sym.ISNAN(zb))))
        return mkbool(za == zb)

    def map_not_nan(self, arr):
        """boolean array: the cell is a valid (non-NaN) value"""
        f = arr.snapshot()
        if arr.elem != "real":
            return symnp.full(arr.shape, True, bool)
        return symnp.ndarray.from_fn(lambda *i: z3.Not(sym.ISNAN(f(*i))), arr._shape, "b", "bool")

    def snapshot(self, arr):
        """frozen copy of an array's current content (for old(.) in postconditions)"""
        r = symnp.ndarray.from_fn(arr.snapshot(), arr._shape, arr.kind, arr.elem)
        if arr.imap is None and "func" in arr.buf.tags and arr.buf.tags["func"][1] is arr.buf.fn:
            r.buf.tags["func"] = (arr.buf.tags["func"][0], r.buf.fn)
        return r

    def concrete_array(self, data):
        return symnp.asarray(data)

    def asarray(self, x):
        return symnp.asarray(x)

    def is_dimarray(self, x):
        return isinstance(x, self.da.DimArray)

    def is_none(self, x):
        return x is None

    def isint(self, x):
        return isinstance(x, (int, SymInt)) and not isinstance(x, bool)

    def same_buffer(self, a, b):
        return isinstance(a, symnp.ndarray) and isinstance(b, symnp.ndarray) and a.buf is b.buf

    def writable(self, a):
        """the array accepts in-place assignment (NumPy's flags.writeable)"""
        return isinstance(a, symnp.ndarray) and not a.buf.tags.get("readonly")


def decode_model(S, model):
    """evaluate every declared input in a z3 model -> JSON-able dict"""
    from fractions import Fraction
    out = {}

    def val(t, elem=None):
        v = model.eval(t, model_completion=True)
        if z3.is_int_value(v):
            return v.as_long()
        if z3.is_rational_value(v):
            fr = Fraction(v.numerator_as_long(), v.denominator_as_long())
            if fr.denominator == 1:
                return int(fr.numerator)
            return {"frac": [fr.numerator, fr.denominator]}
        if z3.is_algebraic_value(v):
            return {"approx": float(v.approx(20).as_fraction())}
        if z3.is_true(v):
            return True
        if z3.is_false(v):
            return False
        return str(v)

    for name, kind, d in S.inputs:
        if kind in ("int", "real", "str", "bool"):
            out[name] = {"type": kind, "value": val(d)}
        elif kind == "array1d":
            f, n, k, elem = d
            nn = n if isinstance(n, int) else val(zint(n))
            out[name] = {"type": "array1d", "kind": k, "elem": elem, "values": [val(f(i)) for i in range(int(nn))]}
        elif kind == "arraynd":
            f, shape, k, elem = d
            import itertools
            shp = [s if isinstance(s, int) else val(zint(s)) for s in shape]
            if not shp:
                out[name] = {"type": "arraynd", "kind": k, "elem": elem, "shape": [], "values": val(f)}
            else:
                vals = [val(f(*ix)) for ix in itertools.product(*[range(int(s)) for s in shp])]
                out[name] = {"type": "arraynd", "kind": k, "elem": elem, "shape": [int(s) for s in shp], "values": vals}
    return out
