import sys
from .cli import main
try:
    code = main()
except SystemExit:
    raise
except BaseException as e:                 # a crash of the checker is an engine error (exit 3), never a verdict
    import traceback
    traceback.print_exc()
    print("ENGINE ERROR: the checker itself failed (%s: %s); no verdict" % (type(e).__name__, e))
    code = 3
sys.exit(code)
