"""Spec API, native interpretation: the same contract text evaluated on real
NumPy values under /venv/bin/python (replay of counterexamples, bounded
stand-ins, CPython cross-check).  No z3 here."""
from fractions import Fraction
import numpy as np


class PreconditionNotMet(Exception):
    pass


def _num(v):
    if v is None:
        return float("nan")
    if isinstance(v, dict):
        if "frac" in v:
            fr = Fraction(v["frac"][0], v["frac"][1])
            return float(fr)
        if "approx" in v:
            return float(v["approx"])
    return v


class NatSpec(object):
    mode = "nat"

    @property
    def da(self):
        import dimarray
        return dimarray

    def __init__(self, inputs):
        self.inputs_json = inputs
        self._strcodes = None

    # string labels are int-coded in the prover; decode order-preservingly
    def _str(self, code):
        if self._strcodes is None:
            codes = set()
            for d in self.inputs_json.values():
                if d.get("type") == "str":
                    codes.add(d["value"])
                elif d.get("elem") == "str":
                    codes.update(d["values"])
            self._strcodes = {c: "s%03d" % k for k, c in enumerate(sorted(codes))}
        return self._strcodes[code]

    def _get(self, name):
        if name not in self.inputs_json:
            raise KeyError("replay input %r missing" % name)
        return self.inputs_json[name]

    def int(self, name):
        return int(self._get(name)["value"])

    def real(self, name):
        return float(_num(self._get(name)["value"]))

    def strlabel(self, name):
        return self._str(self._get(name)["value"])

    def bool(self, name):
        return bool(self._get(name)["value"])

    def label(self, name, kind):
        return {"i": self.int, "f": self.real, "O": self.strlabel}[kind](name)

    def length(self, name, minimum=0):
        if name in self.inputs_json:
            return int(self.inputs_json[name]["value"])
        raise KeyError(name)

    def array1d(self, name, kind, n=None):
        d = self._get(name)
        vals = d["values"]
        if kind == "O":
            a = np.empty(len(vals), dtype=object)
            a[:] = [self._str(c) for c in vals]
            return a
        if kind == "f":
            return np.array([float(_num(v)) for v in vals], dtype=float)
        if kind in ("i", "I"):
            return np.array([int(_num(v)) for v in vals], dtype=int)
        if kind == "b":
            return np.array([bool(v) for v in vals], dtype=bool)
        raise ValueError(kind)

    def arraynd(self, name, kind, shape):
        d = self._get(name)
        dt = {"f": float, "i": int, "I": int, "b": bool, "O": object}[kind]
        if not d["shape"]:
            return np.array(_num(d["values"]), dtype=dt)
        vals = [_num(v) for v in d["values"]]
        if kind == "O":
            vals = [self._str(c) for c in vals]
        a = np.empty(len(vals), dtype=dt)
        a[:] = vals
        return a.reshape(d["shape"])

    def tag(self, arr, key, value):
        pass

    def ghost_int(self, name, native=None):
        return native()

    def assume(self, cond, text=""):
        if not cond:
            raise PreconditionNotMet(text)

    # logic
    def forall(self, lo, hi, body):
        return all(body(i) for i in range(int(lo), int(hi)))

    def forall2(self, lo, hi, body):
        return all(body(i, j) for i in range(int(lo), int(hi)) for j in range(i + 1, int(hi)))

    def exists(self, lo, hi, body):
        return any(body(i) for i in range(int(lo), int(hi)))

    def implies(self, a, b):
        """b may be a thunk (evaluated only when a holds: guards out-of-range reads natively)"""
        if not a:
            return True
        return bool(b() if callable(b) else b)

    def iff(self, a, b):
        return bool(a) == bool(b)

    def land(self, *xs):
        return all(bool(x) for x in xs)

    def lor(self, *xs):
        return any(bool(x) for x in xs)

    def lnot(self, a):
        return not a

    def ite(self, c, a, b):
        return a if c else b

    def mod(self, a, m):
        return int(a) % m

    def div(self, a, m):
        return int(a) // m

    def forall_nd(self, shape, body):
        import itertools
        return all(body(*ix) for ix in itertools.product(*[range(int(s)) for s in shape]))

    def mask_positions(self, mask):
        return np.nonzero(np.asarray(mask))[0]

    def isin(self, a, b):
        return np.isin(np.asarray(a), np.asarray(b))

    def np_apply(self, name, arr, axis=None, **kw):
        import warnings
        with warnings.catch_warnings():
            warnings.simplefilter("ignore")
            return getattr(np, name)(np.asarray(arr), axis=axis, **kw)

    def op(self, name, x, y):
        import warnings
        with warnings.catch_warnings():
            warnings.simplefilter("ignore")
            return float(getattr(np, name)(float(x), float(y)))

    def nan(self):
        return float("nan")

    def prod(self, sizes):
        r = 1
        for x in sizes:
            r *= int(x)
        return r

    def rowmajor(self, idx, sizes):
        g = 0
        for i, n_ in zip(idx, sizes):
            g = g * int(n_) + int(i)
        return g

    def unrowmajor(self, g, sizes):
        return [int(t) for t in np.unravel_index(int(g), tuple(int(x) for x in sizes))]

    def sort_rank(self, arr):
        return np.argsort(np.argsort(np.asarray(arr), kind="stable"), kind="stable")

    def calls(self, contract_name):
        return []

    # arrays
    def at(self, arr, *idx):
        v = np.asarray(arr)[tuple(int(i) for i in idx)]
        return v.item() if hasattr(v, "item") else v

    def n(self, arr):
        return int(np.asarray(arr).shape[0])

    def shape(self, arr):
        return tuple(int(s) for s in np.asarray(arr).shape)

    def is_array(self, x):
        return isinstance(x, np.ndarray)

    def kind(self, arr):
        return np.asarray(arr).dtype.kind

    def isnan(self, x):
        return isinstance(x, float) and x != x

    def same(self, a, b):
        if isinstance(a, float) and isinstance(b, float) and a != a and b != b:
            return True
        return bool(a == b)

    def map_not_nan(self, arr):
        a = np.asarray(arr)
        return ~np.isnan(a) if a.dtype.kind == "f" else np.ones(a.shape, dtype=bool)

    def snapshot(self, arr):
        return np.array(arr, copy=True)

    def concrete_array(self, data):
        return np.asarray(data)

    def asarray(self, x):
        return np.asarray(x)

    def is_dimarray(self, x):
        return isinstance(x, self.da.DimArray)

    def is_none(self, x):
        return x is None

    def isint(self, x):
        return isinstance(x, (int, np.integer)) and not isinstance(x, (bool, np.bool_))

    def same_buffer(self, a, b):
        return isinstance(a, np.ndarray) and isinstance(b, np.ndarray) and np.shares_memory(a, b)

    def writable(self, a):
        return isinstance(a, np.ndarray) and bool(a.flags.writeable)
