"""Extraction: load the *real* dimarray sources from the repository working tree.

Every ``dimarray.*`` module is compiled from the file under ``$DVERIF_REPO``
(default /repo) without any rewriting and executed in a module namespace whose
``__builtins__`` is a copy of the real builtins with a few symbolic-aware
replacements (listed in ``SUBSTITUTED_BUILTINS``), while ``numpy`` resolves to
``dverif.symnp``.  Nothing is dropped from the source text.
"""
import builtins
import hashlib
import importlib.abc
import importlib.util
import inspect
import os
import sys
import warnings

from . import sym, symnp
from .sym import SymBool, SymInt, SymReal, SymStr, SymNum, OutOfSubset, conc

REPO = os.environ.get("DVERIF_REPO", "/repo")

# --------------------------------------------------------------------------
# builtins seen by the code under verification
# --------------------------------------------------------------------------

_SYM_AS = [(SymStr, (str,)), (SymInt, (int,)), (SymReal, (float,)), (SymBool, (bool,))]


def _flatten_classes(c):
    if isinstance(c, tuple):
        out = []
        for x in c:
            out.extend(_flatten_classes(x))
        return out
    return [c]


class _IntMeta(type):
    """`int` as seen by the code under verification: int(x) keeps symbolic integers symbolic"""
    def __call__(cls, *a, **k):
        if a and type(a[0]) is SymInt:
            return a[0]
        if a and type(a[0]) is SymBool:
            import z3
            return sym.mkint(z3.If(a[0].t, 1, 0))
        if a and isinstance(a[0], SymNum):
            raise OutOfSubset("int() of a symbolic %s" % type(a[0]).__name__)
        return int(*a, **k)

    def __instancecheck__(cls, obj):
        return isinstance(obj, int) or type(obj) is SymInt

    def __subclasscheck__(cls, sub):
        return issubclass(sub, int)

    def __eq__(cls, o):
        return o is int or o is cls

    def __ne__(cls, o):
        return not cls.__eq__(o)

    def __hash__(cls):
        return hash(int)

    def __repr__(cls):
        return "<class 'int'>"


class dv_int(metaclass=_IntMeta):
    pass


def dv_isinstance(obj, classes):
    if classes is dv_int:
        classes = int
    elif isinstance(classes, tuple) and any(c is dv_int for c in _flatten_classes(classes)):
        classes = tuple(int if c is dv_int else c for c in _flatten_classes(classes))
    for symcls, pys in _SYM_AS:
        if type(obj) is symcls:
            cl = _flatten_classes(classes)
            if any(p in cl for p in pys):
                return True
            if symcls is SymBool and int in cl:
                return False       # np.bool_ is not an int
            break
    return isinstance(obj, classes)


class _TypeMeta(type):
    def __call__(cls, *args):
        if len(args) == 1:
            t = type(args[0])
            for symcls, pys in _SYM_AS:
                if t is symcls:
                    return dv_int if pys[0] is int else pys[0]
            return dv_int if t is int else t
        return type(*args)

    def __instancecheck__(cls, obj):
        return isinstance(obj, type)

    def __subclasscheck__(cls, sub):
        return issubclass(sub, type)


class dv_type(metaclass=_TypeMeta):
    pass


def dv_len(x):
    if isinstance(x, symnp.ndarray):
        if not x._shape:
            raise TypeError("len() of unsized object")
        return symnp._ext(x._shape[0])
    ln = getattr(type(x), "__len__", None)
    if isinstance(ln, property):      # dimarray's Axis defines __len__ as a property returning values.__len__
        v = getattr(x, "values", None)
        if isinstance(v, symnp.ndarray):
            return dv_len(v)
    return len(x)


def dv_range(*args):
    return range(*[symnp.conc_req(a) for a in args])


def dv_print(*a, **k):
    pass


def dv_hasattr(obj, name):
    return hasattr(obj, name)


def dv_float(x=0.0):
    if isinstance(x, SymReal):
        return x
    if isinstance(x, SymInt):
        return SymReal(sym._toreal(x.t))
    return float(x)


class _FloatMeta(type):
    def __call__(cls, *a):
        return dv_float(*a)
    def __instancecheck__(cls, obj):
        return isinstance(obj, float)
    def __eq__(cls, o):
        return o is float or o is cls
    def __hash__(cls):
        return hash(float)


SUBSTITUTED_BUILTINS = {
    "len": dv_len,
    "int": dv_int,
    "isinstance": dv_isinstance,
    "type": dv_type,
    "range": dv_range,
    "print": dv_print,
}

SYMBUILTINS = dict(vars(builtins))
SYMBUILTINS.update(SUBSTITUTED_BUILTINS)


# --------------------------------------------------------------------------
# import hook
# --------------------------------------------------------------------------

class _Loader(importlib.abc.Loader):
    def __init__(self, path):
        self.path = path

    def create_module(self, spec):
        return None

    def exec_module(self, module):
        with open(self.path, "rb") as f:
            src = f.read()
        code = compile(src, self.path, "exec")
        module.__dict__["__builtins__"] = SYMBUILTINS
        module.__dict__["__dverif_sha256__"] = hashlib.sha256(src).hexdigest()
        exec(code, module.__dict__)


class _Finder(importlib.abc.MetaPathFinder):
    def find_spec(self, fullname, path=None, target=None):
        if fullname != "dimarray" and not fullname.startswith("dimarray."):
            return None
        rel = os.path.join(REPO, *fullname.split("."))
        if os.path.isdir(rel) and os.path.isfile(os.path.join(rel, "__init__.py")):
            p = os.path.join(rel, "__init__.py")
            return importlib.util.spec_from_file_location(fullname, p, loader=_Loader(p),
                                                          submodule_search_locations=[rel])
        if os.path.isfile(rel + ".py"):
            return importlib.util.spec_from_file_location(fullname, rel + ".py", loader=_Loader(rel + ".py"))
        return None


_installed = False
REAL_NUMPY = None


def install():
    """make `import dimarray` load the working tree symbolically (idempotent)"""
    global _installed
    if _installed:
        return
    global REAL_NUMPY
    for k in list(sys.modules):
        if k == "dimarray" or k.startswith("dimarray."):
            raise RuntimeError("dverif.loader.install() must run before dimarray is imported (found %s)" % k)
    # keep a handle on the interpreter's real NumPy (only consulted to tell a gap of the model from behaviour of NumPy itself,
    # e.g. whether a NumPy scalar has a given attribute), then hand the name `numpy` to the model
    try:
        import numpy as _np
        REAL_NUMPY = _np
    except Exception:
        REAL_NUMPY = None
    for k in list(sys.modules):
        if k == "numpy" or k.startswith("numpy."):
            del sys.modules[k]
    sys.modules["numpy"] = symnp
    sys.modules["numpy.ma"] = symnp.ma
    sys.meta_path.insert(0, _Finder())
    warnings.simplefilter("ignore")
    _installed = True


def load():
    install()
    import io
    import contextlib
    with contextlib.redirect_stdout(io.StringIO()):
        import dimarray
    _substitute(dimarray)
    return dimarray


# repository functions replaced by a model (each one is an assumption, listed in every evidence file)
SUBSTITUTED_FUNCTIONS = {
    "dimarray.core.indexing:_expand_slice": "np.arange(*slice_.indices(size)) -- slice.indices is a CPython builtin that "
                                            "requires concrete integers; replaced by the same definition over symbolic slice arithmetic",
}


def _substitute(dimarray):
    import dimarray.core.indexing as ix
    if getattr(ix._expand_slice, "__module__", "") != symnp.__name__:
        ix._expand_slice = symnp.expand_slice


def resolve(target):
    """'dimarray.core.indexing:locate_slice' or '...:Axis.union' -> (object, file, first line, last line, sha256 of its source)"""
    load()
    modname, qual = target.split(":")
    mod = importlib.import_module(modname)
    obj = mod
    for part in qual.split("."):
        obj = inspect.getattr_static(obj, part) if inspect.isclass(obj) else getattr(obj, part)
    raw = obj
    if isinstance(raw, (staticmethod, classmethod)):
        raw = raw.__func__
    if isinstance(raw, property):
        raw = raw.fget
    src, first = inspect.getsourcelines(raw)
    text = "".join(src)
    return obj, inspect.getsourcefile(raw), first, first + len(src) - 1, hashlib.sha256(text.encode()).hexdigest()
