"""python3-vt -m dverif check <property> [--tier quick|thorough]  |  replay <file>  |  list"""
import argparse
import hashlib
import importlib
import json
import multiprocessing
import os
import re
import subprocess
import sys
import time

ROOT = os.path.dirname(os.path.dirname(os.path.abspath(__file__)))
VENV_PY = os.environ.get("DVERIF_NATIVE_PY", "/venv/bin/python")
REPO = os.environ.get("DVERIF_REPO", "/repo")


# --------------------------------------------------------------------------
# workers
# --------------------------------------------------------------------------

def _init_worker():
    sys.path.insert(0, ROOT)
    from dverif import loader
    loader.load()


def _work(job):
    modname, clsname, case, tier = job
    from dverif import engine
    try:
        mod = importlib.import_module(modname)
        contract = getattr(mod, clsname)()
        if contract.native_only:
            return {"contract": contract.name, "target": contract.target, "case": case["name"], "module": modname, "case_params": case,
                    "paths": [], "obligations": [], "generation_errors": [], "lib": [], "solver_s": 0.0, "canaries": {},
                    "counterexamples": {}, "bounded": {"N": 0, "length_names": [], "runs": 0, "sat_paths": 1, "returning_paths": 0},
                    "bounded_clauses": ["<every clause of this contract>"], "proved_clauses": [], "wall_s": 0.0, "native_only": True}
        s = engine.check_case(contract, case, tier)
        s["module"] = modname
        s["case_params"] = case
        return s
    except BaseException as e:       # engine crash: reported as exit 3, never as a verdict
        import traceback
        return {"module": modname, "contract": clsname, "case": case.get("name"), "case_params": case,
                "crash": "%s: %s" % (type(e).__name__, e), "trace": traceback.format_exc()[-3000:]}


def native_run(jobs, timeout=600):
    """run contracts on the real code under /venv"""
    if not jobs:
        return []
    env = dict(os.environ)
    env["PYTHONPATH"] = ROOT + os.pathsep + REPO
    env["DVERIF_REPO"] = REPO
    env.pop("PYTHONHOME", None)
    p = subprocess.run([VENV_PY, "-m", "dverif.native"], input=json.dumps(jobs), capture_output=True,
                       text=True, env=env, cwd=ROOT, timeout=timeout)
    if p.returncode != 0:
        raise RuntimeError("native runner failed: %s" % p.stderr[-2000:])
    return json.loads(p.stdout)


def native_run_parallel(jobs, nproc=16, timeout=None):
    """spread native jobs over several /venv interpreters (order of results = order of jobs).  Scheduling is dynamic: the
    expensive jobs (large caps) go first, one per interpreter; the cheap ones in groups of eight.  A group whose interpreter
    does not answer in time yields runner-error entries (reported as an engine error, exit 3 -- never as a verdict)."""
    if not jobs:
        return []
    order = sorted(range(len(jobs)), key=lambda i: -jobs[i].get("cap", 0))
    big = [i for i in order if jobs[i].get("cap", 0) > 5000]
    small = [i for i in order if jobs[i].get("cap", 0) <= 5000]
    groups = [[i] for i in big] + [small[k:k + 8] for k in range(0, len(small), 8)]
    out = [None] * len(jobs)

    def run(group):
        limit = timeout or (sum(jobs[i].get("time_limit") or 600 for i in group) + 300)
        try:
            part = native_run([jobs[i] for i in group], limit)
        except subprocess.TimeoutExpired:
            part = [{"outcome": "runner-error", "reason": "native runner gave no answer within %d s" % limit}] * len(group)
        for i, r in zip(group, part):
            out[i] = r
    from concurrent.futures import ThreadPoolExecutor
    with ThreadPoolExecutor(max(1, min(nproc, len(groups)))) as ex:
        list(ex.map(run, groups))
    return out


# --------------------------------------------------------------------------
# known findings
# --------------------------------------------------------------------------

def load_findings():
    path = os.path.join(ROOT, "known_findings.json")
    if not os.path.exists(path):
        return []
    with open(path) as f:
        return json.load(f)["findings"]


def match_finding(findings, prop, contract, case, obligation):
    for f in findings:
        if f.get("status") != "open" or f["property"] != prop:
            continue
        if re.fullmatch(f["contract"], contract) and re.fullmatch(f["case"], case) and re.fullmatch(f["obligation"], obligation):
            return f
    return None


# --------------------------------------------------------------------------
# check
# --------------------------------------------------------------------------

def function_table(contracts):
    from dverif import loader
    rows = []
    for c in contracts:
        if not c.target:
            continue
        try:
            obj, fn, a, b, sha = loader.resolve(c.target)
            rows.append({"function": c.target, "file": os.path.relpath(fn, REPO), "lines": [a, b], "sha256": sha,
                         "contract": c.name, "inlined": list(c.inlined), "tier": "P"})
        except Exception as e:
            rows.append({"function": c.target, "missing": "%s: %s" % (type(e).__name__, e), "contract": c.name})
    return rows


def cmd_check(prop, tier, seed, only=None, jobs=None):
    t0 = time.time()
    sys.path.insert(0, ROOT)
    from contracts import registry
    entry = registry.PROPERTIES[prop]
    contracts = []
    work = []
    for item in entry["contracts"]:
        cls, flt = item if isinstance(item, tuple) else (item, None)
        c = cls()
        contracts.append(c)
        for case in c.cases(tier):
            if flt and not re.search(flt, case["name"]):
                continue
            if only and not re.search(only, "%s/%s" % (c.name, case["name"])):
                continue
            work.append((type(c).__module__, type(c).__name__, case, tier))
    nproc = jobs or min(16, os.cpu_count() or 4)
    with multiprocessing.Pool(nproc, initializer=_init_worker) as pool:
        results = pool.map(_work, work, chunksize=1)

    findings = load_findings()
    crashes = [r for r in results if "crash" in r]
    obligations = discharged = 0
    by_backend = {}
    solver_s = 0.0
    failures = []          # (result, obligation)
    fragile = []           # discharged, but not by the default solver variant or only with > 25% of the budget
    generr = []
    lib = set()
    vacuous = []
    canaries_total = canaries_refuted = 0
    canary_jobs = []
    samples = []
    for r in results:
        if "crash" in r:
            continue
        solver_s += r["solver_s"]
        lib.update(r["lib"])
        for g in r["generation_errors"]:
            generr.append((r, g))
        if r["bounded"]["sat_paths"] == 0 and not r["generation_errors"]:
            # (a case ALL of whose paths left the modelled subset has generated nothing: it is undecided -- reported as such and
            # handed to the native fallback --, not vacuous)
            vacuous.append(r)
        for nm, st in r["canaries"].items():
            canaries_total += 1
            if st["refuted"]:
                canaries_refuted += 1
                canary_jobs.append((r, nm, st))
        for o in r["obligations"]:
            obligations += 1
            if o["status"] == "proved":
                discharged += 1
                # stability gate: proved only by a fallback variant, or close to the budget => knife-edge proof
                budget_s = 20.0 if tier == "quick" else 120.0
                if "ematching" in o["backend"] or "seed" in o["backend"] or o["seconds"] > 0.25 * budget_s:
                    fragile.append((r, o))
                b = by_backend.setdefault(o["backend"], {"count": 0, "seconds": 0.0})
                b["count"] += 1
                b["seconds"] += o["seconds"]
                if len(samples) < 3 and o["backend"].startswith("z3") and o["name"].startswith("post."):
                    samples.append({"obligation": "%s[%s].%s" % (r["target"], r["case"], o["name"]), "status": "discharged",
                                    "backend": o["backend"], "seconds": o["seconds"]})
            else:
                failures.append((r, o))

    # ---- native replay of counterexamples ---------------------------------
    violations = []
    known_hits = []
    undecided = []
    in_known_regions = sum(1 for r, o in failures if match_finding(findings, prop, r["contract"], r["case"], o["name"]) is not None)
    rjobs, rmeta = [], []
    seen = set()
    for r, o in failures:
        key = (r["contract"], r["case"], o["name"])
        if key in seen:
            continue
        seen.add(key)
        cex = r["counterexamples"].get(o["name"])
        if cex is not None:
            rjobs.append({"module": r["module"], "contract": r["contract"], "case": r["case_params"], "inputs": cex["inputs"]})
            rmeta.append((r, o, cex))
        else:
            rmeta.append((r, o, None))
    nat = native_run(rjobs)
    it = iter(nat)
    replay_dir = os.path.join(ROOT, "replays", prop)
    for r, o, cex in rmeta:
        fobj = match_finding(findings, prop, r["contract"], r["case"], o["name"])
        native = next(it) if cex is not None else None
        ncl = (native or {}).get("clauses", {})
        base = o["name"].split("@")[0]
        confirmed = bool(native and any(v is False for k, v in ncl.items() if k.split("@")[0] == base))
        rec = {"property": prop, "contract": r["contract"], "module": r["module"], "target": r["target"],
               "case": r["case_params"], "obligation": o["name"], "status": o["status"], "reason": o.get("reason"),
               "detail": o.get("detail"), "goal": o.get("goal"), "exc_trace": o.get("exc_trace"),
               "inputs": cex["inputs"] if cex else None, "lengths": cex["lengths"] if cex else None,
               "decisions": cex.get("decisions") if cex else None,
               "native": native, "confirmed_on_real_code": confirmed}
        if fobj is not None:
            known_hits.append((fobj, rec))
            continue
        if cex is None and o["status"] == "unknown":
            undecided.append(rec)
            continue
        os.makedirs(replay_dir, exist_ok=True)
        h = hashlib.sha1(("%s|%s|%s" % (r["contract"], r["case"], o["name"])).encode()).hexdigest()[:10]
        path = os.path.join(replay_dir, "%s-%s.json" % (r["contract"], h))
        with open(path, "w") as f:
            json.dump(rec, f, indent=1, default=str)
        violations.append((rec, path))

    # ---- canaries must be refuted, and natively false as well ---------------
    cjobs = [{"module": r["module"], "contract": r["contract"], "case": r["case_params"], "inputs": st["inputs"]}
             for r, nm, st in canary_jobs[:40]]
    cnat = native_run(cjobs)
    canary_native_false = 0
    canary_disagree = []
    for (r, nm, st), res in zip(canary_jobs[:40], cnat):
        v = res.get("clauses", {}).get(nm)
        if v is False:
            canary_native_false += 1
        elif res.get("outcome") not in ("precondition-not-met",):
            canary_disagree.append({"contract": r["contract"], "case": r["case"], "canary": nm, "native": res})

    # ---- tier B: bounded native enumeration (labelled bounded; never counted as discharged) -----------------
    import random as _random
    by_name = {c.name: c for c in contracts}
    ok_results = [r for r in results if "crash" not in r]
    # caps count ATTEMPTS (candidates incl. those the contract's requires rejects).  A stand-in should exhaust its family:
    # two arrays of length <= 3 over 5 letters are 156^2 = 24336 candidates.
    maxlen, cap_standin, cap_xcheck = (3, 30000, 300) if tier == "quick" else (4, 700000, 3000)
    tb_limit = 300 if tier == "quick" else 1500          # seconds per enumerated case; a case cut short is reported as such
    tb_jobs, tb_meta = [], []
    chosen = set()
    for r in ok_results:
        c = by_name[r["contract"]]
        role = None
        if c.bounded_obligations(r["case_params"]):
            role = "stand-in"
        elif any(g["outcome"] in ("out-of-subset", "needs-contract", "path-limit", "time-limit") for g in r["generation_errors"]):
            role = "fallback"
        if role:
            chosen.add((r["contract"], r["case"]))
            # (a contract may state its own cap per tier: `enumeration_cap = {"quick": n, "thorough": m}` -- reported in the evidence)
            own_cap = (getattr(c, "enumeration_cap", None) or {}).get(tier)
            tb_jobs.append({"mode": "enumerate", "module": r["module"], "contract": r["contract"], "case": r["case_params"],
                            "maxlen": maxlen, "cap": own_cap or cap_standin, "seed": seed, "time_limit": tb_limit})
            tb_meta.append((r, role))
    rest = [r for r in ok_results if (r["contract"], r["case"]) not in chosen and by_name[r["contract"]].target]
    _random.Random(seed).shuffle(rest)
    for r in (rest if tier == "thorough" else rest[:48]):
        tb_jobs.append({"mode": "enumerate", "module": r["module"], "contract": r["contract"], "case": r["case_params"],
                        "maxlen": maxlen, "cap": cap_xcheck, "seed": seed, "time_limit": tb_limit})
        tb_meta.append((r, "cross-check"))
    tb_res = native_run_parallel(tb_jobs, nproc)
    tierb = {}
    tierb_errors = []
    for (r, role), st in zip(tb_meta, tb_res):
        c = by_name[r["contract"]]
        agg = tierb.setdefault((r["contract"], role), {"contract": r["contract"], "function": r["target"], "role": role,
                                                        "clauses": sorted(set(c.bounded_clauses) | set(c.bounded_obligations(r["case_params"]))) if role == "stand-in" else "all clauses of the contract",
                                                        "bound": {"max_array_length": maxlen, "alphabet_sizes": 5, "scalar_candidates": 9,
                                                                  "cap_per_case": ((getattr(c, "enumeration_cap", None) or {}).get(tier) or cap_standin) if role != "cross-check" else cap_xcheck},
                                                        "cases": 0, "evaluations": 0, "rejected_by_requires": 0,
                                                        "distinct_outcome_classes": 0, "cases_enumerated_exhaustively": 0,
                                                        "cases_cut_short_by_the_time_limit": 0, "time_limit_per_case_s": tb_limit, "failures": 0})
        if "evaluations" not in st:
            tierb_errors.append("tier-B runner failed for %s[%s]: %s" % (r["contract"], r["case"], st.get("reason")))
            continue
        agg["cases"] += 1
        agg["evaluations"] += st["evaluations"]
        agg["rejected_by_requires"] += st["rejected_by_requires"]
        agg["distinct_outcome_classes"] += st["distinct_nontrivial"]
        agg["cases_enumerated_exhaustively"] += 1 if st["exhaustive"] else 0
        agg["cases_cut_short_by_the_time_limit"] += 1 if st.get("stopped_by_time_limit") else 0
        for e in st.get("errors", []):
            tierb_errors.append("contract %s[%s] cannot be evaluated natively: %s" % (r["contract"], r["case"], str(e.get("error"))[:300]))
        proved_here = set(r.get("proved_clauses", []))
        sym_failed = {o["name"] for o in r["obligations"] if o["status"] != "proved"}
        seen_b = set()
        for fl in st.get("failures", []):
            for cl in fl["clauses"]:
                if cl in sym_failed or cl in seen_b:
                    continue                      # already reported (symbolic pass / an earlier input of this case)
                seen_b.add(cl)
                agg["failures"] += 1
                rec = {"property": prop, "contract": r["contract"], "module": r["module"], "target": r["target"],
                       "case": r["case_params"], "obligation": cl, "status": "false on the real code (bounded enumeration)",
                       "reason": "tier-B %s" % role, "detail": fl.get("exc"), "goal": None, "inputs": fl["inputs"],
                       "lengths": None, "native": {"outcome": fl["outcome"]}, "confirmed_on_real_code": True}
                os.makedirs(replay_dir, exist_ok=True)
                h = hashlib.sha1(("B|%s|%s|%s" % (r["contract"], r["case"], cl)).encode()).hexdigest()[:10]
                path = os.path.join(replay_dir, "%s-B%s.json" % (r["contract"], h))
                with open(path, "w") as f:
                    json.dump(rec, f, indent=1, default=str)
                # "discharged symbolically but false natively" is a contradiction only if the symbolic pass covered the whole
                # case.  A case with generation failures (paths that left the modelled subset) was proved only where it could be
                # generated: a native counterexample there is what the fallback is for -- an ordinary violation.
                fully_covered = not any(g["outcome"] in ("out-of-subset", "needs-contract", "path-limit", "engine-crash", "time-limit") for g in r["generation_errors"])
                if cl in proved_here and fully_covered:
                    tierb_errors.append("SOUNDNESS: %s[%s].%s was discharged symbolically but is FALSE on the real code (replay=%s)"
                                        % (r["contract"], r["case"], cl, path))
                elif match_finding(findings, prop, r["contract"], r["case"], cl) is not None:
                    known_hits.append((match_finding(findings, prop, r["contract"], r["case"], cl), rec))
                else:
                    violations.append((rec, path))
                break
    # a fallback that found nothing leaves the generation failure undecided (already in `undecided`)

    # ---- report ---------------------------------------------------------------
    engine_errors = list(tierb_errors)
    for r in crashes:
        engine_errors.append("engine crash in %s[%s]: %s" % (r["contract"], r["case"], r["crash"]))
    for r in vacuous:
        engine_errors.append("vacuous case (no satisfiable path in bounded mode): %s[%s]" % (r["contract"], r["case"]))
    unrefuted = [(r["contract"], r["case"], nm) for r in results if "crash" not in r for nm, st in r["canaries"].items() if not st["refuted"]]
    for u in unrefuted:
        engine_errors.append("canary not refuted: %s[%s] %s" % u)
    floor = entry.get("min_obligations", 1)
    if obligations < floor and not only:
        engine_errors.append("only %d obligations generated (floor %d)" % (obligations, floor))
    # a property decided by bounded stand-ins has its own vacuity floor: the stand-ins must actually have evaluated inputs
    bfloor = entry.get("min_bounded_evaluations", 0)
    bevals = sum(v["evaluations"] for (cn, role), v in tierb.items() if role == "stand-in")
    if bevals < bfloor and not only:
        engine_errors.append("only %d bounded evaluations made by the stand-ins (floor %d)" % (bevals, bfloor))

    for r, g in generr:
        if g["outcome"] == "engine-crash":
            engine_errors.append("verifier crashed on a path of %s[%s]: %s" % (r["contract"], r["case"], g.get("reason")))
    gen_out = []
    for r, g in generr:
        fobj = match_finding(findings, prop, r["contract"], r["case"], "generation:" + g["outcome"])
        gen_out.append({"contract": r["contract"], "case": r["case"], **g})
        if fobj is None and g["outcome"] != "engine-crash":
            undecided.append({"contract": r["contract"], "case": r["case_params"], "obligation": "generation:" + g["outcome"],
                              "reason": g.get("reason"), "trace": g.get("trace")})

    lines = []
    for fobj, rec in known_hits:
        lines.append("KNOWN-FINDING: property=%s %s" % (prop, fobj["what"]))
    lines = sorted(set(lines))
    for rec, path in violations:
        tail = "" if rec["confirmed_on_real_code"] else " no-failing-input-found"
        lines.append("VIOLATION property=%s replay=%s%s" % (prop, path, tail))
        lines.append("  obligation %s[%s].%s (%s)" % (rec["target"], rec["case"]["name"], rec["obligation"], rec["status"]))
    for u in undecided:
        lines.append("UNDECIDED obligation=%s[%s].%s reason=%s" % (u.get("contract"), u["case"]["name"] if isinstance(u["case"], dict) else u["case"], u["obligation"], u.get("reason")))
    for r, o in fragile:
        lines.append("FRAGILE obligation=%s[%s].%s proved by %s in %.1fs (informational: discharged in this run, but a proof this "
                     "close to the solver's limits is not to be relied on)" % (r["contract"], r["case"], o["name"], o["backend"], o["seconds"]))
    for e in engine_errors:
        lines.append("ENGINE-ERROR " + e)

    fixed = [f for f in findings if f.get("status") == "fixed" and f["property"] == prop]
    wall = time.time() - t0
    level = entry.get("level", "proof")
    ev = {
        "property_id": prop, "tier": tier, "seed": seed, "level": level, "wall_s": round(wall, 2),
        "violations": len(violations),
        "coverage": {
            # obligations that lie (provably) inside a recorded open finding's region are decided -- violated and recorded --
            # and are reported apart; `obligations` / `discharged` count everything outside those regions
            "obligations": obligations - in_known_regions, "discharged": discharged,
            "obligations_in_known_finding_regions": in_known_regions,
            "checker_cmd": "python3-vt -m dverif check %s --tier %s" % (prop, tier),
            "trusted_base": sorted("numpy contract: " + x for x in lib) + list(entry.get("trusted", [])),
            "explanation": entry.get("explanation", ""),
            "functions_under_contract": function_table(contracts),
            "cases": len(work), "paths": sum(len(r.get("paths", [])) for r in results if "crash" not in r),
            "by_backend": by_backend, "solver_seconds": round(solver_s, 2),
            "canaries": {"total": canaries_total, "refuted_symbolically": canaries_refuted,
                         "replayed_natively": len(cjobs), "false_on_real_code": canary_native_false,
                         "native_disagreements": canary_disagree[:5]},
            "vacuity": {"cases_with_a_satisfiable_path": len([r for r in results if "crash" not in r and r["bounded"]["sat_paths"] > 0]),
                        "cases": len(work)},
            "bounded_counterexample_search": {"N": 3 if tier == "quick" else 5},
            "known_findings_hit": [{"what": f["what"], "obligation": rec["obligation"], "case": rec["case"]["name"],
                                    "confirmed_on_real_code": rec["confirmed_on_real_code"]} for f, rec in known_hits][:50],
            "fixed_findings": [f["what"] for f in fixed],
            "generation_errors": gen_out[:20],
            "undecided": len(undecided),
            "fragile_discharges": [{"obligation": "%s[%s].%s" % (r["contract"], r["case"], o["name"]), "backend": o["backend"],
                                    "seconds": o["seconds"]} for r, o in fragile][:40],
            "fragile_count": len(fragile),
            "engine_errors": engine_errors,
            "samples": samples + [{"canary": nm, "case": r["case"], "refuting_input": st.get("inputs")} for r, nm, st in canary_jobs[:2]],
            "bounded_standins": [v for (cn, role), v in sorted(tierb.items()) if role != "cross-check"],
            "cpython_cross_check": [v for (cn, role), v in sorted(tierb.items()) if role == "cross-check"],
            "evaluations": sum(v["evaluations"] for v in tierb.values()),
            "distinct_nontrivial": sum(v["distinct_outcome_classes"] for v in tierb.values()),
            "rule": "tier B: the contract's own setup defines the input family (array lengths <= %d over 5-value alphabets incl. ties, 9 scalar candidates, "
                    "requires-violating inputs rejected); one evaluation = one execution of the real function under /venv with every clause evaluated; "
                    "distinct = distinct (outcome class, input lengths) pairs" % maxlen,
        },
        "assumptions": list(entry.get("assumptions", [])) + registry.GLOBAL_ASSUMPTIONS,
    }
    # a run restricted with --only (a development aid) covers a subset: its evidence must never replace the property's record
    evdir = os.environ.get("DVERIF_EVIDENCE_DIR") or os.path.join(ROOT, "evidence", "partial" if only else "")
    os.makedirs(evdir, exist_ok=True)
    with open(os.path.join(evdir, "%s.json" % prop), "w") as f:
        json.dump(ev, f, indent=1, default=str)
    for l in lines:
        print(l)
    print("property=%s tier=%s cases=%d obligations=%d discharged=%d fragile=%d known=%d violations=%d undecided=%d canaries=%d/%d wall=%.1fs"
          % (prop, tier, len(work), obligations, discharged, len(fragile), len(known_hits), len(violations), len(undecided),
             canaries_refuted, canaries_total, wall))
    # a counterexample confirmed on the real code is decisive, whatever else went wrong in the run
    if any(rec["confirmed_on_real_code"] for rec, path in violations):
        return 1
    if engine_errors:
        return 3
    if violations:
        return 1
    if undecided:
        return 2
    return 0


def cmd_replay(path):
    with open(path) as f:
        rec = json.load(f)
    print("obligation: %s[%s].%s" % (rec["target"], rec["case"]["name"], rec["obligation"]))
    print("verifier:   %s (%s) %s" % (rec["status"], rec.get("reason"), rec.get("detail") or ""))
    if rec.get("goal"):
        print("goal:       %s" % rec["goal"])
    if not rec.get("inputs"):
        print("no failing input was found by the bounded search; nothing to execute")
        return 1
    res = native_run([{"module": rec["module"], "contract": rec["contract"], "case": rec["case"], "inputs": rec["inputs"]}])[0]
    print("inputs:     %s" % json.dumps(rec["inputs"]))
    print("native:     %s" % json.dumps(res, default=str)[:1500])
    v = res.get("clauses", {}).get(rec["obligation"])
    if v is False:
        print("clause is FALSE on the real code")
        return 1
    print("clause holds on the real code now")
    return 0


def cmd_selfcheck():
    """setup: nothing to build; verify that the prover and the native interpreter respond"""
    import compileall
    import z3
    compileall.compile_dir(os.path.join(ROOT, "dverif"), quiet=1)
    compileall.compile_dir(os.path.join(ROOT, "contracts"), quiet=1)
    x = z3.Int("x")
    s = z3.Solver()
    s.add(x > 0, x < 0)
    assert s.check() == z3.unsat
    env = dict(os.environ, PYTHONPATH=ROOT + os.pathsep + REPO)
    p = subprocess.run([VENV_PY, "-c", "import numpy, dimarray, dverif.natspec; print(numpy.__version__)"],
                       capture_output=True, text=True, env=env, cwd=ROOT)
    if p.returncode != 0:
        print(p.stderr[-2000:])
        return 3
    print("dverif selfcheck ok: z3 %s, native numpy %s" % (z3.get_version_string(), p.stdout.strip().splitlines()[-1]))
    return cmd_libcheck()


def cmd_libcheck():
    """validate the statements about NumPy the contract library relies on against the installed NumPy (assumption
    validation by bounded enumeration; a disagreement is a checker error, exit 3)"""
    env = dict(os.environ, PYTHONPATH=ROOT + os.pathsep + REPO)
    p = subprocess.run([VENV_PY, os.path.join(ROOT, "tools", "libcheck_native.py")], capture_output=True, text=True, env=env, cwd=ROOT)
    try:
        d = json.loads(p.stdout)
    except ValueError:
        print("libcheck failed to run: %s" % p.stderr[-1500:])
        return 3
    os.makedirs(os.path.join(ROOT, "evidence"), exist_ok=True)
    with open(os.path.join(ROOT, "evidence", "library_validation.json"), "w") as f:
        json.dump(d, f, indent=1)
    for r in d["results"]:
        print("libcheck: %6d checked, %d mismatches: %s" % (r["checked"], r["mismatches"], r["contract"][:100]))
    return 3 if any(r["mismatches"] for r in d["results"]) else 0


def main(argv=None):
    ap = argparse.ArgumentParser(prog="dverif")
    sub = ap.add_subparsers(dest="cmd", required=True)
    c = sub.add_parser("check")
    c.add_argument("property")
    c.add_argument("--tier", default=os.environ.get("VERIF_TIER", "quick"), choices=["quick", "thorough"])
    c.add_argument("--only", default=None, help="regex on Contract/case (development aid; evidence then covers that subset)")
    c.add_argument("--jobs", type=int, default=None)
    r = sub.add_parser("replay")
    r.add_argument("path")
    sub.add_parser("selfcheck")
    sub.add_parser("libcheck")
    a = ap.parse_args(argv)
    if a.cmd == "selfcheck":
        return cmd_selfcheck()
    if a.cmd == "libcheck":
        return cmd_libcheck()
    if a.cmd == "check":
        seed = int(os.environ.get("VERIF_SEED", "0") or 0)
        return cmd_check(a.property, a.tier, seed, a.only, a.jobs)
    if a.cmd == "replay":
        return cmd_replay(a.path)


if __name__ == "__main__":
    try:
        code = main()
    except SystemExit:
        raise
    except BaseException as e:                 # a crash of the checker is an engine error (exit 3), never a verdict
        import traceback
        traceback.print_exc()
        print("ENGINE ERROR: the checker itself failed (%s: %s); no verdict" % (type(e).__name__, e))
        code = 3
    sys.exit(code)
