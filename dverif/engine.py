"""Contracts, path exploration, obligation discharge, bounded counterexample search."""
import importlib
import itertools
import time
import traceback

import z3

from . import sym, symnp, loader
from .sym import Ctx, EngineAbort, OutOfSubset, PathInfeasible, NeedsContract, set_ctx
from .spec import SymSpec, decode_model


from .contract_base import Contract


class EngineCrash(EngineAbort):
    """the verifier itself failed while executing a path (z3 sort error, bug in the NumPy model, ...)"""


# exception types the NumPy / builtin model raises ON PURPOSE, as NumPy and Python do
_MODELLED = (IndexError, ValueError, TypeError, KeyError, AttributeError, ZeroDivisionError, AssertionError, NotImplementedError)


def _reject_engine_exception(e):
    """Decide whether `e` is behaviour of the code under verification.  It is, when it was raised by repository
    code (innermost frame under the repo) or deliberately by the model as one of the exception types NumPy/Python
    raise.  Anything else whose innermost frame is inside dverif or z3 -- Z3Exception, RecursionError, a bug in the
    model -- is a crash of the verifier: reported as ENGINE-ERROR (exit 3), never as an outcome or a violation."""
    import os
    tb = e.__traceback__
    last = None
    while tb is not None:
        last = tb
        tb = tb.tb_next
    fname = os.path.abspath(last.tb_frame.f_code.co_filename) if last is not None else ""
    here = os.path.dirname(os.path.abspath(__file__))
    in_engine = fname.startswith(here + os.sep) or (os.sep + "z3" + os.sep) in fname
    # the interpreter's own "you called this wrongly" errors are raised in the CALLER's frame, so the frame test cannot see
    # them; when the callee is part of the model they are bugs of the model (a missing keyword, a missing attribute)
    msg = str(e)
    import re as _re
    call_mismatch = isinstance(e, TypeError) and _re.search(r"got an unexpected keyword argument|takes \d+ positional argument|"
                                                            r"missing \d+ required positional argument|got multiple values for argument", msg)
    model_attr = isinstance(e, AttributeError) and _re.search(r"'(ndarray|dtype|Buffer)' object has no attribute|"
                                                              r"module 'dverif\.symnp' has no attribute|module 'numpy' has no attribute", msg)
    m_sc = isinstance(e, AttributeError) and _re.search(r"'(SymInt|SymReal|SymBool|SymStr)' object has no attribute '(\w+)'", msg)
    if m_sc:
        # a symbolic scalar stands for a NumPy scalar: the missing attribute is a gap of the model only if the REAL NumPy
        # scalar has it; otherwise the code under verification really does this to a NumPy scalar
        rn = loader.REAL_NUMPY
        real = {"SymInt": "int64", "SymReal": "float64", "SymBool": "bool_", "SymStr": "str_"}[m_sc.group(1)]
        model_attr = bool(rn is None or hasattr(getattr(rn, real)(0), m_sc.group(2)))
    if model_attr and "in1d" in msg:
        model_attr = None           # mirrored on purpose: the installed NumPy has no in1d (libcheck item 4)
    if call_mismatch or model_attr:
        # the code uses a NumPy attribute / keyword the MODEL does not have although NumPy does: that is "left the modelled
        # subset" (undecided; the bounded native fallback then evaluates the same clauses on the real code), not a crash of
        # the verifier and certainly not behaviour of the code
        raise OutOfSubset("%s: %s  [a NumPy feature the model lacks]" % (type(e).__name__, e)) from e
    if isinstance(e, z3.Z3Exception) or isinstance(e, RecursionError) or (in_engine and not isinstance(e, _MODELLED)):
        raise EngineCrash("%s: %s  [at %s:%d]" % (type(e).__name__, e, fname, last.tb_lineno if last else -1)) from e


def _run_path(contract, case, schedule, lengths, budget, want_canaries=False):
    c = Ctx(schedule, prove_timeout_ms=budget)
    set_ctx(c)
    rec = {"schedule": None, "outcome": None}
    S = SymSpec(c, lengths)
    try:
        try:
            env = contract.setup(S, case)
            env.setdefault("case", case)
            env.setdefault("S", S)
            fn = loader.resolve(contract.target)[0] if contract.target else None
            for stub in contract.uses:
                stub.install()
            try:
                result = contract.call(fn, env)
                outcome = ("return", result)
            except EngineAbort:
                raise
            except Exception as e:
                _reject_engine_exception(e)  # a crash of the verifier must never be read as behaviour of the code
                outcome = ("raise", type(e), e)     # the function under verification raised
            rz = contract.raises(S, case, env)
            must = {E: (cnd[0] if isinstance(cnd, tuple) else cnd) for E, cnd in rz.items()}
            may = {E: (cnd[1] if isinstance(cnd, tuple) else cnd) for E, cnd in rz.items()}
            if outcome[0] == "return":
                for E, cond in must.items():
                    c.prove("raises[%s].absent" % E.__name__, S.lnot(cond),
                            "normal return although the contract demands %s" % E.__name__)
                for clause in contract.post(S, case, env, outcome[1]):
                    nm, f = clause[0], clause[1]
                    if nm in contract.bounded_obligations(case):
                        rec.setdefault("bounded_skipped", set()).add(nm)
                        continue                # carried by the bounded stand-in; never evaluated here
                    if callable(f):
                        f = f()
                    if lengths is None:
                        for h in clause[2:]:
                            c.prove_hint(h() if callable(h) else h)
                    ok = c.prove("post." + nm, f)
                    if ok and contract.chain_post and lengths is None:
                        c.add(sym.to_z3(f))
                if want_canaries:
                    for nm, f in contract.canaries(S, case, env, outcome[1]):
                        c.prove("canary." + nm, f)
                rec["outcome"] = "return"
            elif any(("raises[%s]" % k.__name__) in contract.bounded_obligations(case) for k in rz if issubclass(outcome[1], k)):
                rec["outcome"] = "raise " + outcome[1].__name__
                rec.setdefault("bounded_skipped", set()).add("raises[%s]" % outcome[1].__name__)
            else:
                E = outcome[1]
                rec["outcome"] = "raise " + E.__name__
                matched = [k for k in rz if issubclass(E, k)]
                if not matched:
                    c.prove("raises[%s].unexpected" % E.__name__, False,
                            "raised %s: %s -- not allowed by the contract" % (E.__name__, outcome[2]))
                    rec["exc_trace"] = "".join(traceback.format_exception(E, outcome[2], outcome[2].__traceback__)[-6:])
                else:
                    c.prove("raises[%s].justified" % matched[0].__name__, may[matched[0]],
                            "raised although the contract's condition for it does not hold")
                    for nm, f in contract.post_exc(S, case, env, outcome[2]):
                        c.prove("post_exc." + nm, f)
            # place failures in the contract's known regions (only when the path's own facts imply the region)
            bad = [ob for ob in c.obligations if ob["status"] != "proved" and not ob["name"].startswith("canary.")]
            if bad:
                regions = contract.known_regions(S, case, env)
                for tag, cond in regions.items():
                    if c.implied(sym.to_z3(cond)):
                        for ob in bad:
                            if "@" not in ob["name"]:
                                ob["name"] += "@" + tag
                        break
            # vacuity: the path must be satisfiable
            r = c.final_check() if lengths is not None else c._check()
            rec["feasible"] = str(r)
        except PathInfeasible as e:
            rec["outcome"] = "infeasible"
        except OutOfSubset as e:
            rec["outcome"] = "out-of-subset"
            rec["reason"] = str(e)
            rec["trace"] = "".join(traceback.format_tb(e.__traceback__)[-4:])
        except NeedsContract as e:
            rec["outcome"] = "needs-contract"
            rec["reason"] = str(e)
        except EngineCrash as e:
            rec["outcome"] = "engine-crash"
            rec["reason"] = str(e)
            rec["trace"] = "".join(traceback.format_tb(e.__cause__.__traceback__)[-5:]) if e.__cause__ else ""
        finally:
            for stub in contract.uses:
                stub.uninstall()
    finally:
        set_ctx(None)
    rec["schedule"] = list(c.schedule)
    rec["obligations"] = c.obligations
    rec["decisions"] = [(d, ch) for d, ch in c.decisions]
    rec["lib"] = sorted(c.lib_used)
    rec["bounded_skipped"] = sorted(rec.get("bounded_skipped", ()))
    rec["solver_s"] = c.solver_s
    rec["_S"] = S
    rec["alternatives"] = c.alternatives
    return rec


def explore(contract, case, lengths=None, budget=20000, want_canaries=False, deadline=None):
    todo = [[]]
    paths = []
    while todo:
        if deadline is not None and time.time() > deadline:
            # a check must terminate on ANY tree: past the case's wall-clock budget the remaining paths are reported undecided
            paths.append({"outcome": "time-limit", "obligations": [], "schedule": [], "lib": [], "solver_s": 0, "decisions": [],
                          "reason": "case budget exhausted with %d path(s) still to explore" % len(todo)})
            break
        if len(paths) >= contract.max_paths:
            paths.append({"outcome": "path-limit", "obligations": [], "schedule": [], "lib": [], "solver_s": 0, "decisions": []})
            break
        sched = todo.pop()
        rec = _run_path(contract, case, sched, lengths, budget, want_canaries)
        todo.extend(rec.pop("alternatives", []))
        paths.append(rec)
    return paths


def _strip(ob):
    return {k: v for k, v in ob.items() if not k.startswith("_")}


def check_case(contract, case, tier="quick"):
    """Unbounded proof of one case + bounded counterexample search for what fails +
    one bounded run for vacuity / canaries.  Returns a JSON-able summary."""
    budget = 20000 if tier == "quick" else 120000
    N = 3 if tier == "quick" else 5
    t0 = time.time()
    deadline = t0 + (600 if tier == "quick" else 3600)
    paths = explore(contract, case, None, budget, deadline=deadline)
    summary = {"contract": contract.name, "target": contract.target, "case": case["name"], "paths": [],
               "obligations": [], "generation_errors": [], "lib": set(), "solver_s": 0.0}
    failed = []
    for p in paths:
        summary["lib"].update(p.get("lib", []))
        summary.setdefault("bounded_clauses", set()).update(p.get("bounded_skipped", []))
        summary["solver_s"] += p.get("solver_s", 0)
        pr = {"outcome": p["outcome"], "schedule": p.get("schedule"), "n_obligations": len(p["obligations"])}
        if p["outcome"] in ("out-of-subset", "needs-contract", "path-limit", "engine-crash", "time-limit"):
            summary["generation_errors"].append({"outcome": p["outcome"], "reason": p.get("reason"), "trace": p.get("trace")})
        if p.get("feasible") == "unsat":
            # the cheap feasibility check let an infeasible branch through and the contradiction surfaced at exit: the path
            # does not exist, its obligations are vacuous.  (A case with NO satisfiable path is a vacuity error, guarded in
            # the bounded pass.)
            summary["infeasible_paths_detected_late"] = summary.get("infeasible_paths_detected_late", 0) + 1
            summary["paths"].append({"outcome": "infeasible (detected at exit)", "schedule": p.get("schedule"), "n_obligations": 0})
            continue
        summary["paths"].append(pr)
        for ob in p["obligations"]:
            o = _strip(ob)
            o["path"] = p["outcome"]
            o["exc_trace"] = p.get("exc_trace") if ob["status"] != "proved" else None
            summary["obligations"].append(o)
            if ob["status"] != "proved":
                failed.append(ob["name"])
    # bounded pass: vacuity (some path sat), canaries refuted, counterexamples for failed clauses
    names = contract.bound_lengths(case)
    want = set(failed)
    cex = {}
    sat_paths = 0
    canary = {}
    returned = 0
    bounded_runs = 0
    combos = list(itertools.product(range(N + 1), repeat=len(names))) if names else [()]
    # Order matters once the list is capped: counterexamples and canary refutations mostly need every array small but
    # NON-EMPTY (with an empty dimension nothing is selected or written), so the diagonals (1,1,..), (2,2,..) come first,
    # then the all-empty corner, (3,3,..), and then everything else by total length.  The search is a counterexample
    # aid, not part of the proof; its extent is reported.
    diag = [tuple([k] * len(names)) for k in (1, 2, 0, 3) if k <= N] if names else []
    rest = sorted((t for t in combos if t not in diag), key=lambda t: (sum(t), t))
    combos = (diag + rest) if names else combos
    max_combos = 10 if tier == "quick" else 40
    truncated = len(combos) > max_combos
    combos = combos[:max_combos]
    for combo in combos:
        lengths = dict(zip(names, combo))
        if time.time() > deadline + 300 and bounded_runs >= 1:
            truncated = True
            break
        bpaths = explore(contract, case, lengths, 10000, want_canaries=True, deadline=deadline + 300)
        bounded_runs += 1
        for p in bpaths:
            if p.get("feasible") == "sat":
                sat_paths += 1
                if p["outcome"] == "return":
                    returned += 1
            for ob in p["obligations"]:
                nm = ob["name"]
                if nm.startswith("canary."):
                    st = canary.setdefault(nm, {"refuted": False, "proved_somewhere": 0})
                    if ob["status"] == "failed" and "_model" in ob:
                        if not st["refuted"]:
                            st["refuted"] = True
                            st["inputs"] = decode_model(p["_S"], ob["_model"])
                            st["lengths"] = lengths
                    continue
                if nm in want and nm not in cex and ob["status"] == "failed" and "_model" in ob:
                    cex[nm] = {"inputs": decode_model(p["_S"], ob["_model"]), "lengths": lengths,
                               "path": p["outcome"], "goal": ob.get("goal"), "detail": ob.get("detail"),
                               "decisions": p.get("decisions")}
        if not want - set(cex) and returned and bounded_runs >= min(len(combos), 3) and all(v["refuted"] for v in canary.values()):
            break
    summary["bounded"] = {"N": N, "length_names": names, "runs": bounded_runs, "sat_paths": sat_paths, "length_combinations_truncated": truncated,
                          "returning_paths": returned}
    summary["canaries"] = canary
    summary["counterexamples"] = cex
    summary["lib"] = sorted(summary["lib"])
    summary["bounded_clauses"] = sorted(summary.get("bounded_clauses", ()))
    summary["proved_clauses"] = sorted({o["name"] for o in summary["obligations"] if o["status"] == "proved"}
                                       - {o["name"] for o in summary["obligations"] if o["status"] != "proved"})
    summary["wall_s"] = round(time.time() - t0, 3)
    for p in paths:
        p.pop("_S", None)
    return summary


# --------------------------------------------------------------------------
# modular calls: replace a callee by its contract while verifying a caller
# --------------------------------------------------------------------------

class Stub(object):
    """Installs `replacement` in place of `module:qualname` for the duration of a path."""

    def __init__(self, target, replacement, also=()):
        self.target = target
        self.replacement = replacement
        self.also = tuple(also)     # other modules that imported the name (from x import f)
        self._saved = []

    def install(self):
        loader.load()
        modname, qual = self.target.split(":")
        mod = importlib.import_module(modname)
        parts = qual.split(".")
        owner = mod
        for p in parts[:-1]:
            owner = getattr(owner, p)
        import inspect
        orig = inspect.getattr_static(owner, parts[-1]) if inspect.isclass(owner) else getattr(owner, parts[-1])
        self._saved.append((owner, parts[-1], orig))
        setattr(owner, parts[-1], self.replacement)
        for other in self.also:
            m = importlib.import_module(other)
            if getattr(m, parts[-1], None) is orig:
                self._saved.append((m, parts[-1], orig))
                setattr(m, parts[-1], self.replacement)

    def uninstall(self):
        while self._saved:
            owner, nm, orig = self._saved.pop()
            setattr(owner, nm, orig)


_fresh_ids = itertools.count()


def contract_stub(contract_cls, also=()):
    """A Stub that replaces contract_cls.target by its contract: requires proved at the call site,
    raises-conditions forked, result = fresh symbols constrained by the ensures."""
    contract = contract_cls()

    def replacement(*args, **kwargs):
        c = sym.ctx()
        S = SymSpec(c)
        try:
            case, env = contract.bind(*args, **kwargs)
        except NotImplementedError as e:
            raise NeedsContract("%s called outside its contract's cases: %s" % (contract.target, e))
        tag = "call[%s]" % contract.name
        for nm, f in contract.requires(S, case, env):
            c.prove("%s.requires.%s" % (tag, nm), f, "precondition of %s at a call site" % contract.target)
        for rtag, rcond in contract.known_regions(S, case, env).items():
            if c.decide(sym.to_z3(rcond), "%s in known region %s" % (tag, rtag)):
                beh = contract.region_behaviour.get(rtag)
                if beh is None:
                    raise NeedsContract("%s is called inside its known-finding region %r, where its contract proves nothing" % (contract.target, rtag))
                raise beh("recorded behaviour of %s in region %s" % (contract.target, rtag))
        for E, cond in contract.raises(S, case, env).items():
            if isinstance(cond, tuple):
                mst, my = sym.to_z3(cond[0]), sym.to_z3(cond[1])
                # required where `must`; where only `may` holds the callee is free: the caller must cope with both
                free = z3.Bool(sym.fresh_name("callee_raises"))
                cond = z3.Or(mst, z3.And(my, free))
            if c.decide(sym.to_z3(cond), "%s raises %s" % (tag, E.__name__)):
                raise E("raised by the contract of %s" % contract.target)
        env["_fresh"] = "%s!%d" % (contract.name, next(_fresh_ids))
        result = contract.fresh_result(S, case, env)
        for clause in contract.post(S, case, env, result):
            if clause[0] in contract.bounded_obligations(case):
                continue                        # not proved => must not be assumed by a caller
            f = clause[1]
            c.add(sym.to_z3(f() if callable(f) else f))
        c.assumed.append(contract.target)
        c.calls.append((contract.name, case, env, result))
        if c._check() == z3.unsat:
            raise EngineCrash("assuming the contract of %s made the path contradictory: one of its clauses is false at this call site "
                              "(a contract used as a callee must not depend on its own test fixture)" % contract.target)
        return result
    replacement.__name__ = contract.target.split(":")[1].split(".")[-1]
    return Stub(getattr(contract, "stub_target", None) or contract.target, replacement, also)
