"""Native runner: executes contracts against the REAL dimarray under /venv/bin/python.

stdin: JSON list of jobs {"module", "contract", "case", "inputs"}; stdout: JSON list of results.
Used to replay counterexamples, as the CPython cross-check of the symbolic
engine, and for bounded stand-ins.
"""
import importlib
import json
import sys
import traceback
import warnings


def _check_repo():
    import dimarray
    import os
    want = os.environ.get("DVERIF_REPO", "/repo")
    if not os.path.abspath(dimarray.__file__).startswith(os.path.abspath(want) + os.sep):
        raise RuntimeError("native runner imported dimarray from %s, expected %s" % (dimarray.__file__, want))


def _resolve(contract):
    modname, qual = contract.target.split(":")
    obj = importlib.import_module(modname)
    for part in qual.split("."):
        obj = getattr(obj, part)
    return obj


def evaluate(contract, case, S):
    """run the real function on the inputs S provides and evaluate every clause of the contract"""
    from dverif.natspec import PreconditionNotMet
    res = {"case": case.get("name"), "contract": type(contract).__name__}
    try:
        env = contract.setup(S, case)
        env.setdefault("case", case)
        env.setdefault("S", S)
    except PreconditionNotMet as e:
        res["outcome"] = "precondition-not-met"
        res["reason"] = str(e)
        return res
    obj = _resolve(contract)
    try:
        result = contract.call(obj, env)
        outcome = ("return", result)
    except Exception as e:
        outcome = ("raise", type(e), e)
        res["exc"] = "%s: %s" % (type(e).__name__, e)
        res["exc_trace"] = "".join(traceback.format_tb(e.__traceback__)[-3:])
    clauses = {}
    try:
        rz = contract.raises(S, case, env)
        if outcome[0] == "return":
            res["outcome"] = "return"
            res["result"] = repr(outcome[1])[:300]
            for E, cond in rz.items():
                clauses["raises[%s].absent" % E.__name__] = not (cond[0] if isinstance(cond, tuple) else cond)
            for clause in contract.post(S, case, env, outcome[1]):
                f = clause[1]
                clauses["post." + clause[0]] = bool(f() if callable(f) else f)
            try:
                for nm, f in contract.canaries(S, case, env, outcome[1]):
                    clauses["canary." + nm] = bool(f)
            except Exception as e:
                res["canary_error"] = "%s: %s" % (type(e).__name__, e)
        else:
            E = outcome[1]
            res["outcome"] = "raise " + E.__name__
            matched = [k for k in rz if issubclass(E, k)]
            if not matched:
                clauses["raises[%s].unexpected" % E.__name__] = False
            else:
                cnd = rz[matched[0]]
                clauses["raises[%s].justified" % matched[0].__name__] = bool(cnd[1] if isinstance(cnd, tuple) else cnd)
                for nm, f in contract.post_exc(S, case, env, outcome[2]):
                    clauses["post_exc." + nm] = bool(f)
    except Exception as e:
        res["spec_error"] = "%s: %s\n%s" % (type(e).__name__, e, traceback.format_exc()[-800:])
    # a false clause on an input inside one of the contract's known regions carries that region's tag
    if any(v is False for k, v in clauses.items() if not k.startswith("canary.")):
        try:
            for tag, cond in contract.known_regions(S, case, env).items():
                if cond:
                    clauses = {(k + "@" + tag if (v is False and not k.startswith("canary.")) else k): v for k, v in clauses.items()}
                    break
        except Exception as e:
            res["region_error"] = "%s: %s" % (type(e).__name__, e)
    res["clauses"] = clauses
    return res


def run_job(job):
    from dverif.natspec import NatSpec
    _check_repo()
    mod = importlib.import_module(job["module"])
    contract = getattr(mod, job["contract"])()
    case = job["case"]
    if job.get("mode") == "enumerate":
        from dverif import family
        st = family.enumerate_case(contract, case, lambda S: evaluate(contract, case, S),
                                   maxlen=job.get("maxlen", 3), cap=job.get("cap", 2000), seed=job.get("seed", 0),
                                   time_limit=job.get("time_limit"))
        st.update(case=case.get("name"), contract=job["contract"], maxlen=job.get("maxlen", 3), cap=job.get("cap", 2000))
        return st
    return evaluate(contract, case, NatSpec(job["inputs"]))


def main():
    warnings.simplefilter("ignore")
    jobs = json.load(sys.stdin)
    import io
    import contextlib
    out = []
    for job in jobs:
        buf = io.StringIO()
        with contextlib.redirect_stdout(buf):
            try:
                r = run_job(job)
            except Exception as e:
                r = {"outcome": "runner-error", "reason": "%s: %s" % (type(e).__name__, e), "trace": traceback.format_exc()[-1500:]}
        out.append(r)
    json.dump(out, sys.stdout)


if __name__ == "__main__":
    main()
