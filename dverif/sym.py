"""Symbolic values, the per-path context, and the decision procedure for branches.

Everything here is deliberately small: scalars wrap z3 terms, arrays are lazy
functions from index tuples to z3 terms over mutable buffers (so views, aliasing
and in-place writes are exact), and a branch on a symbolic condition consumes
one entry of the decision schedule (path replay).
"""
import itertools
import time
import z3

# --------------------------------------------------------------------------
# engine-level exceptions derive from BaseException so that `except Exception`
# in the code under verification cannot swallow them.
# --------------------------------------------------------------------------

class EngineAbort(BaseException):
    pass

class OutOfSubset(EngineAbort):
    """the code did something the symbolic domain cannot represent"""

class PathInfeasible(EngineAbort):
    """neither side of a branch is satisfiable: the path condition is contradictory"""

class NeedsContract(EngineAbort):
    pass


# NaN: data values are Reals; NaN-ness is an uninterpreted predicate, `NAN` the value dimarray's own fills store
ISNAN = z3.Function("isnan", z3.RealSort(), z3.BoolSort())
NAN = z3.Real("NaN")

_counter = itertools.count()

def fresh_name(base):
    return "%s!%d" % (base, next(_counter))


class Ctx(object):
    """State of one symbolic path."""

    def __init__(self, schedule=(), feas_timeout_ms=1000, prove_timeout_ms=20000):
        # feasibility solver: E-matching only.  A branch is pruned only on `unsat`; with model-based
        # quantifier instantiation off, satisfiable queries come back `unknown` at once instead of
        # looping in model construction.
        self.solver = z3.SimpleSolver()
        self.solver.set("timeout", feas_timeout_ms)
        self.solver.set("mbqi", False)
        self.solver.set("auto_config", False)
        self.solver.add(ISNAN(NAN))
        self.prove_timeout_ms = prove_timeout_ms
        self.schedule = list(schedule)
        self.pos = 0
        self.alternatives = []      # schedules still to explore
        self.obligations = []       # dicts: name, status, seconds, detail
        self.decisions = []         # (text, choice) -- for reports
        self.lib_used = set()
        self.assumed = []           # text of contract assumptions (callee ensures)
        self.aborted = None
        self.checks = 0
        self.solver_s = 0.0
        self.notes = []
        self.hints_used = 0
        self.calls = []             # (contract name, case, env, result) of callee contracts used on this path
        self.use_cvc5 = True

    # -- assumptions -------------------------------------------------------
    def add(self, *facts):
        for f in facts:
            if isinstance(f, SymBool):
                f = f.t
            if f is True:
                continue
            if f is False:
                f = z3.BoolVal(False)
            self.solver.add(f)

    def lib(self, name):
        self.lib_used.add(name)

    # -- branching ---------------------------------------------------------
    def _check(self, *assumptions):
        t0 = time.time()
        r = self.solver.check(*assumptions)
        self.solver_s += time.time() - t0
        self.checks += 1
        return r

    def final_check(self, timeout_ms=5000):
        """is the whole path satisfiable?  (full solver: decisive in bounded mode, where everything is quantifier-free)"""
        t0 = time.time()
        s = z3.Solver()
        s.set("timeout", timeout_ms)
        s.add(self.solver.assertions())
        r = s.check()
        self.solver_s += time.time() - t0
        self.final_model = s.model() if r == z3.sat else None
        return r

    def decide(self, cond, why=""):
        """Return the truth value of `cond` on this path, forking if both are possible."""
        if isinstance(cond, SymBool):
            cond = cond.t
        if cond is True or cond is False:
            return cond
        c = z3.simplify(cond)
        if z3.is_true(c):
            return True
        if z3.is_false(c):
            return False
        if self.pos < len(self.schedule):
            choice = self.schedule[self.pos]
        else:
            can_t = self._check(c) != z3.unsat
            can_f = self._check(z3.Not(c)) != z3.unsat
            if can_t and can_f:
                choice = True
                self.alternatives.append(self.schedule[:self.pos] + [False])
            elif can_t:
                choice = True
            elif can_f:
                choice = False
            else:
                raise PathInfeasible(why)
            self.schedule.append(choice)
        self.pos += 1
        self.solver.add(c if choice else z3.Not(c))
        self.decisions.append((why or _short(c), choice))
        return choice

    # -- obligations -------------------------------------------------------
    def prove_hint(self, formula):
        """ghost hint: try to prove an intermediate fact; when it is proved it is added to the path's
        facts (a proof step, never an assumption); when it is not, it is simply dropped."""
        n = len(self.obligations)
        ok = self.prove("hint", formula, hint=True)
        del self.obligations[n:]
        if ok:
            self.add(formula)
            self.hints_used += 1
        return ok

    def prove(self, name, formula, detail="", hint=False):
        """Discharge `formula` under everything assumed so far on this path."""
        if isinstance(formula, SymBool):
            formula = formula.t
        if formula is True:
            self.obligations.append(dict(name=name, status="proved", seconds=0.0, backend="trivial", detail=detail))
            return True
        if formula is False:
            formula = z3.BoolVal(False)
        f = z3.simplify(formula)
        if z3.is_true(f):
            self.obligations.append(dict(name=name, status="proved", seconds=0.0, backend="simplify", detail=detail))
            return True
        t0 = time.time()
        # portfolio: default z3 (MBQI + E-matching), then E-matching only, then a reseeded default run
        # (a short z3 run decides almost everything; what it leaves goes to cvc5 BEFORE z3 is given its long budget: goals that
        # are hard for one instantiation strategy are typically immediate for the other)
        variants = (("z3", None), ("z3", None), ("z3-ematching", {"mbqi": False, "auto_config": False}), ("z3-seed7", {"random_seed": 7, "smt.random_seed": 7}))
        budget = [self.prove_timeout_ms // 4, self.prove_timeout_ms // 2, self.prove_timeout_ms // 4, self.prove_timeout_ms // 4]
        if hint:
            budget = [2000]        # a hint is a single-instantiation fact: cheap or useless
        r = z3.unknown
        variant = "z3"
        version = z3.get_version_string()
        leg_t0 = t0
        for k_leg, ((variant, opts), ms) in enumerate(zip(variants, budget)):
            if k_leg == 1 and not hint and self.use_cvc5:
                # second leg of the portfolio: cvc5 (CLI) on the very same query.  Its quantifier instantiation decides many
                # goals at once that leave z3 searching (`unsat` is the only answer taken from it; anything else falls
                # through to the remaining z3 variants).
                leg_t0 = time.time()
                if _cvc5_unsat(s.to_smt2(), max(int(ms), 2000)):
                    r, variant, version = z3.unsat, "cvc5", CVC5_VERSION
                    break
            leg_t0 = time.time()
            s = z3.SimpleSolver() if opts and "mbqi" in opts else z3.Solver()
            s.set("timeout", max(int(ms), 500))
            if opts:
                for k, v in opts.items():
                    try:
                        s.set(k, v)
                    except z3.Z3Exception:
                        pass
            s.add(self.solver.assertions())
            s.add(z3.Not(f))
            r = s.check()
            if r != z3.unknown:
                break
            if hint:
                break
        dt = time.time() - t0
        self.solver_s += dt
        self.checks += 1
        # `seconds` is the time of the leg that decided (what the stability gate looks at); `total_seconds` includes the legs
        # that gave up before it
        ob = dict(name=name, seconds=round(time.time() - leg_t0, 4), total_seconds=round(dt, 4), backend="%s-%s" % (variant, version), detail=detail)
        if r == z3.unsat:
            ob["status"] = "proved"
        else:
            ob["status"] = "failed" if r == z3.sat else "unknown"
            ob["reason"] = s.reason_unknown() if r == z3.unknown else "sat"
            ob["goal"] = _short(f, 400)
            ob["_smt2"] = s.to_smt2()
            if r == z3.sat:
                try:
                    ob["_model"] = s.model()
                except z3.Z3Exception:
                    pass
        self.obligations.append(ob)
        return r == z3.unsat

    def implied(self, formula, timeout_ms=3000):
        """do the facts of this path imply `formula`?  (no record is kept; used to place a failure in a known region)"""
        if isinstance(formula, SymBool):
            formula = formula.t
        if formula is True:
            return True
        if formula is False:
            return False
        s = z3.Solver()
        s.set("timeout", timeout_ms)
        s.add(self.solver.assertions())
        s.add(z3.Not(formula))
        return s.check() == z3.unsat

    def fail(self, name, detail):
        self.obligations.append(dict(name=name, status="failed", seconds=0.0, backend="engine", detail=detail, reason=detail))


def _short(t, n=120):
    s = str(t).replace("\n", " ")
    s = " ".join(s.split())
    return s if len(s) <= n else s[:n] + "..."


CVC5_BIN = "/usr/bin/cvc5"
CVC5_VERSION = "1.0.3"


def _cvc5_unsat(smt2, timeout_ms):
    """True iff cvc5 answers `unsat` for the query within the time limit (any other outcome, including errors, is False)"""
    import os, subprocess, tempfile
    if not os.path.exists(CVC5_BIN):
        return False
    fd, path = tempfile.mkstemp(suffix=".smt2", prefix="dverif-")
    try:
        with os.fdopen(fd, "w") as f:
            f.write("(set-logic ALL)\n" + smt2)
        out = subprocess.run([CVC5_BIN, "--tlimit=%d" % timeout_ms, path], capture_output=True, text=True, timeout=timeout_ms / 1000.0 + 5)
        return out.stdout.strip().splitlines()[:1] == ["unsat"]
    except Exception:
        return False
    finally:
        try:
            os.remove(path)
        except OSError:
            pass


CTX = None

def ctx():
    if CTX is None:
        raise RuntimeError("no symbolic context active")
    return CTX

def set_ctx(c):
    global CTX
    CTX = c


# --------------------------------------------------------------------------
# scalars
# --------------------------------------------------------------------------

def is_sym(x):
    return isinstance(x, (SymBool, SymNum))

def to_z3(x):
    """python / symbolic scalar -> z3 term"""
    if isinstance(x, (SymBool, SymNum)):
        return x.t
    if isinstance(x, bool):
        return z3.BoolVal(x)
    if isinstance(x, int):
        return z3.IntVal(x)
    if isinstance(x, float):
        if x != x:
            return NAN
        if x in (float("inf"), float("-inf")):
            raise OutOfSubset("non-finite float constant %r in symbolic arithmetic" % x)
        return z3.RealVal(repr(x))
    if z3.is_expr(x):
        return x
    raise OutOfSubset("cannot turn %r (%s) into a term" % (x, type(x).__name__))

def mkbool(t):
    if t is True or t is False:
        return t
    t = z3.simplify(t)
    if z3.is_true(t):
        return True
    if z3.is_false(t):
        return False
    return SymBool(t)

def mkint(t):
    if isinstance(t, int):
        return t
    t = z3.simplify(t)
    if z3.is_int_value(t):
        return t.as_long()
    return SymInt(t)

def mkreal(t):
    return SymReal(t)

def wrap(t, elem=None):
    """z3 term -> python-facing value"""
    if not z3.is_expr(t):
        return t
    if elem == "str":
        return SymStr(t)
    if z3.is_bool(t):
        return mkbool(t)
    if z3.is_int(t):
        return mkint(t)
    if z3.is_real(t):
        return SymReal(t)
    raise OutOfSubset("unsupported sort %s" % t.sort())


class SymBool(object):
    __slots__ = ("t",)

    def __init__(self, t):
        self.t = t

    def __bool__(self):
        return ctx().decide(self.t)

    def __and__(self, o):
        return mkbool(z3.And(self.t, to_z3(o)))
    __rand__ = __and__

    def __or__(self, o):
        return mkbool(z3.Or(self.t, to_z3(o)))
    __ror__ = __or__

    def __xor__(self, o):
        return mkbool(z3.Xor(self.t, to_z3(o)))
    __rxor__ = __xor__

    def __invert__(self):
        return mkbool(z3.Not(self.t))

    def __eq__(self, o):
        if isinstance(o, (bool, SymBool)):
            return mkbool(self.t == to_z3(o))
        return NotImplemented

    def __ne__(self, o):
        if isinstance(o, (bool, SymBool)):
            return mkbool(self.t != to_z3(o))
        return NotImplemented

    def __hash__(self):
        raise OutOfSubset("hash of a symbolic bool")

    def __repr__(self):
        return "SymBool(%s)" % _short(self.t)

    def __add__(self, o):     # True + 1 (used in `-1+2*(step is None or step>0)`)
        return mkint(z3.If(self.t, 1, 0)) + o
    __radd__ = __add__

    def __mul__(self, o):
        return mkint(z3.If(self.t, 1, 0)) * o
    __rmul__ = __mul__


def _num_result(t):
    if z3.is_int(t):
        return mkint(t)
    return SymReal(z3.simplify(t))


class SymNum(object):
    __slots__ = ("t",)
    elem = None

    def __init__(self, t):
        self.t = t

    # arithmetic ---------------------------------------------------------
    def _bin(self, o, f):
        if isinstance(o, SymBool):
            o = mkint(z3.If(o.t, 1, 0))
        if isinstance(o, bool):
            o = int(o)
        if not isinstance(o, (int, float, SymNum)):
            return NotImplemented
        return _num_result(f(self.t, to_z3(o)))

    def _rbin(self, o, f):
        if isinstance(o, bool):
            o = int(o)
        if not isinstance(o, (int, float, SymNum)):
            return NotImplemented
        return _num_result(f(to_z3(o), self.t))

    def __add__(self, o): return self._bin(o, lambda a, b: a + b)
    def __radd__(self, o): return self._rbin(o, lambda a, b: a + b)
    def __sub__(self, o): return self._bin(o, lambda a, b: a - b)
    def __rsub__(self, o): return self._rbin(o, lambda a, b: a - b)
    def __mul__(self, o): return self._bin(o, lambda a, b: a * b)
    def __rmul__(self, o): return self._rbin(o, lambda a, b: a * b)
    def __neg__(self): return _num_result(-self.t)
    def __pos__(self): return self

    def __abs__(self):
        return _num_result(z3.If(self.t >= 0, self.t, -self.t))

    def __truediv__(self, o):
        return self._bin(o, lambda a, b: _toreal(a) / _toreal(b))

    def __rtruediv__(self, o):
        return self._rbin(o, lambda a, b: _toreal(a) / _toreal(b))

    def __floordiv__(self, o):
        def f(a, b):
            if z3.is_int(a) and z3.is_int(b):
                # python floor division; z3 `/` on ints is floor for positive divisor
                if z3.is_int_value(b) and b.as_long() > 0:
                    return a / b
            raise OutOfSubset("symbolic floor division")
        return self._bin(o, f)

    def __mod__(self, o):
        def f(a, b):
            if z3.is_int(a) and z3.is_int_value(b) and b.as_long() > 0:
                return a % b
            raise OutOfSubset("symbolic modulo")
        return self._bin(o, f)

    # comparisons --------------------------------------------------------
    def _cmp(self, o, f):
        if isinstance(o, SymBool):
            o = mkint(z3.If(o.t, 1, 0))
        if isinstance(o, bool):
            o = int(o)
        if isinstance(o, float) and o in (float("inf"), float("-inf")):
            return f(0, 1) if o > 0 else f(1, 0)   # x ? +inf  /  x ? -inf  for finite x
        if not isinstance(o, (int, float, SymNum)):
            return NotImplemented
        if isinstance(self, SymStr) != isinstance(o, SymStr):
            return NotImplemented
        return mkbool(f(self.t, to_z3(o)))

    def __lt__(self, o): return self._cmp(o, lambda a, b: a < b)
    def __le__(self, o): return self._cmp(o, lambda a, b: a <= b)
    def __gt__(self, o): return self._cmp(o, lambda a, b: a > b)
    def __ge__(self, o): return self._cmp(o, lambda a, b: a >= b)

    def __eq__(self, o):
        r = self._cmp(o, lambda a, b: a == b)
        return False if r is NotImplemented else r

    def __ne__(self, o):
        r = self._cmp(o, lambda a, b: a != b)
        return True if r is NotImplemented else r

    def __hash__(self):
        raise OutOfSubset("hash of a symbolic number")

    def __bool__(self):
        return ctx().decide(self.t != 0)

    def _concrete(self):
        v = z3.simplify(self.t)
        if z3.is_int_value(v):
            return v.as_long()
        raise OutOfSubset("a concrete integer is required here, got %s" % _short(self.t))

    def __index__(self):
        return self._concrete()

    def __int__(self):
        return self._concrete()

    def __repr__(self):
        return "%s(%s)" % (type(self).__name__, _short(self.t))

    def item(self):
        return self

    # numpy scalar look-alikes
    ndim = 0
    shape = ()
    size = 1

    @property
    def dtype(self):
        from . import symnp
        return symnp.dtype(self.kind)


def _toreal(a):
    return z3.ToReal(a) if z3.is_int(a) else a


class SymInt(SymNum):
    __slots__ = ()
    kind = "i"
    elem = "int"


class SymReal(SymNum):
    __slots__ = ()
    kind = "f"
    elem = "real"

    def _concrete(self):
        raise OutOfSubset("a concrete integer is required here, got a symbolic real")


class SymStr(SymNum):
    """A string label: an element of an arbitrary total order (int-coded).
    Only ==, != and ordering are available."""
    __slots__ = ()
    kind = "O"
    elem = "str"

    def _bin(self, o, f):
        raise OutOfSubset("arithmetic on a symbolic string label")
    _rbin = _bin

    def __abs__(self):
        raise TypeError("bad operand type for abs(): 'str'")

    def __neg__(self):
        raise TypeError("bad operand type for unary -: 'str'")

    def __sub__(self, o):
        raise TypeError("unsupported operand type(s) for -: 'str'")
    __rsub__ = __sub__

    def __bool__(self):
        raise OutOfSubset("truth value of a symbolic string label")

    def _concrete(self):
        raise OutOfSubset("symbolic string label used as an integer")

    def startswith(self, *a):
        raise OutOfSubset("string method on a symbolic label")


# --------------------------------------------------------------------------
# quantifier helpers (expand when the range is concrete)
# --------------------------------------------------------------------------

def zint(x):
    if isinstance(x, SymNum):
        return x.t
    if isinstance(x, int):
        return z3.IntVal(x)
    return x

def conc(x):
    """python int if x is concretely known, else None"""
    if isinstance(x, bool):
        return int(x)
    if isinstance(x, int):
        return x
    if isinstance(x, SymNum):
        x = x.t
    if z3.is_expr(x):
        v = z3.simplify(x)
        if z3.is_int_value(v):
            return v.as_long()
    return None

def forall(lo, hi, body, name="i", dom=None):
    """AND over lo <= i < hi of body(i); body gets a z3 Int (or python int) and returns z3 Bool / bool / SymBool.
    dom: an upper bound of hi (with 0 <= lo); when it is concrete the quantifier is expanded with guards,
    which keeps bounded-mode queries quantifier-free."""
    clo, chi = conc(lo), conc(hi)
    if clo is not None and chi is not None:
        parts = [to_z3(body(i)) for i in range(clo, chi)]
        return z3.And(parts) if parts else z3.BoolVal(True)
    cdom = conc(dom) if dom is not None else None
    if cdom is not None:
        parts = [z3.Implies(z3.And(zint(lo) <= i, i < zint(hi)), to_z3(body(i))) for i in range(0, cdom)]
        return z3.And(parts) if parts else z3.BoolVal(True)
    i = z3.Int(fresh_name(name))
    b = to_z3(body(i))
    return z3.ForAll([i], z3.Implies(z3.And(zint(lo) <= i, i < zint(hi)), b))

def forall2(lo, hi, body, name="i", dom=None):
    """AND over lo <= i < j < hi of body(i, j)"""
    clo, chi = conc(lo), conc(hi)
    if clo is not None and chi is not None:
        parts = [to_z3(body(i, j)) for i in range(clo, chi) for j in range(i + 1, chi)]
        return z3.And(parts) if parts else z3.BoolVal(True)
    cdom = conc(dom) if dom is not None else None
    if cdom is not None:
        parts = [z3.Implies(z3.And(zint(lo) <= i, j < zint(hi)), to_z3(body(i, j)))
                 for i in range(0, cdom) for j in range(i + 1, cdom)]
        return z3.And(parts) if parts else z3.BoolVal(True)
    i = z3.Int(fresh_name(name))
    j = z3.Int(fresh_name(name))
    b = to_z3(body(i, j))
    return z3.ForAll([i, j], z3.Implies(z3.And(zint(lo) <= i, i < j, j < zint(hi)), b))

def exists(lo, hi, body, name="k"):
    clo, chi = conc(lo), conc(hi)
    if clo is not None and chi is not None:
        parts = [to_z3(body(i)) for i in range(clo, chi)]
        return z3.Or(parts) if parts else z3.BoolVal(False)
    i = z3.Int(fresh_name(name))
    b = to_z3(body(i))
    return z3.Exists([i], z3.And(zint(lo) <= i, i < zint(hi), b))

def implies(a, b):
    return z3.Implies(to_z3(a), to_z3(b))

def land(*xs):
    xs = [to_z3(x) for x in xs]
    return z3.And(xs) if xs else z3.BoolVal(True)

def lor(*xs):
    xs = [to_z3(x) for x in xs]
    return z3.Or(xs) if xs else z3.BoolVal(False)

def lnot(a):
    return z3.Not(to_z3(a))

def ite(c, a, b):
    return z3.If(to_z3(c), to_z3(a), to_z3(b))
