"""The NumPy contract library (the *assumed* part of the trusted base).

This module is bound to the name ``numpy`` inside the dimarray modules under
verification.  Arrays are lazy: ``(buffer, shape, index map)`` where a buffer is
a function from index tuples to z3 terms.  Structural operations (slicing,
take, transpose, concatenate, ...) are combinators; operations whose result is
characterised by a postcondition (searchsorted, argsort, boolean compress,
union1d, in1d, argmin, ...) introduce fresh symbols constrained by that
postcondition, every existential being given as an explicit witness function.
Each such contract registers itself with ``ctx().lib(name)`` so the evidence can
list what a proof relied on, and each is validated against the real NumPy by
``dverif/libcheck.py``.
"""
import builtins
import z3
from . import sym
from .sym import (ctx, SymBool, SymNum, SymInt, SymReal, SymStr, OutOfSubset, to_z3, mkbool, mkint,
                  wrap, conc, zint, forall, forall2, fresh_name, is_sym)

__version__ = "dverif-symbolic"
newaxis = None
nan = float("nan")
inf = float("inf")
Inf = inf
NaN = nan
pi = 3.141592653589793


# --------------------------------------------------------------------------
# dtypes
# --------------------------------------------------------------------------

class dtype(object):
    _names = {"f": "float64", "i": "int64", "b": "bool", "O": "object", "U": "<U1", "S": "|S1", "u": "uint64",
              "M": "datetime64", "m": "timedelta64", "c": "complex128"}

    _singletons = {}

    def __new__(cls, spec):
        if isinstance(spec, dtype):
            return spec
        kind = _kind_of_spec(spec)
        self = cls._singletons.get(kind)      # NumPy's builtin dtypes are singletons: code compares them with `is`
        if self is None:
            self = object.__new__(cls)
            self.kind = kind
            cls._singletons[kind] = self
        return self

    @property
    def name(self):
        return self._names[self.kind]

    @property
    def type(self):
        return {"f": float64, "i": int64, "b": bool_, "O": object_, "U": str_, "S": bytes_}.get(self.kind, object_)

    def __eq__(self, o):
        try:
            return self.kind == _kind_of_spec(o)
        except OutOfSubset:
            return False

    def __ne__(self, o):
        return not self.__eq__(o)

    def __hash__(self):
        return hash(self.kind)

    def __repr__(self):
        return "dtype(%r)" % self.name

    __str__ = lambda self: self.name

    def newbyteorder(self, *a):
        return self


class _ScalarType(type):
    def __instancecheck__(cls, obj):
        return builtins.isinstance(obj, cls._sym) or type.__instancecheck__(cls, obj)


class generic(metaclass=_ScalarType):
    _sym = (SymNum, SymBool)
class number(generic):
    _sym = (SymInt, SymReal)
class integer(number):
    _sym = (SymInt,)
class signedinteger(integer):
    pass
class int64(signedinteger):
    pass
int32 = int_ = intp = int64
class floating(number):
    _sym = (SymReal,)
class float64(floating):
    pass
float32 = float_ = double = float64
class bool_(generic):
    _sym = (SymBool,)
class object_(generic):
    _sym = ()
class str_(generic):
    _sym = (SymStr,)
unicode_ = str_
class bytes_(generic):
    _sym = ()
class datetime64(generic):
    _sym = ()
    def __new__(cls, *a):
        raise OutOfSubset("datetime64")
class complexfloating(number):
    _sym = ()


def _kind_of_spec(spec):
    if isinstance(spec, dtype):
        return spec.kind
    if spec is None:
        return "f"
    table = {float: "f", int: "i", bool: "b", object: "O", str: "U", bytes: "S",
             "float": "f", "float64": "f", "float32": "f", "f": "f", "f8": "f", "f4": "f", "d": "f",
             "int": "i", "int64": "i", "int32": "i", "i": "i", "i8": "i", "i4": "i",
             "bool": "b", "b": "b", "?": "b", "object": "O", "O": "O", "U": "U", "S": "S", "str": "U",
             float64: "f", int64: "i", bool_: "b", object_: "O", str_: "U"}
    try:
        return table[spec]
    except (KeyError, TypeError):
        raise OutOfSubset("unsupported dtype spec %r" % (spec,))


_ELEM_OF_KIND = {"f": "real", "i": "int", "u": "int", "b": "bool"}


# --------------------------------------------------------------------------
# arrays
# --------------------------------------------------------------------------

class Buffer(object):
    """A mutable cell holding an immutable content function.  In-place writes
    replace ``fn`` (never mutate it), so capturing ``buf.fn`` is a snapshot."""
    __slots__ = ("fn", "shape", "kind", "elem", "name", "tags")

    def __init__(self, fn, shape, kind, elem, name=None):
        self.tags = {}
        self.fn = fn
        self.shape = tuple(shape)
        self.kind = kind
        self.elem = elem
        self.name = name


def _z(x):
    """index / extent -> z3 int term or python int"""
    if isinstance(x, SymNum):
        return x.t
    if isinstance(x, bool):
        return int(x)
    return x

def _zt(x):
    x = _z(x)
    return z3.IntVal(x) if isinstance(x, int) else x

def _ext(x):
    """extent as python-facing value (int or SymInt)"""
    return mkint(x) if z3.is_expr(x) else x


class ndarray(object):
    """lazy symbolic ndarray"""
    __slots__ = ("buf", "_shape", "imap", "layout", "__weakref__")
    __array_priority__ = 100

    def __init__(self, buf, shape=None, imap=None):
        self.buf = buf
        self._shape = tuple(_z(s) for s in (buf.shape if shape is None else shape))
        self.imap = imap
        # memory layout, as far as it is known: "C" (a whole freshly built array), "F" (its full transpose), None (any other
        # view).  Only reshape(order="A") depends on it.
        self.layout = "C" if imap is None else None

    # -- construction helpers -------------------------------------------
    @staticmethod
    def from_fn(fn, shape, kind, elem=None, name=None):
        elem = elem or _ELEM_OF_KIND.get(kind) or "str"
        shape = tuple(_z(s) for s in shape)
        return ndarray(Buffer(fn, shape, kind, elem, name), shape, None)

    def at(self, *idx):
        idx = tuple(_z(i) for i in idx)
        if self.imap is not None:
            idx = self.imap(idx)
        return self.buf.fn(*idx)

    def snapshot(self):
        """content function frozen at this moment (for copies)"""
        fn, imap = self.buf.fn, self.imap
        if imap is None:
            return fn
        return lambda *idx: fn(*imap(idx))

    def is_whole(self):
        return self.imap is None

    # -- basic attributes -----------------------------------------------
    @property
    def kind(self):
        return self.buf.kind

    @property
    def elem(self):
        return self.buf.elem

    @property
    def dtype(self):
        return dtype(self.buf.kind)

    @property
    def ndim(self):
        return len(self._shape)

    @property
    def shape(self):
        return tuple(_ext(s) for s in self._shape)

    @property
    def size(self):
        return _product(list(self._shape)) if self._shape else 1

    @property
    def T(self):
        return self.transpose()

    def __len__(self):
        if not self._shape:
            raise TypeError("len() of unsized object")
        n = conc(self._shape[0])
        if n is None:
            raise OutOfSubset("len() of an array of symbolic length (builtin len is redirected; this is a direct __len__ call)")
        return n

    def __iter__(self):
        n = conc(self._shape[0]) if self._shape else None
        if n is None:
            raise OutOfSubset("python-level iteration over an array of symbolic length")
        return iter([self[i] for i in range(n)])

    def __repr__(self):
        return "symarray(kind=%s, shape=%s)" % (self.kind, self.shape)

    def __hash__(self):
        return id(self)

    def __bool__(self):
        n = conc(self.size)
        if n == 1:
            return bool(self.item())
        raise ValueError("The truth value of an array with more than one element is ambiguous")

    def item(self, *args):
        if args:
            raise OutOfSubset("item(args)")
        if self.ndim == 0:
            return self._w(self.at())
        if ctx().decide(sym.land(*[zint(s) == 1 for s in self._shape]), "item(): size==1"):
            return self._w(self.at(*([0] * self.ndim)))
        raise ValueError("can only convert an array of size 1 to a Python scalar")

    def _w(self, t):
        return _wrap_elem(t, self.elem)

    # -- copies / conversions -------------------------------------------
    def copy(self, order=None):
        return ndarray.from_fn(self.snapshot(), self._shape, self.kind, self.elem)

    def __deepcopy__(self, memo):
        # NumPy: copy.deepcopy / copy.copy of an ndarray (a view included) give a fresh array that owns its data
        r = self.copy()
        r.buf.tags.update({k: v for k, v in self.buf.tags.items() if k == "order"} if self.imap is None else {})
        memo[id(self)] = r
        return r

    def __copy__(self):
        return self.copy()

    def astype(self, dt, copy=True):
        return _cast(self, _kind_of_spec(dt), True)

    def view(self, *a):
        raise OutOfSubset("ndarray.view")

    def __array__(self, *a):
        return self

    def tolist(self):
        if self.ndim == 0:
            return self.item()
        n = conc(self._shape[0])
        if n is None:
            raise OutOfSubset("tolist() of an array of symbolic length")
        out = []
        for i in range(n):
            e = self[i]
            out.append(e.tolist() if isinstance(e, ndarray) else e)
        return out

    def fill(self, v):
        self[...] = v

    # -- shape manipulation ---------------------------------------------
    def transpose(self, *axes):
        if len(axes) == 1 and (axes[0] is None or isinstance(axes[0], (tuple, list))):
            axes = axes[0]
        if not axes:
            axes = tuple(reversed(range(self.ndim)))
        axes = tuple(_norm_axis(conc_req(a), self.ndim) for a in axes)
        if sorted(axes) != list(range(self.ndim)):
            raise ValueError("axes don't match array")
        old = self.imap
        def imap(idx):
            src = [None] * len(axes)
            for k, a in enumerate(axes):
                src[a] = idx[k]
            src = tuple(src)
            return old(src) if old else src
        r = ndarray(self.buf, tuple(self._shape[a] for a in axes), imap)
        ident, rev = tuple(range(self.ndim)), tuple(reversed(range(self.ndim)))
        if axes == ident:
            r.layout = self.layout
        elif axes == rev and self.layout in ("C", "F"):
            r.layout = "F" if self.layout == "C" else "C"
        return r

    def swapaxes(self, a, b):
        ax = list(range(self.ndim))
        a, b = _norm_axis(a, self.ndim), _norm_axis(b, self.ndim)
        ax[a], ax[b] = ax[b], ax[a]
        return self.transpose(ax)

    def squeeze(self, axis=None):
        if axis is None:
            drop = [k for k, s in enumerate(self._shape) if conc(s) == 1]
            for k, s in enumerate(self._shape):
                if conc(s) is None:
                    if ctx().decide(zint(s) == 1, "squeeze: extent==1"):
                        drop.append(k)
        else:
            axis = (axis,) if isinstance(axis, int) else tuple(axis)
            drop = [_norm_axis(a, self.ndim) for a in axis]
            for k in drop:
                if not ctx().decide(zint(self._shape[k]) == 1, "squeeze(axis): extent==1"):
                    raise ValueError("cannot select an axis to squeeze out which has size not equal to one")
        keep = [k for k in range(self.ndim) if k not in drop]
        old = self.imap
        nd = self.ndim
        def imap(idx):
            src = [0] * nd
            for j, k in enumerate(keep):
                src[k] = idx[j]
            src = tuple(src)
            return old(src) if old else src
        return ndarray(self.buf, tuple(self._shape[k] for k in keep), imap)

    def ravel(self, order="C"):
        return self.reshape(-1)

    def flatten(self, order="C"):
        return self.reshape(-1).copy()

    def reshape(self, *shape, **kw):
        if len(shape) == 1 and isinstance(shape[0], (tuple, list)):
            shape = tuple(shape[0])
        order = kw.pop("order", "C")
        if kw:
            raise TypeError("reshape() got an unexpected keyword argument %r" % sorted(kw)[0])
        if order == "A":
            # NumPy: Fortran index order if the array is Fortran contiguous in memory, C order otherwise
            if self.ndim <= 1:
                order = "C"
            elif self.layout is None:
                raise OutOfSubset("reshape(order='A') of a view whose memory layout is not tracked")
            else:
                order = self.layout
        if order == "C":
            return _reshape(self, shape)
        if order == "F":
            # column-major reshape = transpose, row-major reshape onto the reversed extents, transpose
            return _reshape(self.transpose(), tuple(reversed(shape))).transpose()
        raise OutOfSubset("reshape(order=%r)" % (order,))

    # -- indexing ---------------------------------------------------------
    def __getitem__(self, key):
        return _getitem(self, key)

    def __setitem__(self, key, value):
        _setitem(self, key, value)

    def take(self, indices, axis=None, mode="raise", out=None):
        return take(self, indices, axis=axis, mode=mode)

    def compress(self, condition, axis=None, out=None):
        if out is not None:
            raise OutOfSubset("compress(out=)")
        return compress(condition, self, axis=axis)

    def repeat(self, n, axis=None):
        return repeat(self, n, axis=axis)

    def __contains__(self, v):
        n = self._shape[0]
        return bool(mkbool(sym.exists(0, n, lambda i: _eq_terms(self.at(i), _scalar_term(v, self.elem), self.elem))))

    # -- in-place ---------------------------------------------------------
    def sort(self, axis=-1, kind=None, order=None):
        if self.ndim != 1:
            raise OutOfSubset("in-place sort of an N-d array")
        if self.is_whole():
            s = sort(self)
            self.buf.fn = s.buf.fn
            return
        # in-place sort THROUGH a 1-D affine view (view[k] == buf[off + stride*k]): NumPy writes the sorted values back
        # into the base buffer at exactly the positions the view visits; every other position of the buffer, and hence
        # every other array sharing it, keeps its value.
        aff = _AFFINE.get(id(self))
        if aff is None or aff[0] is not self:
            raise OutOfSubset("in-place sort of a non-affine view")
        _, off, stride = aff
        srt = sort(self).snapshot()          # sorted content of the view, by view position
        old = self.buf.fn
        cnt = zint(self._shape[0])
        st = builtins.abs(stride)

        def fn(w):
            w = zint(w)
            d = (w - off) if stride > 0 else (off - w)
            visited = z3.And(d >= 0, d % st == 0, d / st < cnt)
            return z3.If(visited, srt(d / st), old(w))
        self.buf.fn = fn

    # -- elementwise ------------------------------------------------------
    def __eq__(self, o): return _elementwise2(self, o, "eq")
    def __ne__(self, o): return _elementwise2(self, o, "ne")
    def __lt__(self, o): return _elementwise2(self, o, "lt")
    def __le__(self, o): return _elementwise2(self, o, "le")
    def __gt__(self, o): return _elementwise2(self, o, "gt")
    def __ge__(self, o): return _elementwise2(self, o, "ge")
    def __add__(self, o): return _elementwise2(self, o, "add")
    def __radd__(self, o): return _elementwise2(o, self, "add")
    def __sub__(self, o): return _elementwise2(self, o, "sub")
    def __rsub__(self, o): return _elementwise2(o, self, "sub")
    def __mul__(self, o): return _elementwise2(self, o, "mul")
    def __rmul__(self, o): return _elementwise2(o, self, "mul")
    def __truediv__(self, o): return _elementwise2(self, o, "div")
    def __rtruediv__(self, o): return _elementwise2(o, self, "div")
    def __floordiv__(self, o): return _elementwise2(self, o, "floordiv")
    def __rfloordiv__(self, o): return _elementwise2(o, self, "floordiv")
    def __pow__(self, o): return _elementwise2(self, o, "pow")
    def __rpow__(self, o): return _elementwise2(o, self, "pow")
    def __and__(self, o): return _elementwise2(self, o, "and")
    def __rand__(self, o): return _elementwise2(o, self, "and")
    def __or__(self, o): return _elementwise2(self, o, "or")
    def __ror__(self, o): return _elementwise2(o, self, "or")
    def __invert__(self): return _elementwise1(self, "not")
    def __neg__(self): return _elementwise1(self, "neg")
    def __pos__(self): return self.copy()      # (+a is a NEW array in NumPy, as every ufunc result is)
    def __abs__(self): return _elementwise1(self, "abs")

    # -- reductions (delegated) --------------------------------------------
    def all(self, axis=None): return all(self, axis=axis)
    def any(self, axis=None): return any(self, axis=axis)
    def sum(self, axis=None, **kw): return sum(self, axis=axis, **kw)
    def min(self, axis=None, **kw): return min(self, axis=axis, **kw)
    def max(self, axis=None, **kw): return max(self, axis=axis, **kw)
    def argmin(self, axis=None): return argmin(self, axis=axis)
    def argmax(self, axis=None): return argmax(self, axis=axis)
    def argsort(self, axis=-1, kind=None): return argsort(self)
    def searchsorted(self, v, side="left", sorter=None): return searchsorted(self, v, side=side, sorter=sorter)
    def nonzero(self): return nonzero(self)


def conc_req(x):
    c = conc(x)
    if c is None:
        raise OutOfSubset("a concrete integer is required (axis / rank), got %r" % (x,))
    return c

def _norm_axis(a, ndim):
    a = conc_req(a)
    if a < 0:
        a += ndim
    if not 0 <= a < builtins.max(ndim, 1):
        raise ValueError("axis %d is out of bounds for array of dimension %d" % (a, ndim))
    return a

def _wrap_elem(t, elem):
    if not z3.is_expr(t):
        return t            # python object stored in an object array
    if elem == "str":
        return SymStr(t)
    return wrap(t)


# --------------------------------------------------------------------------
# element-level semantics
# --------------------------------------------------------------------------
# Numeric labels / positions are exact (Int / Real).  *Data* values are Reals too;
# NaN is modelled by the uninterpreted predicate `isnan_` over a Real-valued
# carrier: arithmetic on data goes through uninterpreted np_<op> functions whose
# only laws are the ones stated in DESIGN Appendix B.

_isnan_f = sym.ISNAN
NAN = sym.NAN          # the NaN produced by dimarray's own fills


def _eq_terms(a, b, elem=None):
    if not z3.is_expr(a) and not z3.is_expr(b):
        return a == b
    if not z3.is_expr(a) or not z3.is_expr(b):
        if isinstance(a, (int, float, bool)) or isinstance(b, (int, float, bool)):
            return to_z3(a) == to_z3(b)
        return False      # a python object (None, tuple, str) never equals a symbolic label
    return a == b


def _scalar_term(v, elem=None):
    if isinstance(v, (SymNum, SymBool)):
        return v.t
    if isinstance(v, (bool, int, float)):
        return to_z3(v)
    return v     # python object


_CMP = {"eq": lambda a, b: a == b, "ne": lambda a, b: a != b, "lt": lambda a, b: a < b, "le": lambda a, b: a <= b,
        "gt": lambda a, b: a > b, "ge": lambda a, b: a >= b}
_ARITH_LABEL = {"add": lambda a, b: a + b, "sub": lambda a, b: a - b, "mul": lambda a, b: a * b}


def _op_terms(op, a, b, ea, eb):
    """apply a binary operator to two element terms; returns (term, kind, elem)"""
    if op in _CMP:
        if (ea == "str") != (eb == "str") or not z3.is_expr(a) or not z3.is_expr(b):
            if z3.is_expr(a) and z3.is_expr(b) or op not in ("eq", "ne"):
                if not (z3.is_expr(a) or z3.is_expr(b)):
                    return (_CMP[op](a, b), "b", "bool")
                if op not in ("eq", "ne"):
                    raise TypeError("'%s' not supported between a string label and a number" % op)
            r = _eq_terms(a, b)
            if op == "ne":
                r = z3.Not(r) if z3.is_expr(r) else (not r)
            return (r, "b", "bool")
        return (_CMP[op](a, b), "b", "bool")
    if op in ("and", "or"):
        f = z3.And if op == "and" else z3.Or
        return (f(to_z3(a), to_z3(b)), "b", "bool")
    if ea == "str" or eb == "str":
        raise TypeError("unsupported operand type(s) for %s: string labels" % op)
    a, b = to_z3(a), to_z3(b)
    if op in _ARITH_LABEL:
        r = _ARITH_LABEL[op](a, b)
        return (r, "i" if z3.is_int(r) else "f", "int" if z3.is_int(r) else "real")
    if op == "div":
        return (sym._toreal(a) / sym._toreal(b), "f", "real")
    raise OutOfSubset("elementwise %s on symbolic arrays" % op)


def _as_operand(x):
    """-> (at, shape, kind, elem) for arrays; scalars have shape ()"""
    if isinstance(x, ndarray):
        return x
    if isinstance(x, (list, tuple)):
        return asarray(x)
    return x


def _bshape(sa, sb):
    """broadcast two shapes (tuples of int|z3); returns shape and two index adapters"""
    n = builtins.max(len(sa), len(sb))
    pa = (1,) * (n - len(sa)) + tuple(sa)
    pb = (1,) * (n - len(sb)) + tuple(sb)
    out, ma, mb = [], [], []
    for k in range(n):
        x, y = pa[k], pb[k]
        cx, cy = conc(x), conc(y)
        if cx == 1 and cy == 1:
            out.append(1); ma.append(False); mb.append(False)
        elif cx == 1:
            out.append(y); ma.append(False); mb.append(True)
        elif cy == 1:
            out.append(x); ma.append(True); mb.append(False)
        else:
            if x is not y and not (cx is not None and cx == cy):
                if not ctx().decide(zint(x) == zint(y), "broadcast: extents equal"):
                    if ctx().decide(zint(x) == 1, "broadcast: left extent is 1"):
                        out.append(y); ma.append(False); mb.append(True)
                        continue
                    if ctx().decide(zint(y) == 1, "broadcast: right extent is 1"):
                        out.append(x); ma.append(True); mb.append(False)
                        continue
                    raise ValueError("operands could not be broadcast together")
            out.append(x); ma.append(True); mb.append(True)
    la, lb = len(sa), len(sb)
    def ia(idx):
        idx = idx[n - la:]
        return tuple(i if m else 0 for i, m in zip(idx, ma[n - la:]))
    def ib(idx):
        idx = idx[n - lb:]
        return tuple(i if m else 0 for i, m in zip(idx, mb[n - lb:]))
    return tuple(out), ia, ib


def _elementwise2(a, b, op):
    a, b = _as_operand(a), _as_operand(b)
    if not isinstance(a, ndarray) and not isinstance(b, ndarray):
        raise OutOfSubset("elementwise on two scalars")
    if isinstance(a, ndarray) and isinstance(b, ndarray):
        shape, ia, ib = _bshape(a._shape, b._shape)
        fa, fb, ea, eb = a.snapshot(), b.snapshot(), a.elem, b.elem
        probe = _op_terms(op, _probe(a), _probe(b), ea, eb)
        fn = lambda *idx: _op_terms(op, fa(*ia(idx)), fb(*ib(idx)), ea, eb)[0]
        return ndarray.from_fn(fn, shape, probe[1], probe[2])
    if isinstance(a, ndarray):
        if b is None or not isinstance(b, (SymNum, SymBool, int, float, bool, str)):
            if op in ("eq", "ne") and (b is None or isinstance(b, (tuple, str))):
                pass
            else:
                return NotImplemented
        fa, ea = a.snapshot(), a.elem
        tb, eb = _scalar_term(b), _elem_of_scalar(b)
        try:
            probe = _op_terms(op, _probe(a), tb, ea, eb)
        except TypeError:
            # an operator the ELEMENTS do not support (string labels - number ...): NumPy applies it element by element,
            # so an EMPTY array is not an error (validated in libcheck)
            if ctx().decide(zint(a.size) == 0 if not isinstance(a.size, int) else a.size == 0, "elementwise operator on an empty array"):
                return ndarray.from_fn(lambda *i: z3.IntVal(0), a._shape, "O", a.elem)
            raise
        fn = lambda *idx: _op_terms(op, fa(*idx), tb, ea, eb)[0]
        return ndarray.from_fn(fn, a._shape, probe[1], probe[2])
    if a is None or not isinstance(a, (SymNum, SymBool, int, float, bool, str)):
        return NotImplemented
    fb, eb = b.snapshot(), b.elem
    ta, ea = _scalar_term(a), _elem_of_scalar(a)
    probe = _op_terms(op, ta, _probe(b), ea, eb)
    fn = lambda *idx: _op_terms(op, ta, fb(*idx), ea, eb)[0]
    return ndarray.from_fn(fn, b._shape, probe[1], probe[2])


def _probe(a):
    """a representative element term, used only to learn the result kind"""
    idx = [z3.Int("probe!%d" % k) for k in range(a.ndim)]
    try:
        return a.snapshot()(*idx)
    except OutOfSubset:
        # an array of concrete python values (literal string labels) cannot be read at a symbolic position: its first
        # element is as representative as any
        cs = [conc(s_) for s_ in a._shape]
        if builtins.all(c is not None and c > 0 for c in cs):
            return a.snapshot()(*[0] * a.ndim)
        raise


def _elem_of_scalar(v):
    if isinstance(v, SymStr) or isinstance(v, str):
        return "str"
    if isinstance(v, (SymBool, bool)):
        return "bool"
    if isinstance(v, (SymInt, int)):
        return "int"
    if isinstance(v, (SymReal, float)):
        return "real"
    return "py"


def _elementwise1(a, op):
    f = a.snapshot()
    if op == "not":
        return ndarray.from_fn(lambda *i: z3.Not(f(*i)), a._shape, "b", "bool")
    if a.elem == "str":
        raise TypeError("bad operand type for unary %s: 'str'" % op)
    if op == "neg":
        return ndarray.from_fn(lambda *i: -f(*i), a._shape, a.kind, a.elem)
    if op == "abs":
        return ndarray.from_fn(lambda *i: z3.If(f(*i) >= 0, f(*i), -f(*i)), a._shape, a.kind, a.elem)
    raise OutOfSubset(op)


def _cast(a, kind, copy):
    if kind == a.kind:
        return a.copy() if copy else a
    f = a.snapshot()
    if kind == "f" and a.kind in "iu":
        return ndarray.from_fn(lambda *i: sym._toreal(f(*i)), a._shape, "f", "real")
    if kind == "O":
        return ndarray.from_fn(f, a._shape, "O", a.elem)
    if kind == "U" and a.kind in "SU":
        return ndarray.from_fn(f, a._shape, "U", a.elem)
    if kind in "iu" and a.kind == "f":
        # NumPy truncates toward zero.  (Integer LABELS are embedded in the reals in this model -- kind "i", elem "real" --
        # so the result stays Real-sorted; what matters is that the value changes when it was fractional.)
        def trunc(t):
            t = sym._toreal(t)
            return z3.ToReal(z3.If(t >= 0, z3.ToInt(t), -z3.ToInt(-t)))
        return ndarray.from_fn(lambda *i: trunc(f(*i)), a._shape, "i", "real")
    if kind == "f" and a.kind == "O" and a.elem in ("int", "real"):
        return ndarray.from_fn(lambda *i: sym._toreal(f(*i)), a._shape, "f", "real")
    if kind == "b" and a.kind == "b":
        return a
    raise OutOfSubset("cast %s -> %s" % (a.kind, kind))


# --------------------------------------------------------------------------
# construction
# --------------------------------------------------------------------------

def _infer(items):
    """kind/elem of a python list of scalars"""
    kinds = set()
    for x in items:
        if isinstance(x, (SymBool, bool)):
            kinds.add("b")
        elif isinstance(x, SymStr) or isinstance(x, str):
            kinds.add("U")
        elif isinstance(x, (SymInt, int)):
            kinds.add("i")
        elif isinstance(x, (SymReal, float)):
            kinds.add("f")
        else:
            kinds.add("O")
    if not kinds:
        return "f", "real"
    if kinds == {"b"}:
        return "b", "bool"
    if kinds <= {"i", "b"}:
        return "i", "int"
    if kinds <= {"i", "f", "b"}:
        return "f", "real"
    if kinds == {"U"}:
        return "U", "str"
    if "O" in kinds:
        return "O", "py"
    # numpy turns mixed str/number lists into strings; dimarray never relies on it
    raise OutOfSubset("mixed string / number list")


def _from_list(lst, dt=None):
    lst = builtins.list(lst)
    if lst and builtins.all(isinstance(x, (list, tuple, ndarray)) for x in lst):
        subs = [asarray(x) for x in lst]
        first = subs[0]
        kind0, elem0 = first.kind, first.elem
        for s in subs[1:]:
            if s.ndim != first.ndim:
                raise OutOfSubset("ragged nested list")
            # NumPy >= 1.24 refuses an inhomogeneous (ragged) list of arrays with ValueError
            for d in range(first.ndim):
                if s._shape[d] is not first._shape[d] and not (conc(s._shape[d]) is not None and conc(s._shape[d]) == conc(first._shape[d])):
                    if not ctx().decide(zint(s._shape[d]) == zint(first._shape[d]), "np.array of arrays: extents equal"):
                        raise ValueError("setting an array element with a sequence. The requested array has an inhomogeneous shape")
            if s.kind != kind0:
                if {s.kind, kind0} <= {"i", "f"}:
                    kind0, elem0 = "f", "real"
                else:
                    raise OutOfSubset("np.array of arrays of kinds %s and %s" % (kind0, s.kind))
        fns = [s.snapshot() for s in subs]
        if elem0 == "real":
            fns = [(lambda *i, f=f: sym._toreal(f(*i)) if z3.is_expr(f(*i)) and z3.is_int(f(*i)) else f(*i)) for f in fns]
        def fn(i, *rest):
            ci = conc(i)
            if ci is not None:
                return fns[ci](*rest)
            t = fns[-1](*rest)
            for k in range(len(fns) - 2, -1, -1):
                t = z3.If(zint(i) == k, fns[k](*rest), t)
            return t
        return ndarray.from_fn(fn, (len(lst),) + first._shape, kind0, elem0)
    kind, elem = _infer(lst)
    if dt is not None:
        kind = _kind_of_spec(dt)
        if kind == "O" and elem != "py":
            pass
        elif kind == "f":
            elem = "real"
    if elem == "py":
        vals = builtins.list(lst)
        def fn(i):
            ci = conc(i)
            if ci is None:
                raise OutOfSubset("symbolic index into an object array of python values")
            return _scalar_term(vals[ci])
        return ndarray.from_fn(fn, (len(vals),), "O", "py")
    terms = [_scalar_term(x) for x in lst]
    if elem == "str":
        if builtins.any(isinstance(x, str) for x in lst):
            vals = builtins.list(lst)
            return ndarray.from_fn(lambda i: vals[conc_req(i)], (len(vals),), kind, "py")
    if elem == "real":
        terms = [sym._toreal(to_z3(t)) for t in terms]
    elif elem == "int":
        terms = [to_z3(int(t)) if isinstance(t, bool) else to_z3(t) for t in terms]
        terms = [z3.If(t, 1, 0) if z3.is_bool(t) else t for t in terms]
    else:
        terms = [to_z3(t) for t in terms]
    def fn(i):
        ci = conc(i)
        if ci is not None:
            if not 0 <= ci < len(terms):
                raise IndexError("index %d out of range" % ci)
            return terms[ci]
        if not terms:
            return z3.IntVal(0) if elem != "real" else z3.RealVal(0)
        t = terms[-1]
        for k in range(len(terms) - 2, -1, -1):
            t = z3.If(zint(i) == k, terms[k], t)
        return t
    return ndarray.from_fn(fn, (len(terms),), kind, elem)


def _scalar_array(v):
    t = _scalar_term(v)
    e = _elem_of_scalar(v)
    kind = {"str": "U", "bool": "b", "int": "i", "real": "f", "py": "O"}[e]
    return ndarray.from_fn(lambda: t, (), kind, e)


def asarray(a, dtype=None, order=None):
    return array(a, dtype=dtype, copy=None)


NUMPY2_COPY_FALSE_RAISES = True     # NumPy >= 2: copy=False means "never copy" (checked by libcheck)


def array(a, dtype=None, copy=True, order=None, ndmin=0):
    if hasattr(a, "__array__") and not isinstance(a, ndarray) and not is_sym(a):
        a = a.__array__()
    if copy is False and NUMPY2_COPY_FALSE_RAISES:
        if not isinstance(a, ndarray) or (dtype is not None and _kind_of_spec(dtype) != a.kind):
            raise ValueError("Unable to avoid copy while creating an array as requested.")
    if isinstance(a, ndarray):
        if dtype is not None and _kind_of_spec(dtype) != a.kind:
            return _cast(a, _kind_of_spec(dtype), True)
        return a.copy() if copy else a
    if isinstance(a, (list, tuple)):
        r = _from_list(a, dtype)
        if dtype is not None and _kind_of_spec(dtype) != r.kind:
            return _cast(r, _kind_of_spec(dtype), False)
        return r
    if isinstance(a, (SymNum, SymBool, int, float, bool, str)) or a is None:
        r = _scalar_array(a)
        if dtype is not None and _kind_of_spec(dtype) != r.kind:
            return _cast(r, _kind_of_spec(dtype), False)
        return r
    raise OutOfSubset("np.array(%s)" % type(a).__name__)


def arange(*args, **kw):
    if len(args) == 1:
        lo, hi, step = 0, args[0], 1
    elif len(args) == 2:
        lo, hi, step = args[0], args[1], 1
    else:
        lo, hi, step = args
    cs = conc(step)
    if cs is None or cs == 0:
        raise OutOfSubset("arange with symbolic step")
    lo_t, hi_t = _z(lo), _z(hi)
    if isinstance(lo_t, int) and isinstance(hi_t, int):
        n = builtins.max(0, -((lo_t - hi_t) // cs)) if cs > 0 else builtins.max(0, -((hi_t - lo_t) // -cs))
        n = len(range(lo_t, hi_t, cs))
    else:
        if cs > 0:
            n = z3.If(zint(hi_t) > zint(lo_t), (zint(hi_t) - zint(lo_t) + cs - 1) / cs, 0)
        else:
            n = z3.If(zint(hi_t) < zint(lo_t), (zint(lo_t) - zint(hi_t) - cs - 1) / (-cs), 0)
        n = z3.simplify(n)
    return ndarray.from_fn(lambda i: zint(lo_t) + cs * zint(i), (n,), "i", "int")


def empty(shape, dtype=float, order="C"):
    if not isinstance(shape, (tuple, list)):
        shape = (shape,)
    kind = _kind_of_spec(dtype)
    elem = _ELEM_OF_KIND.get(kind, "py")
    name = fresh_name("empty")
    shape = tuple(_z(s) for s in shape)
    if elem == "py":
        store = {}
        return ndarray.from_fn(lambda *i: store.get(tuple(conc_req(k) for k in i)), shape, kind, "py")
    srt = {"real": z3.RealSort(), "int": z3.IntSort(), "bool": z3.BoolSort()}[elem]
    f = z3.Function(name, *([z3.IntSort()] * len(shape) + [srt])) if shape else None
    if not shape:
        c = z3.Const(name, srt)
        return ndarray.from_fn(lambda: c, (), kind, elem)
    return ndarray.from_fn(lambda *i: f(*[zint(k) for k in i]), shape, kind, elem)


def zeros(shape, dtype=float, order="C"):
    return full(shape, 0, dtype)

def ones(shape, dtype=float, order="C"):
    return full(shape, 1, dtype)

def rollaxis(a, axis, start=0):
    """NumPy's rollaxis: move `axis` so that it lies before position `start` (ranks are concrete)"""
    a = asarray(a)
    n = a.ndim
    axis = _norm_axis(axis, n)
    start = conc_req(start)
    if start < 0:
        start += n
    if not 0 <= start <= n:
        raise ValueError("rollaxis: start out of range")
    if axis < start:
        start -= 1
    if axis == start:
        return a
    axes = builtins.list(range(n))
    axes.remove(axis)
    axes.insert(start, axis)
    return a.transpose(axes)


def full(shape, v, dtype=None):
    if isinstance(shape, range):
        shape = tuple(shape)
    if not isinstance(shape, (tuple, list)):
        shape = (shape,)
    kind = _kind_of_spec(dtype) if dtype is not None else _scalar_array(v).kind
    elem = _ELEM_OF_KIND.get(kind, "py")
    t = _scalar_term(v)
    if elem == "real":
        t = sym._toreal(to_z3(t))
    elif elem == "bool" and not isinstance(v, (bool, SymBool)):
        t = to_z3(v) != 0
    return ndarray.from_fn(lambda *i: t, tuple(_z(s) for s in shape), kind, elem)

def zeros_like(a, dtype=None):
    return zeros(a.shape, dtype or a.dtype)

def ones_like(a, dtype=None):
    return ones(a.shape, dtype or a.dtype)

def empty_like(a, dtype=None):
    return empty(a.shape, dtype or a.dtype)


# --------------------------------------------------------------------------
# predicates on python-level values
# --------------------------------------------------------------------------

def isscalar(x):
    return isinstance(x, (SymNum, SymBool, int, float, bool, str, bytes, complex))

def iterable(x):
    if isinstance(x, ndarray):
        return x.ndim > 0
    if is_sym(x):
        return False
    try:
        iter(x)
    except TypeError:
        return False
    return True

def ndim(x):
    if isinstance(x, ndarray):
        return x.ndim
    if isscalar(x) or x is None:
        return 0
    if hasattr(x, "ndim"):
        return x.ndim
    return asarray(x).ndim

def size(x, axis=None):
    if isinstance(x, ndarray):
        return x.size if axis is None else x.shape[axis]
    if isscalar(x):
        return 1
    return asarray(x).size

def shape(x):
    return asarray(x).shape


# --------------------------------------------------------------------------
# slices (CPython's PySlice_AdjustIndices, symbolically)
# --------------------------------------------------------------------------

def slice_params(s, n):
    """-> (start, count, step) as z3/int terms for slice `s` on an axis of length n (step concrete)"""
    step = 1 if s.step is None else conc(s.step)
    if step is None:
        raise OutOfSubset("slice with a symbolic step")
    if step == 0:
        raise ValueError("slice step cannot be zero")
    n = _z(n)
    def adj(x, lo, hi, default):
        if x is None:
            return default
        x = _z(x)
        if isinstance(x, int) and isinstance(n, int):
            if x < 0:
                return builtins.max(x + n, lo if isinstance(lo, int) else lo)
            return builtins.min(x, hi)
        x, nn = zint(x), zint(n)
        lo_t, hi_t = zint(lo), zint(hi)
        return z3.If(x < 0, z3.If(x + nn < lo_t, lo_t, x + nn), z3.If(x > hi_t, hi_t, x))
    for b in (s.start, s.stop):
        if b is not None and not isinstance(b, (int, SymInt)) or isinstance(b, bool):
            if isinstance(b, (SymReal, float, SymStr, str)):
                raise TypeError("slice indices must be integers or None or have an __index__ method")
    if step > 0:
        lo = adj(s.start, 0, n, 0)
        hi = adj(s.stop, 0, n, n)
        if isinstance(lo, int) and isinstance(hi, int):
            cnt = len(range(lo, hi, step))
        else:
            cnt = z3.simplify(z3.If(zint(hi) > zint(lo), (zint(hi) - zint(lo) + (step - 1)) / step, 0))
    else:
        nm1 = n - 1 if isinstance(n, int) else zint(n) - 1
        lo = adj(s.start, -1, nm1, nm1)
        hi = adj(s.stop, -1, nm1, -1)
        if isinstance(lo, int) and isinstance(hi, int):
            cnt = len(range(lo, hi, step))
        else:
            cnt = z3.simplify(z3.If(zint(lo) > zint(hi), (zint(lo) - zint(hi) + (-step - 1)) / (-step), 0))
    return lo, cnt, step


def _is_full_slice(k):
    return isinstance(k, slice) and k.start is None and k.stop is None and k.step is None


# --------------------------------------------------------------------------
# getitem / setitem
# --------------------------------------------------------------------------

def _check_index(i, n, what="index"):
    """python/numpy integer index with negative wrap; forks to IndexError"""
    i, n = _z(i), _z(n)
    if isinstance(i, int) and isinstance(n, int):
        j = i + n if i < 0 else i
        if not 0 <= j < n:
            raise IndexError("%s %d is out of bounds for axis with size %d" % (what, i, n))
        return j
    it, nt = zint(i), zint(n)
    j = z3.simplify(z3.If(it < 0, it + nt, it))
    if not ctx().decide(z3.And(j >= 0, j < nt), "%s in bounds" % what):
        raise IndexError("%s is out of bounds" % what)
    return j


def _int_index_array(ix, n, mode="raise"):
    """positions array -> content function j -> source position (wrapped / clipped), forking on IndexError"""
    f = ix.snapshot()
    nt = zint(_z(n))
    m = ix._shape[0] if ix.ndim else None
    if mode == "clip":
        return lambda j: z3.If(f(j) < 0, 0, z3.If(f(j) >= nt, nt - 1, f(j)))
    if mode == "wrap":
        raise OutOfSubset("take mode wrap")
    ok = forall(0, m, lambda j: z3.And(f(j) >= -nt, f(j) < nt))
    if not ctx().decide(ok, "integer index array in bounds"):
        raise IndexError("index out of bounds for axis with size n")
    return lambda j: z3.If(f(j) < 0, f(j) + nt, f(j))


_AFFINE = {}      # id(view) -> (view kept alive, offset, stride) for 1-D slice views of whole buffers


def _view_position(arr, w):
    """position in `arr` of buffer index w, or None when arr is not a whole buffer / affine view"""
    if arr.imap is None:
        return w
    hit = _AFFINE.get(id(arr))
    if hit is None or hit[0] is not arr:
        return None
    _, off, stride = hit
    return (w - off) / stride if stride > 0 else (off - w) / (-stride)


def _memo(op, a, make):
    """NumPy functions are deterministic: the same operation on the same array *content* (same buffer,
    same content function, same view) yields the same symbols on a path.  Without this the equality of
    two enumerations of the same mask would need induction."""
    c = ctx()
    memo = c.__dict__.setdefault("memo", {})
    key = (op, id(a.buf.fn), id(a.imap))      # content identity: same content function through the same view
    hit = memo.get(key)
    if hit is not None:
        return hit[0]
    r = make()
    memo[key] = (r, a, a.buf.fn, a.imap)      # keep the keyed objects alive so ids cannot be recycled
    return r


def mask_positions(mask):
    def make():
        r = _mask_positions(mask)
        r.buf.tags["mask_of"] = mask
        return r
    return _memo("mask_positions", mask, make)


def _mask_positions(mask):
    """strictly increasing enumeration of the true positions of a 1-D boolean array.
    Library contract `nonzero`: fresh count m, enumeration e, rank witness rk."""
    ctx().lib("nonzero/boolean-compress")
    n = mask._shape[0]
    f = mask.snapshot()
    cn = conc(n)
    if cn is not None and cn <= 8:
        # concrete length: exact definition by cases (bounded mode and short masks)
        terms = [to_z3(f(i)) for i in range(cn)]
        cnt = z3.Sum([z3.If(t, 1, 0) for t in terms]) if terms else z3.IntVal(0)
        cnt = z3.simplify(cnt)
        def e(k):
            # position of the k-th true entry
            out = z3.IntVal(cn)
            for i in range(cn - 1, -1, -1):
                before = z3.Sum([z3.If(terms[j], 1, 0) for j in range(i)]) if i else z3.IntVal(0)
                out = z3.If(z3.And(terms[i], before == zint(k)), i, out)
            return out
        return ndarray.from_fn(e, (cnt,), "i", "int")
    m = z3.Int(fresh_name("nnz"))
    e = z3.Function(fresh_name("nz_pos"), z3.IntSort(), z3.IntSort())
    rk = z3.Function(fresh_name("nz_rank"), z3.IntSort(), z3.IntSort())
    nt = zint(n)
    c = ctx()
    c.add(m >= 0, m <= nt)
    c.add(forall(0, m, lambda k: z3.And(e(k) >= 0, e(k) < nt, f(e(k)), rk(e(k)) == k), dom=n))
    c.add(forall2(0, m, lambda k, l: e(k) < e(l), dom=n))
    c.add(forall(0, nt, lambda i: z3.Implies(f(i), z3.And(rk(i) >= 0, rk(i) < m, e(rk(i)) == i))))
    r = ndarray.from_fn(lambda k: e(zint(k)), (m,), "i", "int")
    r.buf.tags["rank"] = rk          # rk(i) = position of true entry i in the enumeration
    return r


def _index_1d(a, key):
    """index a 1-D array with one key; returns ndarray or scalar"""
    n = a._shape[0]
    if isinstance(key, (bool, SymBool)):
        raise OutOfSubset("boolean scalar index")
    if isinstance(key, (int, SymInt)):
        j = _check_index(key, n)
        return a._w(a.at(j))
    if isinstance(key, (float, SymReal, SymStr, str)):
        raise IndexError("only integers, slices (`:`), ellipsis (`...`), numpy.newaxis (`None`) and integer or boolean arrays are valid indices")
    if isinstance(key, slice):
        lo, cnt, step = slice_params(key, n)
        old = a.imap
        def imap(idx):
            src = (zint(lo) + step * zint(idx[0]),)
            return old(src) if old else src
        v = ndarray(a.buf, (cnt,), imap)
        if old is None:
            _AFFINE[id(v)] = (v, zint(lo), step)      # view[k] == buf[lo + step*k]
        return v
    if isinstance(key, (list, tuple)):
        key = asarray(key)
        if key.kind == "f" and conc(key._shape[0]) == 0:
            key = _cast(key, "i", False) if False else ndarray.from_fn(lambda i: z3.IntVal(0), (0,), "i", "int")
    if isinstance(key, ndarray):
        if key.ndim != 1 and key.kind in "iu":
            # labels[positions] with an N-d array of positions: the result has the shape of the positions
            fk, fa2, nt = key.snapshot(), a.snapshot(), zint(n)
            ok = _forall_nd(key._shape, lambda *ix: z3.And(fk(*ix) >= -nt, fk(*ix) < nt))
            if not ctx().decide(ok, "integer index array in bounds"):
                raise IndexError("index out of bounds")
            return ndarray.from_fn(lambda *ix: fa2(z3.If(fk(*ix) < 0, fk(*ix) + nt, fk(*ix))), key._shape, a.kind, a.elem)
        if key.ndim != 1:
            raise OutOfSubset("N-d index array")
        if key.kind == "b":
            if not ctx().decide(zint(key._shape[0]) == zint(n), "boolean index has the axis length"):
                raise IndexError("boolean index did not match indexed array along axis 0")
            pos = mask_positions(key)
            fp, fa = pos.snapshot(), a.snapshot()
            r = ndarray.from_fn(lambda j: fa(fp(j)), pos._shape, a.kind, a.elem)
            rk = pos.buf.tags.get("rank")
            if rk is not None and a.imap is None:
                fm = key.snapshot()
                # source element i (kept iff mask[i]) sits at position rk(i) of the result
                r.buf.tags["located"] = [(a, (lambda i, rk=rk: rk(zint(i))), (lambda i, fm=fm: fm(zint(i))), key)]
            return r
        if key.kind not in "iu":
            raise IndexError("arrays used as indices must be of integer (or boolean) type")
        g = _int_index_array(key, n)
        fa = a.snapshot()
        return ndarray.from_fn(lambda j: fa(g(zint(j))), key._shape, a.kind, a.elem)
    raise OutOfSubset("index of type %s" % type(key).__name__)


def _getitem(a, key):
    if key is Ellipsis or (isinstance(key, tuple) and len(key) == 0):
        return a if a.ndim else a.item()
    if not isinstance(key, tuple):
        if a.ndim == 1:
            return _index_1d(a, key)
        if isinstance(key, ndarray) and key.kind == "b" and key.ndim == a.ndim and a.ndim > 1:
            raise OutOfSubset("N-d boolean mask read")
        key = (key,)
    return _index_nd(a, key)


def expand_slice(slice_, size):
    """model of `np.arange(*slice_.indices(size))` (slice.indices is a CPython builtin that needs concrete
    integers; this is its definition over the symbolic slice arithmetic above)"""
    lo, cnt, step = slice_params(slice_, size)
    r = ndarray.from_fn(lambda i: zint(lo) + step * zint(i), (cnt,), "i", "int")
    r.buf.tags["arange"] = (lo, cnt, step)
    return r


def _expand_key(key, ndim):
    key = builtins.list(key)
    n_real = builtins.sum(1 for k in key if k is not None and k is not Ellipsis)
    if n_real > ndim:
        raise IndexError("too many indices for array")
    if builtins.any(k is Ellipsis for k in key):
        i = [k is Ellipsis for k in key].index(True)
        key[i:i + 1] = [slice(None)] * (ndim - n_real)
    else:
        key += [slice(None)] * (ndim - n_real)
    return key


def _index_nd(a, key):
    """basic indexing plus *outer-product* advanced indexing: integer arrays produced by np.ix_
    (shape (1,..,m,..,1)) and at most one plain 1-D array.  Anything where NumPy's
    transposition rule for separated advanced indices matters is out of subset."""
    key = _expand_key(key, a.ndim)
    # classify
    out_shape = []
    getters = []      # per source dim: function(out_idx) -> source index term
    src = 0
    adv = []          # (source dim, array, ix_axis or None)
    plan = []         # ("int", j) | ("slice", lo, step, outpos) | ("new",) | ("adv", arr)
    for k in key:
        if k is None:
            plan.append(("new",))
            continue
        n = a._shape[src]
        if isinstance(k, (int, SymInt)) and not isinstance(k, bool):
            plan.append(("int", _check_index(k, n)))
        elif isinstance(k, slice):
            lo, cnt, step = slice_params(k, n)
            plan.append(("slice", lo, step, cnt))
        elif isinstance(k, (list, tuple, ndarray)):
            arr = asarray(k)
            if arr.kind == "b":
                if arr.ndim != 1:
                    raise OutOfSubset("N-d boolean index inside a tuple")
                if not ctx().decide(zint(arr._shape[0]) == zint(n), "boolean index has the axis length"):
                    raise IndexError("boolean index did not match indexed array")
                arr = mask_positions(arr)
            elif arr.kind not in "iu":
                if conc(arr.size) == 0:
                    arr = ndarray.from_fn(lambda *i: z3.IntVal(0), arr._shape, "i", "int")
                else:
                    raise IndexError("arrays used as indices must be of integer (or boolean) type")
            plan.append(("adv", arr, n))
        else:
            raise OutOfSubset("N-d index component of type %s" % type(k).__name__)
        src += 1
    advs = [p for p in plan if p[0] == "adv"]
    # advanced indices: accept (a) exactly one array of any rank-1; (b) several arrays that are an
    # open mesh (np.ix_): array number t has rank R with extent != 1 only on its own axis t.
    mesh = False
    paired = False
    if len(advs) > 1 and builtins.all(p[1].ndim == 1 for p in advs):
        # several 1-D index arrays: NumPy PAIRS them element by element (pointwise indexing); they must have one length
        # (a length-1 array would be broadcast: not modelled)
        m0 = advs[0][1]._shape[0]
        for p in advs[1:]:
            m_t = p[1]._shape[0]
            if m_t is not m0 and not ctx().decide(zint(m_t) == zint(m0), "paired index arrays have one length"):
                if ctx().decide(z3.Or(zint(m_t) == 1, zint(m0) == 1), "a length-1 index array is broadcast"):
                    raise OutOfSubset("broadcasting of a length-1 index array against another")
                raise IndexError("shape mismatch: indexing arrays could not be broadcast together")
        paired = True
        pos = [i for i, p in enumerate(plan) if p[0] == "adv"]
        ints_between = [i for i, p in enumerate(plan) if p[0] == "int"]
        lo_, hi_ = builtins.min(pos + ints_between), builtins.max(pos + ints_between)
        contiguous = builtins.all(plan[i][0] in ("adv", "int") for i in range(lo_, hi_ + 1))
    elif len(advs) > 1:
        R = advs[0][1].ndim
        if R != len(advs) or builtins.any(p[1].ndim != R for p in advs):
            raise OutOfSubset("several advanced indices that are not an np.ix_ open mesh")
        for t, p in enumerate(advs):
            for ax, s in enumerate(p[1]._shape):
                if ax != t and conc(s) != 1:
                    raise OutOfSubset("several advanced indices that are not an np.ix_ open mesh")
        mesh = True
        # NumPy: if the advanced indices are separated by a slice / newaxis the broadcast dims go first
        pos = [i for i, p in enumerate(plan) if p[0] == "adv"]
        ints_between = [i for i, p in enumerate(plan) if p[0] == "int"]
        lo_, hi_ = builtins.min(pos + ints_between), builtins.max(pos + ints_between)
        contiguous = builtins.all(plan[i][0] in ("adv", "int") for i in range(lo_, hi_ + 1))
    elif len(advs) == 1:
        if advs[0][1].ndim != 1:
            raise OutOfSubset("N-d advanced index")
        pos = [i for i, p in enumerate(plan) if p[0] in ("adv", "int")]
        only_adv = [i for i, p in enumerate(plan) if p[0] == "adv"]
        contiguous = builtins.all(plan[i][0] in ("adv", "int") for i in range(builtins.min(pos), builtins.max(pos) + 1)) \
            if builtins.any(plan[i][0] == "int" for i in range(len(plan))) else True
    else:
        contiguous = True
    # build output dims
    adv_dims = []     # extents contributed by the advanced block
    if mesh:
        adv_dims = [p[1]._shape[t] for t, p in enumerate(advs)]
    elif paired:
        adv_dims = [advs[0][1]._shape[0]]
    elif advs:
        adv_dims = [advs[0][1]._shape[0]]
    out_dims = []     # list of ("slice", planindex) / ("new",) / ("advblock",)
    placed = False
    for i, p in enumerate(plan):
        if p[0] == "slice":
            out_dims.append(("slice", i))
        elif p[0] == "new":
            out_dims.append(("new",))
        elif p[0] == "adv" and not placed and contiguous:
            out_dims.append(("advblock",))
            placed = True
    if advs and not contiguous:
        out_dims.insert(0, ("advblock",))
    shape = []
    for d in out_dims:
        if d[0] == "slice":
            shape.append(plan[d[1]][3])
        elif d[0] == "new":
            shape.append(1)
        else:
            shape.extend(adv_dims)
    # the index map
    adv_fns = [(p[1].snapshot(), _z(p[2])) for p in advs]
    # NumPy's rule (learned by enumeration against NumPy 2.5.3, see libcheck): entries of index ARRAYS are bounds-checked
    # only when the broadcast index is non-empty, i.e. when no array factor is empty.  (Integers are always checked.)
    oks, empties = [], []
    for (f_, n_), p in zip(adv_fns, advs):
        arr = p[1]
        oks.append(_forall_nd(arr._shape, lambda *ix, f_=f_, n_=n_: z3.And(f_(*ix) >= -zint(n_), f_(*ix) < zint(n_))))
        empties.append(z3.Or([zint(s_) == 0 for s_ in arr._shape]) if arr._shape else z3.BoolVal(False))
    if advs and not ctx().decide(z3.Or(z3.Or(empties), z3.And(oks)), "integer index arrays in bounds (or the broadcast index is empty)"):
        raise IndexError("index out of bounds")
    old = a.imap
    nadv = len(adv_dims)
    def imap(idx):
        # split idx according to out_dims
        pos_of = {}
        k = 0
        advidx = ()
        for d in out_dims:
            if d[0] == "slice":
                pos_of[d[1]] = idx[k]; k += 1
            elif d[0] == "new":
                k += 1
            else:
                advidx = idx[k:k + nadv]; k += nadv
        srcidx = []
        t = 0
        for i, p in enumerate(plan):
            if p[0] == "int":
                srcidx.append(p[1])
            elif p[0] == "slice":
                srcidx.append(zint(p[1]) + p[2] * zint(pos_of[i]))
            elif p[0] == "adv":
                f_, n_ = adv_fns[t]
                if mesh:
                    full = tuple(advidx[u] if u == t else 0 for u in range(nadv))
                    v = f_(*full)
                else:
                    v = f_(advidx[0])
                srcidx.append(z3.If(v < 0, v + zint(n_), v))
                t += 1
        srcidx = tuple(srcidx)
        return old(srcidx) if old else srcidx
    if advs:
        # advanced indexing copies
        view = ndarray(a.buf, tuple(shape), imap)
        if not shape:
            return view.item()
        return ndarray.from_fn(view.snapshot(), shape, a.kind, a.elem)
    if not shape:
        return a._w(a.buf.fn(*imap(())))
    return ndarray(a.buf, tuple(shape), imap)


def _forall_nd(shape, body):
    cs = [conc(s) for s in shape]
    if builtins.all(c is not None for c in cs):
        import itertools
        parts = [to_z3(body(*ix)) for ix in itertools.product(*[range(c) for c in cs])]
        return z3.And(parts) if parts else z3.BoolVal(True)
    vs = [z3.Int(fresh_name("q")) for _ in shape]
    rng = z3.And([z3.And(v >= 0, v < zint(s)) for v, s in zip(vs, shape)]) if vs else z3.BoolVal(True)
    if not vs:
        return to_z3(body())
    return z3.ForAll(vs, z3.Implies(rng, to_z3(body(*vs))))


def broadcast_to(array, shape, subok=False):
    """np.broadcast_to: a READ-ONLY view of `array` with the given shape (extent-1 / missing leading dimensions repeated).
    Modelled as a read-only array with the same content; the source is marked, so that a later write to it (which the real
    view would show) leaves the subset instead of being mis-modelled."""
    a = asarray(array)
    shape = tuple(shape) if isinstance(shape, (tuple, list)) else (shape,)
    shape = tuple(_z(s_) for s_ in shape)
    if len(shape) < a.ndim:
        raise ValueError("input operand has more dimensions than allowed by the axis remapping")
    off = len(shape) - a.ndim
    keep = []
    for k, s_in in enumerate(a._shape):
        s_out = shape[off + k]
        if s_in is s_out or (conc(s_in) is not None and conc(s_in) == conc(s_out)):
            keep.append(True)
        elif conc(s_in) == 1:
            keep.append(False)
        elif ctx().decide(zint(s_in) == zint(s_out), "broadcast_to: extents equal"):
            keep.append(True)
        elif ctx().decide(zint(s_in) == 1, "broadcast_to: source extent is 1"):
            keep.append(False)
        else:
            raise ValueError("operands could not be broadcast together with remapped shapes")
    fa = a.snapshot()
    r = ndarray.from_fn(lambda *idx: fa(*[i if kp else 0 for i, kp in zip(idx[off:], keep)]), shape, a.kind, a.elem)
    r.buf.tags["readonly"] = True
    a.buf.tags["aliased_by_readonly_view"] = True
    return r


def _setitem(a, key, value):
    """in-place write.  Only onto whole-buffer arrays (a write through a view is out of subset)."""
    if a.buf.tags.get("readonly"):
        raise ValueError("assignment destination is read-only")
    if a.buf.tags.get("aliased_by_readonly_view"):
        raise OutOfSubset("write to an array a broadcast_to view aliases")
    if not a.is_whole():
        raise OutOfSubset("write through a view")
    buf = a.buf
    old = buf.fn
    nd = a.ndim
    # value as function of the *selection* index
    if isinstance(value, (list, tuple)):
        value = asarray(value)
    if isinstance(value, ndarray) and value.ndim == 0:
        value = value.item()
    val_kind = value.kind if isinstance(value, ndarray) else _scalar_array(value).kind
    if buf.kind == "b" and val_kind != "b":
        raise OutOfSubset("assigning non-bool to bool array")
    def conv(t):
        if buf.kind in "iu" and buf.elem == "real" and val_kind == "f":
            # an INTEGER array whose elements are embedded in the reals (integer labels): NumPy truncates a float stored into it
            t = sym._toreal(to_z3(t))
            return z3.ToReal(z3.If(t >= 0, z3.ToInt(t), -z3.ToInt(-t)))
        if buf.elem == "real" and z3.is_expr(t) and z3.is_int(t):
            return sym._toreal(t)
        if buf.elem == "real" and isinstance(t, (int, float)) and not isinstance(t, bool):
            if isinstance(t, float) and t != t:
                return NAN
            return to_z3(float(t)) if isinstance(t, float) else z3.RealVal(t)
        if buf.elem == "int" and ((z3.is_expr(t) and z3.is_real(t)) or isinstance(t, float)):
            t = to_z3(t)       # NumPy truncates toward zero when a float is stored into an int array
            return z3.If(t >= 0, z3.ToInt(t), -z3.ToInt(-t))
        if buf.elem in ("int", "real") and (isinstance(t, str) or (z3.is_expr(t) and False)):
            raise ValueError("could not convert string to float")
        return to_z3(t) if isinstance(t, (bool, int)) and buf.elem != "py" else t
    if (buf.elem == "int" and buf.kind == "i" and isinstance(value, ndarray) and value.kind == "i" and value.elem == "real"
            and (key is Ellipsis or _is_full_slice(key))):
        # integer LABELS are embedded in the reals (kind "i", elem "real").  Storing them over a whole integer array is an
        # integer-to-integer assignment: nothing is truncated; the buffer just takes over the embedding.
        buf.elem = "real"
    if buf.kind == "O":
        # an object array holds anything: no conversion, and from now on its elements are of the assigned sort
        if isinstance(value, ndarray) and value.elem != buf.elem and (key is Ellipsis or _is_full_slice(key)):
            buf.elem = value.elem
    elif isinstance(value, ndarray) and value.elem == "str" and buf.elem in ("int", "real"):
        raise ValueError("could not convert string to float")
    elif isinstance(value, (SymStr, str)) and buf.elem in ("int", "real"):
        raise ValueError("could not convert string to float")
    if buf.elem == "str" and not (isinstance(value, (SymStr,)) or (isinstance(value, ndarray) and value.elem == "str")):
        if buf.kind != "O":
            raise OutOfSubset("non-string into string array")
    # full overwrite: a[:] = v, a[...] = v, a[()] = v
    if key is Ellipsis or _is_full_slice(key) or (isinstance(key, tuple) and (len(key) == 0 or builtins.all(_is_full_slice(k) or k is Ellipsis for k in key))):
        if isinstance(value, ndarray):
            shape, ia, ib = _bshape(a._shape, value._shape)
            if len(shape) != nd:
                raise ValueError("could not broadcast input array")
            for s_out, s_in in zip(shape, a._shape):
                if s_out is not s_in and conc(s_out) != conc(s_in) or (conc(s_out) is None and s_out is not s_in):
                    if not ctx().decide(zint(s_out) == zint(s_in), "assignment broadcast fits"):
                        raise ValueError("could not broadcast input array from shape into shape")
            fv = value.snapshot()
            buf.fn = lambda *idx: conv(fv(*ib(idx)))
            if buf.elem == "py" or (buf.kind == "O" and value.elem != buf.elem):
                buf.elem = value.elem
        else:
            t = conv(_scalar_term(value))
            buf.fn = lambda *idx: t
        return
    if isinstance(key, ndarray) and key.kind == "b" and key.ndim == nd and nd > 1:
        # full-shape boolean mask: a[mask] = scalar (array right-hand sides need the row-major rank of each
        # true cell and are out of subset)
        if isinstance(value, ndarray):
            raise OutOfSubset("N-d boolean mask assignment of an array")
        for s_m, s_a in zip(key._shape, a._shape):
            if s_m is not s_a and not ctx().decide(zint(s_m) == zint(s_a), "mask has the array's shape"):
                raise IndexError("boolean index did not match indexed array")
        fm = key.snapshot()
        tv = conv(_scalar_term(value))
        buf.fn = lambda *idx: z3.If(fm(*idx), tv, old(*idx))
        return
    if not isinstance(key, tuple):
        key = (key,)
    key = _expand_key(key, nd)
    if builtins.any(k is None for k in key):
        raise OutOfSubset("newaxis in assignment")
    # per-dimension: membership test of a source position, and its coordinate in the selection
    tests = []       # per dim: (member(i) -> Bool, coord(i) -> Int | None if the dim is dropped, extent | None)
    kinds_ = []      # per dim: "int" | "slice" | "adv" (NumPy's placement rule below needs to know which is which)
    arr_oks, arr_empties = [], []      # bounds of index arrays are checked only when no array factor is empty (NumPy's rule)
    plain_index_arrays = []            # ranks of the integer index arrays met (to tell an open mesh from paired 1-D arrays)
    paired_g = {}                      # dim -> (position function k -> Int, length) of each plain integer index array
    for d, k in enumerate(key):
        n = a._shape[d]
        if isinstance(k, (int, SymInt)) and not isinstance(k, bool):
            j = _check_index(k, n)
            tests.append((lambda i, j=j: zint(i) == zint(j), None, None))
            kinds_.append("int")
        elif isinstance(k, slice):
            lo, cnt, step = slice_params(k, n)
            lo_t, cnt_t = zint(lo), zint(cnt)
            if step > 0:
                mem = lambda i, lo_t=lo_t, cnt_t=cnt_t, step=step: z3.And(zint(i) >= lo_t, (zint(i) - lo_t) % step == 0, (zint(i) - lo_t) / step < cnt_t)
                co = lambda i, lo_t=lo_t, step=step: (zint(i) - lo_t) / step
            else:
                mem = lambda i, lo_t=lo_t, cnt_t=cnt_t, step=step: z3.And(zint(i) <= lo_t, (lo_t - zint(i)) % (-step) == 0, (lo_t - zint(i)) / (-step) < cnt_t)
                co = lambda i, lo_t=lo_t, step=step: (lo_t - zint(i)) / (-step)
            tests.append((mem, co, cnt))
            kinds_.append("slice")
        elif isinstance(k, ndarray) and k.is_whole() and "arange" in k.buf.tags:
            # positions that are the expansion of a slice: closed-form membership
            lo, cnt, step = k.buf.tags["arange"]
            lo_t, cnt_t = zint(lo), zint(cnt)
            if step > 0:
                mem = lambda i, lo_t=lo_t, cnt_t=cnt_t, step=step: z3.And(zint(i) >= lo_t, (zint(i) - lo_t) % step == 0, (zint(i) - lo_t) / step < cnt_t)
                co = lambda i, lo_t=lo_t, step=step: (zint(i) - lo_t) / step
            else:
                mem = lambda i, lo_t=lo_t, cnt_t=cnt_t, step=step: z3.And(zint(i) <= lo_t, (lo_t - zint(i)) % (-step) == 0, (lo_t - zint(i)) / (-step) < cnt_t)
                co = lambda i, lo_t=lo_t, step=step: (lo_t - zint(i)) / (-step)
            tests.append((mem, co, cnt))
            kinds_.append("adv")
            arr_empties.append(zint(cnt) == 0)
        elif isinstance(k, (list, tuple, ndarray)):
            arr = asarray(k)
            if arr.kind != "b" and arr.is_whole() and "mask_of" in arr.buf.tags:
                arr = arr.buf.tags["mask_of"]       # np.nonzero(mask) used as an index: same selection as the mask itself
            if arr.kind == "b":
                if arr.ndim != 1:
                    raise OutOfSubset("N-d mask in tuple assignment")
                if not ctx().decide(zint(arr._shape[0]) == zint(n), "boolean index has the axis length"):
                    raise IndexError("boolean index did not match")
                fm = arr.snapshot()
                pos = mask_positions(arr)
                fp = pos.snapshot()
                rk = z3.Function(fresh_name("sel_rank"), z3.IntSort(), z3.IntSort())
                ctx().add(forall(0, pos._shape[0], lambda q: rk(fp(q)) == q, dom=n))
                tests.append((lambda i, fm=fm: fm(zint(i)), lambda i, rk=rk: rk(zint(i)), pos._shape[0]))
                kinds_.append("adv")
                arr_empties.append(zint(pos._shape[0]) == 0)
            elif arr.kind in "iu" or conc(arr.size) == 0:
                # integer positions (1-D, or one factor of an np.ix_ open mesh): the written cell for a repeated
                # position is the LAST one (NumPy assigns in order).  w(p) = last k with arr[k] == p.
                own = [ax for ax, s_ in enumerate(arr._shape) if conc(s_) != 1]
                if len(own) > 1:
                    raise OutOfSubset("integer index array that is not 1-D / an open-mesh factor")
                plain_index_arrays.append(arr.ndim)
                ax_own = own[0] if own else (arr.ndim - 1)
                m = arr._shape[ax_own] if arr.ndim else 1
                fraw = arr.snapshot()
                nd_arr = arr.ndim
                f1 = lambda kk, fraw=fraw, ax_own=ax_own, nd_arr=nd_arr: fraw(*[kk if u == ax_own else 0 for u in range(nd_arr)])
                nt = zint(n)
                arr_oks.append(forall(0, m, lambda kk: z3.And(f1(kk) >= -nt, f1(kk) < nt)))
                arr_empties.append(zint(m) == 0)
                g = lambda kk, f1=f1, nt=nt: z3.If(f1(kk) < 0, f1(kk) + nt, f1(kk))
                cm = conc(m)
                if cm is not None and cm <= 6:
                    def mem(i, g=g, cm=cm):
                        return z3.Or([g(kk) == zint(i) for kk in range(cm)]) if cm else z3.BoolVal(False)
                    def co(i, g=g, cm=cm):
                        out = z3.IntVal(0)
                        for kk in range(cm):
                            out = z3.If(g(kk) == zint(i), kk, out)     # later k overrides: last write wins
                        return out
                else:
                    w = z3.Function(fresh_name("last_write"), z3.IntSort(), z3.IntSort())
                    mt = zint(m)
                    ctx().add(forall(0, mt, lambda kk: z3.And(w(g(kk)) >= kk, w(g(kk)) < mt, g(w(g(kk))) == g(kk))))
                    mem = lambda i, w=w, mt=mt, g=g: z3.And(w(zint(i)) >= 0, w(zint(i)) < mt, g(w(zint(i))) == zint(i))
                    co = lambda i, w=w: w(zint(i))
                tests.append((mem, co, m))
                kinds_.append("adv")
                paired_g[d] = (g, m)
            else:
                raise IndexError("arrays used as indices must be of integer (or boolean) type")
        else:
            raise OutOfSubset("assignment key component %s" % type(k).__name__)
    n_adv = len(arr_empties)
    if len(plain_index_arrays) >= 2 and n_adv == len(plain_index_arrays) and builtins.all(r == 1 for r in plain_index_arrays):
        return _setitem_paired(a, buf, old, tests, kinds_, paired_g, arr_oks, arr_empties, value, conv)
    if len(plain_index_arrays) >= 1 and n_adv > 1 and builtins.any(r != n_adv for r in plain_index_arrays):
        # two or more advanced indices that are NOT the factors of an np.ix_ open mesh: NumPy broadcasts them against each
        # other (1-D arrays are PAIRED element by element), which is not the orthogonal selection modelled here
        raise OutOfSubset("several advanced indices in an assignment that are not an np.ix_ open mesh (NumPy pairs them)")
    if arr_oks and not ctx().decide(z3.Or(z3.Or(arr_empties), z3.And(arr_oks)),
                                    "integer index arrays in bounds (or the broadcast index is empty)"):
        raise IndexError("index out of bounds")
    # NumPy's placement rule: integers count as advanced indices next to an array index; when the advanced indices are
    # SEPARATED by a slice, the dimensions they produce come FIRST in the selection (the value is laid out accordingly)
    selorder = [d for d, t in enumerate(tests) if t[1] is not None]
    if "adv" in kinds_:
        grp = [d for d, kd in enumerate(kinds_) if kd in ("adv", "int")]
        if builtins.any(kinds_[d] == "slice" for d in range(builtins.min(grp), builtins.max(grp) + 1)):
            selorder = [d for d in selorder if kinds_[d] == "adv"] + [d for d in selorder if kinds_[d] == "slice"]
    selshape = tuple(tests[d][2] for d in selorder)
    if isinstance(value, ndarray):
        vshape, ia, ib = _bshape(selshape, value._shape)
        if len(vshape) != len(selshape):
            raise ValueError("could not broadcast input array")
        for s_out, s_in in zip(vshape, selshape):
            if (conc(s_out) is None and s_out is not s_in) or (conc(s_out) is not None and conc(s_out) != conc(s_in)):
                if not ctx().decide(zint(s_out) == zint(s_in), "assignment broadcast fits"):
                    raise ValueError("could not broadcast input array from shape into shape")
        fv = value.snapshot()
        def newval(idx):
            sel = tuple(tests[d][1](idx[d]) for d in selorder)
            return conv(fv(*ib(sel)))
    else:
        tv = conv(_scalar_term(value))
        newval = lambda idx: tv
    def fn(*idx):
        member = z3.And([to_z3(t[0](i)) for t, i in zip(tests, idx)])
        return z3.If(member, newval(idx), old(*idx))
    buf.fn = fn


def _setitem_paired(a, buf, old, tests, kinds_, paired_g, arr_oks, arr_empties, value, conv):
    """a[I, J, ...] = v with several 1-D integer arrays: NumPy pairs them (cell k of the selection is a[I[k], J[k], ...]);
    a cell addressed more than once keeps the LAST value written.  Integers and slices may stand next to the arrays."""
    dims = sorted(paired_g)
    m0 = paired_g[dims[0]][1]
    for d in dims[1:]:
        m_t = paired_g[d][1]
        if m_t is not m0 and not ctx().decide(zint(m_t) == zint(m0), "paired index arrays have one length"):
            if ctx().decide(z3.Or(zint(m_t) == 1, zint(m0) == 1), "a length-1 index array is broadcast"):
                raise OutOfSubset("broadcasting of a length-1 index array against another")
            raise IndexError("shape mismatch: indexing arrays could not be broadcast together")
    if arr_oks and not ctx().decide(z3.Or(zint(m0) == 0, z3.And(arr_oks)), "integer index arrays in bounds (or the broadcast index is empty)"):
        raise IndexError("index out of bounds")
    gs = [paired_g[d][0] for d in dims]
    mt = zint(m0)
    cm = conc(m0)
    if cm is not None and cm <= 6:
        def member(ps):
            return z3.Or([z3.And([g(kk) == zint(p_) for g, p_ in zip(gs, ps)]) for kk in range(cm)]) if cm else z3.BoolVal(False)
        def coord(ps):
            out = z3.IntVal(0)
            for kk in range(cm):
                out = z3.If(z3.And([g(kk) == zint(p_) for g, p_ in zip(gs, ps)]), kk, out)      # last write wins
            return out
    else:
        w = z3.Function(fresh_name("last_write"), *([z3.IntSort()] * (len(dims) + 1)))
        def at_k(kk):
            return [g(kk) for g in gs]
        ctx().add(forall(0, mt, lambda kk: z3.And(w(*at_k(kk)) >= kk, w(*at_k(kk)) < mt, *[g(w(*at_k(kk))) == g(kk) for g in gs])))
        def member(ps):
            ps = [zint(p_) for p_ in ps]
            return z3.And(w(*ps) >= 0, w(*ps) < mt, *[g(w(*ps)) == p_ for g, p_ in zip(gs, ps)])
        def coord(ps):
            return w(*[zint(p_) for p_ in ps])
    # layout of the selection: the paired block is ONE dimension; it stands where the first advanced index stands when the
    # advanced indices (integers included) are adjacent, and first otherwise
    grp = [d for d, kd in enumerate(kinds_) if kd in ("adv", "int")]
    separated = builtins.any(kinds_[d] == "slice" for d in range(builtins.min(grp), builtins.max(grp) + 1))
    slices = [d for d, kd in enumerate(kinds_) if kd == "slice"]
    if separated:
        layout = ["pair"] + slices
    else:
        layout = [d for d in slices if d < grp[0]] + ["pair"] + [d for d in slices if d > grp[0]]
    selshape = tuple(m0 if e == "pair" else tests[e][2] for e in layout)
    def sel_of(idx):
        return tuple(coord([idx[d] for d in dims]) if e == "pair" else tests[e][1](idx[e]) for e in layout)
    if isinstance(value, ndarray):
        vshape, ia, ib = _bshape(selshape, value._shape)
        if len(vshape) != len(selshape):
            raise ValueError("could not broadcast input array")
        for s_out, s_in in zip(vshape, selshape):
            if (conc(s_out) is None and s_out is not s_in) or (conc(s_out) is not None and conc(s_out) != conc(s_in)):
                if not ctx().decide(zint(s_out) == zint(s_in), "assignment broadcast fits"):
                    raise ValueError("could not broadcast input array from shape into shape")
        fv = value.snapshot()
        newval = lambda idx: conv(fv(*ib(sel_of(idx))))
    else:
        tv = conv(_scalar_term(value))
        newval = lambda idx: tv
    def fn(*idx):
        others = [to_z3(tests[d][0](idx[d])) for d, kd in enumerate(kinds_) if kd in ("int", "slice")]
        mem = z3.And(others + [member([idx[d] for d in dims])])
        return z3.If(mem, newval(idx), old(*idx))
    buf.fn = fn


# --------------------------------------------------------------------------
# take / compress / concatenate / repeat / where / ix_
# --------------------------------------------------------------------------

def take(a, indices, axis=None, mode="raise", out=None):
    a = asarray(a)
    if axis is None:
        if a.ndim != 1:
            raise OutOfSubset("take on flattened N-d array")
        axis = 0
    axis = _norm_axis(axis, a.ndim)
    n = a._shape[axis]
    scalar = isinstance(indices, (int, SymInt)) and not isinstance(indices, bool)
    ix = asarray([indices]) if scalar else asarray(indices)
    if ix.ndim != 1:
        raise OutOfSubset("take with N-d indices")
    if ix.kind not in "iu":
        if conc(ix._shape[0]) == 0:
            ix = ndarray.from_fn(lambda i: z3.IntVal(0), (0,), "i", "int")
        else:
            raise TypeError("Cannot cast array data to integer indices")
    m = ix._shape[0]
    if mode == "clip":
        # NumPy: "cannot do a non-empty take from an empty axes."
        if not ctx().decide(z3.Or(zint(n) > 0, zint(m) == 0), "take(clip): axis non-empty or no indices"):
            raise IndexError("cannot do a non-empty take from an empty axes.")
    g = _int_index_array(ix, n, mode)
    fa = a.snapshot()
    def fn(*idx):
        src = idx[:axis] + (g(zint(idx[axis])),) + idx[axis + 1:]
        return fa(*src)
    shape = a._shape[:axis] + (m,) + a._shape[axis + 1:]
    r = ndarray.from_fn(fn, shape, a.kind, a.elem)
    if scalar:
        return r[(slice(None),) * axis + (0,)]
    return r


def compress(condition, a, axis=None):
    a = asarray(a)
    mask = asarray(condition)
    if axis is None:
        raise OutOfSubset("compress on flattened array")
    axis = _norm_axis(axis, a.ndim)
    pos = mask_positions(mask)
    return take(a, pos, axis=axis)


def concatenate(arrays, axis=0):
    arrays = [asarray(x) for x in arrays]
    if not arrays:
        raise ValueError("need at least one array to concatenate")
    nd = arrays[0].ndim
    axis = _norm_axis(axis, nd)
    for x in arrays[1:]:
        if x.ndim != nd:
            raise ValueError("all the input array dimensions must match")
        for d in range(nd):
            if d != axis and x._shape[d] is not arrays[0]._shape[d]:
                if not ctx().decide(zint(x._shape[d]) == zint(arrays[0]._shape[d]), "concatenate: other extents equal"):
                    raise ValueError("all the input array dimensions except for the concatenation axis must match exactly")
    kinds = [x.kind for x in arrays]
    kind, elem = arrays[0].kind, arrays[0].elem
    for x in arrays[1:]:
        if x.kind != kind:
            if {x.kind, kind} <= {"i", "f"}:
                kind, elem = "f", "real"
            elif conc(x.size) == 0 or conc(arrays[0].size) == 0:
                pass
            else:
                kind, elem = "O", elem if elem == x.elem else "py"
    fns = [x.snapshot() for x in arrays]
    sizes = [zint(x._shape[axis]) for x in arrays]
    total = z3.simplify(z3.Sum(sizes)) if len(sizes) > 1 else sizes[0]
    offs = [z3.IntVal(0)]
    for s in sizes[:-1]:
        offs.append(z3.simplify(offs[-1] + s))
    def fn(*idx):
        i = zint(idx[axis])
        def part(k):
            src = idx[:axis] + (i - offs[k],) + idx[axis + 1:]
            t = fns[k](*src)
            if elem == "real" and z3.is_expr(t) and z3.is_int(t):
                t = sym._toreal(t)
            return t
        t = part(len(fns) - 1)
        for k in range(len(fns) - 2, -1, -1):
            t = z3.If(i < offs[k] + sizes[k], part(k), t)
        return t
    ct = conc(total)
    shape = arrays[0]._shape[:axis] + (ct if ct is not None else total,) + arrays[0]._shape[axis + 1:]
    r = ndarray.from_fn(fn, shape, kind, elem)
    if nd == 1:
        loc = []
        for k, x in enumerate(arrays):
            if x.imap is None:
                loc.append((x, (lambda i, k=k: offs[k] + zint(i)), None, None))          # the part itself
                for src, where, guard, mask in x.buf.tags.get("located", ()):               # and what it was made from
                    loc.append((src, (lambda i, k=k, where=where: offs[k] + where(i)), guard, mask))
        r.buf.tags["located"] = loc
    return r


def repeat(a, n, axis=None):
    a = asarray(a)
    if axis is None:
        raise OutOfSubset("repeat without axis")
    axis = _norm_axis(axis, a.ndim)
    fa = a.snapshot()
    cn = conc(n)
    if cn is None:
        # repeating a singleton axis n (symbolic) times; "the extent is 1" may be a fact of the path rather than syntax
        if conc(a._shape[axis]) != 1 and not ctx().decide(zint(a._shape[axis]) == 1, "repeat: the axis is a singleton"):
            raise OutOfSubset("symbolic repeat count on a non-singleton axis")
        def fn(*idx):
            return fa(*(idx[:axis] + (0,) + idx[axis + 1:]))
        return ndarray.from_fn(fn, a._shape[:axis] + (_z(n),) + a._shape[axis + 1:], a.kind, a.elem)
    def fn(*idx):
        return fa(*(idx[:axis] + (zint(idx[axis]) / cn,) + idx[axis + 1:]))
    ext = a._shape[axis]
    newext = ext * cn if isinstance(ext, int) else z3.simplify(zint(ext) * cn)
    return ndarray.from_fn(fn, a._shape[:axis] + (newext,) + a._shape[axis + 1:], a.kind, a.elem)


def where(cond, *args):
    cond = asarray(cond)
    if args:
        x, y = args
        raise OutOfSubset("np.where(cond, x, y)")
    if cond.ndim != 1:
        raise OutOfSubset("np.where on N-d")
    if cond.kind != "b":
        raise OutOfSubset("np.where on non-boolean")
    return (mask_positions(cond),)


def nonzero(a):
    return where(a)


def ix_(*args):
    out = []
    n = len(args)
    for t, x in enumerate(args):
        x = asarray(x)
        if x.ndim != 1:
            raise ValueError("Cross index must be 1 dimensional")
        if x.kind == "b":
            x = mask_positions(x)
        f = x.snapshot()
        shape = tuple(x._shape[0] if u == t else 1 for u in range(n))
        r = ndarray.from_fn(lambda *idx, f=f, t=t: f(idx[t]), shape, x.kind, x.elem)
        if x.is_whole():
            r.buf.tags.update(x.buf.tags)
        out.append(r)
    return tuple(out)


# --------------------------------------------------------------------------
# reductions over booleans, comparisons as functions
# --------------------------------------------------------------------------

def all(a, axis=None, **kw):
    if isinstance(a, (bool, SymBool)):
        return a
    if isinstance(a, (list, tuple)) and builtins.all(isinstance(x, (bool, SymBool)) for x in a):
        return mkbool(sym.land(*a))
    a = asarray(a)
    if axis is not None:
        raise OutOfSubset("np.all(axis=)")
    if a.kind != "b":
        raise OutOfSubset("np.all of non-boolean")
    f = a.snapshot()
    return mkbool(_forall_nd(a._shape, lambda *i: f(*i)))


def any(a, axis=None, **kw):
    if isinstance(a, (bool, SymBool)):
        return a
    if axis == 0 and isinstance(a, (list, tuple)) and a and builtins.all(isinstance(x, ndarray) and x.kind == "b" for x in a):
        # np.any([mask1, mask2, ...], axis=0): elementwise OR of equally shaped masks
        out = a[0]
        for x in a[1:]:
            out = _elementwise2(out, x, "or")
        return out
    if isinstance(a, (list, tuple)) and builtins.all(isinstance(x, (bool, SymBool)) for x in a):
        return mkbool(sym.lor(*a))
    a = asarray(a)
    if axis is not None:
        raise OutOfSubset("np.any(axis=)")
    if a.kind != "b":
        raise OutOfSubset("np.any of non-boolean")
    f = a.snapshot()
    return mkbool(z3.Not(_forall_nd(a._shape, lambda *i: z3.Not(f(*i)))))


def greater(a, b): return _elementwise2(asarray(a), b, "gt")
def greater_equal(a, b): return _elementwise2(asarray(a), b, "ge")
def less(a, b): return _elementwise2(asarray(a), b, "lt")
def less_equal(a, b): return _elementwise2(asarray(a), b, "le")
def equal(a, b): return _elementwise2(asarray(a), b, "eq")
def not_equal(a, b): return _elementwise2(asarray(a), b, "ne")


def abs(a):
    if isinstance(a, SymNum):
        return a.__abs__()
    if isinstance(a, (int, float)):
        return builtins.abs(a)
    return asarray(a).__abs__()
absolute = abs


def isnan(a):
    if not isinstance(a, ndarray) and hasattr(a, "__array_wrap__") and hasattr(a, "values") and isinstance(a.values, ndarray):
        # NumPy's ufunc protocol for array-likes: compute on the array, hand the result to the object's __array_wrap__
        return a.__array_wrap__(isnan(a.values))
    if isinstance(a, ndarray):
        if a.elem != "real":
            if a.elem in ("int", "bool"):
                return full(a.shape, False, bool)
            raise TypeError("ufunc 'isnan' not supported for the input types")
        f = a.snapshot()
        return ndarray.from_fn(lambda *i: _isnan_f(f(*i)), a._shape, "b", "bool")
    if isinstance(a, SymReal):
        return mkbool(_isnan_f(a.t))
    if isinstance(a, float):
        return a != a
    if isinstance(a, (int, SymInt)):
        return False
    raise TypeError("ufunc 'isnan' not supported for the input types")


# --------------------------------------------------------------------------
# contracts with fresh symbols: searchsorted, argsort, sort, argmin/argmax,
# union1d, in1d/isin
# --------------------------------------------------------------------------

def _need_1d(a, what):
    a = asarray(a)
    if a.ndim != 1:
        raise OutOfSubset("%s on a non 1-D array" % what)
    return a


def _lt(x, y, strict):
    return (x < y) if strict else (x <= y)


def _nondecreasing(f, n):
    return forall2(0, n, lambda i, j: f(i) <= f(j))


def searchsorted(a, v, side="left", sorter=None):
    """contract: requires a (or a[sorter]) non-decreasing [proof obligation];
    ensures 0<=r<=n, a[k] < v (<= for side=right) for k<r, a[k] >= v (> for right) for k>=r."""
    a = _need_1d(a, "searchsorted")
    if side not in ("left", "right"):
        raise ValueError("side must be left or right")
    c = ctx()
    c.lib("searchsorted")
    n = a._shape[0]
    if a.elem == "py":
        raise OutOfSubset("searchsorted on python objects")
    # the facts below are quantified over positions of `a`: state them over a function symbol (see _named) so that
    # their triggers are g(k), not buf(n-1-k) when `a` is a reversed / strided view
    fa = a.snapshot()
    if sorter is not None:
        sorter = asarray(sorter)
        fs = sorter.snapshot()
        g = lambda k: fa(fs(k))
    else:
        g = fa
    c.prove("numpy.searchsorted:requires-sorted", _nondecreasing(g, n),
            "searchsorted is only specified on a non-decreasing array")
    strict = side == "left"
    aff = _AFFINE.get(id(a))
    reversed_whole = (sorter is None and aff is not None and aff[0] is a and aff[2] == -1 and conc(n) is None
                      and z3.is_true(z3.simplify(aff[1] == zint(n) - 1)))
    fbuf = a.buf.fn

    def facts(r, x):
        nt = zint(n)
        if reversed_whole:
            # a[k] == buf[n-1-k]: the same contract, re-indexed by w = n-1-k so that the quantified facts speak about
            # buf(w) directly:  k < r  <=>  w > n-1-r ;  k >= r  <=>  w <= n-1-r
            return [r >= 0, r <= nt,
                    forall(nt - r, nt, lambda w: _lt(fbuf(w), x, strict)),
                    forall(0, nt - r, lambda w: z3.Not(_lt(fbuf(w), x, strict)))]
        return [r >= 0, r <= nt,
                forall(0, r, lambda k: _lt(g(k), x, strict), dom=n),
                forall(r, nt, lambda k: z3.Not(_lt(g(k), x, strict)), dom=n)]
    def check_types(xe):
        if (a.elem == "str") != (xe == "str"):
            raise TypeError("'<' not supported between instances of 'str' and 'float'")
    if isinstance(v, (list, tuple, ndarray)):
        v = asarray(v)
        if v.ndim == 0:
            v = v.item()
    if isinstance(v, ndarray):
        if v.ndim != 1:
            raise OutOfSubset("searchsorted with N-d needle")
        if conc(v._shape[0]) != 0:
            check_types(v.elem)
        fv = v.snapshot()
        m = v._shape[0]
        cm = conc(m)
        if cm is not None:
            rs = [z3.Int(fresh_name("ss")) for _ in range(cm)]
            for j, r in enumerate(rs):
                c.add(*facts(r, fv(j)))
            return asarray([mkint(r) for r in rs]) if rs else ndarray.from_fn(lambda i: z3.IntVal(0), (0,), "i", "int")
        R = z3.Function(fresh_name("ssf"), z3.IntSort(), z3.IntSort())
        nt = zint(n)
        k = z3.Int(fresh_name("k"))
        c.add(forall(0, m, lambda j: z3.And(R(j) >= 0, R(j) <= nt)))
        j_ = z3.Int(fresh_name("j"))
        c.add(z3.ForAll([j_, k], z3.Implies(z3.And(0 <= j_, j_ < zint(m), 0 <= k, k < R(j_)), _lt(g(k), fv(j_), strict))))
        c.add(z3.ForAll([j_, k], z3.Implies(z3.And(0 <= j_, j_ < zint(m), R(j_) <= k, k < nt), z3.Not(_lt(g(k), fv(j_), strict)))))
        return ndarray.from_fn(lambda j: R(zint(j)), (m,), "i", "int")
    check_types(_elem_of_scalar(v))
    x = _scalar_term(v)
    if isinstance(x, (int, float, bool)):
        x = to_z3(x)
    r = z3.Int(fresh_name("ss"))
    c.add(*facts(r, x))
    return mkint(r)


def argsort(a, axis=-1, kind=None):
    a = _need_1d(a, "argsort")
    return _memo("argsort", a, lambda: _argsort(a))


def _argsort(a):
    """contract: a permutation p of [0,n) (explicit inverse q) with a[p] non-decreasing"""
    c = ctx()
    c.lib("argsort")
    n = a._shape[0]
    nt = zint(n)
    fa = a.snapshot()
    if a.elem == "py":
        raise OutOfSubset("argsort of python objects")
    cn = conc(n)
    p = z3.Function(fresh_name("argsort"), z3.IntSort(), z3.IntSort())
    q = z3.Function(fresh_name("argsort_inv"), z3.IntSort(), z3.IntSort())
    c.add(forall(0, nt, lambda i: z3.And(p(i) >= 0, p(i) < nt, q(p(i)) == i)))
    c.add(forall(0, nt, lambda i: z3.And(q(i) >= 0, q(i) < nt, p(q(i)) == i)))
    c.add(forall2(0, nt, lambda i, j: fa(p(i)) <= fa(p(j))))
    r = ndarray.from_fn(lambda i: p(zint(i)), (n,), "i", "int")
    r.buf.tags["inverse"] = ndarray.from_fn(lambda i: q(zint(i)), (n,), "i", "int")
    return r


def sort(a, axis=-1, kind=None):
    a = _need_1d(a, "sort")
    ctx().lib("sort")
    p = argsort(a)
    fa, fp = a.snapshot(), p.snapshot()
    return ndarray.from_fn(lambda i: fa(fp(i)), a._shape, a.kind, a.elem)


def _arg_extremum(a, axis, is_min):
    a = asarray(a)
    if a.ndim != 1 or (axis not in (None, 0, -1)):
        raise OutOfSubset("argmin/argmax on N-d")
    c = ctx()
    c.lib("argmin/argmax")
    n = a._shape[0]
    if not c.decide(zint(n) > 0, "argmin/argmax of a non-empty sequence"):
        raise ValueError("attempt to get argmin of an empty sequence")
    if a.elem not in ("int", "real"):
        raise TypeError("argmin/argmax not defined for this dtype")
    f = a.snapshot()
    m = z3.Int(fresh_name("argext"))
    nt = zint(n)
    le = (lambda x, y: x <= y) if is_min else (lambda x, y: x >= y)
    lt = (lambda x, y: x < y) if is_min else (lambda x, y: x > y)
    c.add(m >= 0, m < nt)
    c.add(forall(0, nt, lambda k: le(f(m), f(k))))
    c.add(forall(0, m, lambda k: lt(f(m), f(k))))     # first occurrence
    return mkint(m)


def argmin(a, axis=None, **kw):
    return _arg_extremum(a, axis, True)

def argmax(a, axis=None, **kw):
    return _arg_extremum(a, axis, False)


def _membership(a, b, name):
    """in1d contract: out[i] <=> exists j. a[i] == b[j], with witness w(i)"""
    a, b = _need_1d(a, name), _need_1d(b, name)
    c = ctx()
    c.lib("in1d/isin")
    fa, fb = a.snapshot(), b.snapshot()
    na, nb = a._shape[0], b._shape[0]
    cnb = conc(nb)
    if cnb is not None and cnb <= 8:
        return lambda i: z3.Or([_eq_terms(fa(i), fb(j)) for j in range(cnb)]) if cnb else z3.BoolVal(False)
    inb = z3.Function(fresh_name("in1d"), z3.IntSort(), z3.BoolSort())
    w = z3.Function(fresh_name("in1d_wit"), z3.IntSort(), z3.IntSort())
    nat, nbt = zint(na), zint(nb)
    ga, gb = _named(a), _named(b)          # function symbols: every trigger below is g(i) / g(j), free of index arithmetic
    key = (id(a.buf.fn), id(a.imap), id(b.buf.fn), id(b.imap))
    c.__dict__.setdefault("isin_witness", {})[key] = w
    c.__dict__.setdefault("isin_named", {})[key] = (ga, gb)
    c.add(forall(0, nat, lambda i: z3.Implies(inb(i), z3.And(w(i) >= 0, w(i) < nbt, ga(i) == gb(w(i))))))
    i_, j_ = z3.Int(fresh_name("i")), z3.Int(fresh_name("j"))
    c.add(z3.ForAll([i_, j_], z3.Implies(z3.And(0 <= i_, i_ < nat, 0 <= j_, j_ < nbt, ga(i_) == gb(j_)), inb(i_))))
    return lambda i: inb(zint(i))


def _named(arr):
    """A z3 function symbol f with f(k) == arr[k] on [0, n), for stating quantified axioms with a usable trigger.
    Arrays created directly from a function symbol (inputs, union1d / argsort / searchsorted results) carry it in
    tags["func"]; for a derived array (concatenate, take, boolean compress, views, ...) whose content is a compound
    term, a FRESH symbol is introduced together with its definitional axiom  forall k in [0,n): f(k) == content(k).
    That is a conservative definition (it constrains only the new symbol), not an assumption.  Memoized per content."""
    if arr.imap is None and "func" in arr.buf.tags and arr.buf.tags["func"][1] is arr.buf.fn:
        return arr.buf.tags["func"][0]
    c = ctx()
    memo = c.__dict__.setdefault("memo", {})
    key = ("named", id(arr.buf.fn), id(arr.imap))
    hit = memo.get(key)
    if hit is not None:
        return hit[0]
    srt = {"real": z3.RealSort(), "int": z3.IntSort(), "bool": z3.BoolSort(), "str": z3.IntSort()}[arr.elem]
    f = z3.Function(fresh_name("arr"), z3.IntSort(), srt)
    content = arr.snapshot()
    c.add(forall(0, arr._shape[0], lambda k: f(k) == content(k)))
    memo[key] = (f, arr, arr.buf.fn, arr.imap)
    c.lib("definitional naming of derived arrays")
    return f


def _same_content(x, y):
    return x.imap is None and y.imap is None and x.buf.fn is y.buf.fn


def _derive_members(a, b, mem):
    """b was built by library combinators that published where their source elements land.  Try to DERIVE
    "a[i] is a member of b" from the existing axioms.  Every lemma goes through ctx().prove_hint: it is used
    only after z3 has proved it from what is already known, and silently dropped otherwise."""
    b = asarray(b)
    located = b.buf.tags.get("located", ())
    if not located:
        return
    c = ctx()
    n = a._shape[0]
    fa, fb = a.snapshot(), b.snapshot()
    nbt = zint(b._shape[0])

    ga, gb = _named(a), _named(b)

    def lemma(i, cond, w):
        j = _view_position(b, w)
        if j is None:
            return None
        return z3.ForAll([i], z3.Implies(z3.And(0 <= i, i < zint(n), cond), z3.And(j >= 0, j < nbt, gb(j) == ga(i), mem(i))))

    for src, where, guard, mask in located:
        if not _same_content(src, a):
            continue
        i = z3.Int(fresh_name("i"))
        lm = lemma(i, guard(i) if guard is not None else z3.BoolVal(True), where(i))
        if lm is not None:
            c.prove_hint(lm)
        # the complement: the guard is `not isin(a, t)`, so an element that was dropped equals t[w(i)], and t itself
        # may be located in b (typically t is the first part of a concatenation)
        if mask is not None:
            info = mask.buf.tags.get("isin_of")
            if info is not None and info[2] and _same_content(info[0], a):
                t = info[1]
                wit = c.__dict__.get("isin_witness", {}).get((id(a.buf.fn), id(a.imap), id(t.buf.fn), id(t.imap)))
                for src2, where2, guard2, _m in located:
                    if wit is not None and guard2 is None and _same_content(src2, t):
                        i2 = z3.Int(fresh_name("i"))
                        lm2 = lemma(i2, z3.Not(guard(i2)), where2(wit(i2)))
                        if lm2 is not None:
                            c.prove_hint(lm2)
                        break


def _isin_pred(a, b):
    """the membership predicate of a in b -- one per (content of a, content of b) on a path"""
    c = ctx()
    memo = c.__dict__.setdefault("memo", {})
    key = ("isin", id(a.buf.fn), id(a.imap), id(b.buf.fn), id(b.imap))
    hit = memo.get(key)
    if hit is None:
        mem = _membership(a, b, "isin")
        hit = (mem, a, b, a.buf.fn, b.buf.fn, a.imap, b.imap)
        memo[key] = hit
        if conc(b._shape[0]) is None:
            _derive_members(a, b, mem)
    return hit[0]


def isin(a, b, assume_unique=False, invert=False):
    a, b = asarray(a), asarray(b)
    if a.ndim != 1 or b.ndim != 1:
        raise OutOfSubset("isin on non 1-D arrays")
    mem = _isin_pred(a, b)
    if invert:
        r = ndarray.from_fn(lambda i: z3.Not(mem(i)), a._shape, "b", "bool")
    else:
        r = ndarray.from_fn(lambda i: mem(i), a._shape, "b", "bool")
    r.buf.tags["isin_of"] = (a, b, invert)
    return r

# NOTE: np.in1d was removed in NumPy 2.4+; the shim mirrors the *installed* NumPy
# (checked by libcheck): it is only defined when /venv's NumPy has it.
_HAS_IN1D = False

# ---- NumPy's arithmetic ufuncs on DATA ------------------------------------------------------------------------------------
# np.add / subtract / multiply / true_divide / floor_divide / power, called as FUNCTIONS (dimarray's operation() does), are
# uninterpreted binary functions of the two cells -- NumPy's own, whatever it computes (inf, signed zeros, rounding) -- with
# one law: a NaN operand gives NaN (not for power: 1 ** nan == 1 and nan ** 0 == 1 in IEEE).  The operators + - * on arrays
# stay real arithmetic: they are what the library uses on LABELS.
_UFUNC2 = {}


def ufunc2_term(name, x, y):
    """the cell NumPy's binary ufunc `name` computes from the cells x and y"""
    if name not in _UFUNC2:
        _UFUNC2[name] = z3.Function("np." + name, z3.RealSort(), z3.RealSort(), z3.RealSort())
    F = _UFUNC2[name]
    c = ctx()
    cm = c.__dict__.setdefault("memo", {})
    if ("ufunc2", name) not in cm:
        cm[("ufunc2", name)] = True
        c.lib("ufunc/" + name)
        if name != "power":
            u, v = z3.Real("uf!x"), z3.Real("uf!y")
            c.add(z3.ForAll([u, v], z3.Implies(z3.Or(_isnan_f(u), _isnan_f(v)), _isnan_f(F(u, v))), patterns=[F(u, v)]))
        if name in ("add", "multiply"):
            u, v = z3.Real("uf!x"), z3.Real("uf!y")
            c.add(z3.ForAll([u, v], F(u, v) == F(v, u), patterns=[F(u, v)]))       # IEEE addition and multiplication commute
    # every NaN is the same operand: cells that are `same` (equal, or both NaN) give the same result
    zx, zy = sym._toreal(to_z3(x)), sym._toreal(to_z3(y))
    return F(z3.If(_isnan_f(zx), NAN, zx), z3.If(_isnan_f(zy), NAN, zy))


def _make_ufunc2(name):
    def f(a, b, out=None, **kw):
        if out is not None or kw:
            raise OutOfSubset("np.%s(out= / where= ...)" % name)
        a, b = _as_operand(a), _as_operand(b)
        if not isinstance(a, ndarray):
            a = _scalar_array(a)
        if not isinstance(b, ndarray):
            b = _scalar_array(b)
        for x in (a, b):
            if x.elem not in ("real", "int"):
                raise OutOfSubset("np.%s on %s data" % (name, x.elem))
        shape, ia, ib = _bshape(a._shape, b._shape)
        fa, fb = a.snapshot(), b.snapshot()
        fn = lambda *idx: ufunc2_term(name, fa(*ia(idx)), fb(*ib(idx)))
        if not shape:
            return _wrap_elem(fn(), "real")
        return ndarray.from_fn(fn, shape, "f", "real")
    f.__name__ = name
    return f


add = _make_ufunc2("add")
subtract = _make_ufunc2("subtract")
multiply = _make_ufunc2("multiply")
true_divide = _make_ufunc2("true_divide")
divide = true_divide
floor_divide = _make_ufunc2("floor_divide")
power = _make_ufunc2("power")


def percentile(a, q, axis=None, out=None, overwrite_input=False, **kw):
    """np.percentile: uninterpreted (relative to NumPy); one result per requested percentile, stacked along a new first axis
    when q is a sequence"""
    if out is not None or overwrite_input or kw:
        raise OutOfSubset("np.percentile(out= / overwrite_input= / method= ...)")
    if isinstance(q, (list, tuple)):
        qs = tuple(float(x) for x in q)
        if not builtins.all(conc(x) is not None or isinstance(x, float) for x in q):
            raise OutOfSubset("np.percentile with symbolic percentiles")
        return _along_axis("percentile", a, axis, {"q": qs}, lambda shape, ax: (len(qs),) + _drop(shape, ax))
    if isinstance(q, ndarray):
        raise OutOfSubset("np.percentile with an array of percentiles")
    if not isinstance(q, (int, float)):
        raise OutOfSubset("np.percentile with a symbolic percentile")
    return _along_axis("percentile", a, axis, {"q": float(q)}, _drop)


def invert(a):
    """np.invert: logical not on boolean arrays (bitwise inversion of integers is outside the subset)"""
    a = asarray(a)
    if a.elem != "bool":
        raise OutOfSubset("np.invert on non-boolean data")
    return ~a


logical_not = invert


def interp(x, xp, fp, left=None, right=None, period=None):
    """numpy.interp: an uninterpreted result, one cell per evaluation point (no fact is assumed about its values)"""
    if period is not None:
        raise OutOfSubset("np.interp(period=)")
    x, xp, fp = asarray(x), _need_1d(asarray(xp), "interp"), _need_1d(asarray(fp), "interp")
    ctx().lib("interp")
    g = z3.Function(fresh_name("np.interp"), *([z3.IntSort()] * builtins.max(x.ndim, 1) + [z3.RealSort()]))
    if x.ndim == 0:
        return _wrap_elem(g(z3.IntVal(0)), "real")
    return ndarray.from_fn(lambda *i: g(*[zint(k) for k in i]), x._shape, "f", "real")


# ---- function spellings of array methods and operators (a refactoring between the two spellings is not a change of behaviour)
def reshape(a, shape=None, order="C", **kw):
    if shape is None:
        shape = kw.pop("newshape")
    return asarray(a).reshape(shape, order=order)


def transpose(a, axes=None):
    a = asarray(a)
    return a.transpose() if axes is None else a.transpose(axes)


def swapaxes(a, axis1, axis2):
    return asarray(a).swapaxes(axis1, axis2)


def squeeze(a, axis=None):
    return asarray(a).squeeze(axis)


def ravel(a, order="C"):
    return asarray(a).ravel(order)


def copy(a, order="K"):
    return asarray(a).copy()


def expand_dims(a, axis):
    a = asarray(a)
    ax = _norm_axis(conc_req(axis), a.ndim + 1)
    return a[tuple([slice(None)] * ax + [None] + [slice(None)] * (a.ndim - ax))]


def moveaxis(a, source, destination):
    a = asarray(a)
    src, dst = _norm_axis(conc_req(source), a.ndim), _norm_axis(conc_req(destination), a.ndim)
    order = [k for k in range(a.ndim) if k != src]
    order.insert(dst, src)
    return a.transpose(order)


def array_equal(a, b, equal_nan=False):
    if equal_nan:
        raise OutOfSubset("np.array_equal(equal_nan=True)")
    a, b = asarray(a), asarray(b)
    if a.ndim != b.ndim:
        return False
    for x, y in zip(a._shape, b._shape):
        if not _same_extent(x, y):
            if not ctx().decide(zint(x) == zint(y), "array_equal: extents equal"):
                return False
    return all(a == b)


def logical_and(a, b):
    return asarray(a) & asarray(b)


def logical_or(a, b):
    return asarray(a) | asarray(b)


asanyarray = asarray


def atleast_1d(a):
    a = asarray(a)
    return a if a.ndim >= 1 else a[None]


def full_like(a, v, dtype=None):
    a = asarray(a)
    return full(a.shape, v, dtype)


def isfinite(a):
    # (floats are reals plus NaN in this model: no infinities)
    return ~isnan(a) if isinstance(a, ndarray) else (not isnan(a))


def count_nonzero(a, axis=None):
    a = asarray(a)
    if a.elem != "bool":
        raise OutOfSubset("np.count_nonzero on non-boolean data")
    return a.sum(axis=axis)


def stack(arrays, axis=0):
    r = _from_list(builtins.list(arrays))
    return r if conc_req(axis) == 0 else moveaxis(r, 0, axis)


def isclose(a, b, rtol=1e-05, atol=1e-08, equal_nan=False):
    """|a - b| <= atol + rtol * |b| cell by cell (NaN is close to nothing) -- linear, rtol and atol being numerals"""
    a, b = _as_operand(a), _as_operand(b)
    if not isinstance(a, ndarray):
        a = _scalar_array(a)
    if not isinstance(b, ndarray):
        b = _scalar_array(b)
    if a.elem not in ("real", "int") or b.elem not in ("real", "int") or equal_nan:
        raise OutOfSubset("np.isclose on non-numeric data / equal_nan")
    shape, ia, ib = _bshape(a._shape, b._shape)
    fa, fb = a.snapshot(), b.snapshot()
    rt, at = z3.RealVal(repr(float(rtol))), z3.RealVal(repr(float(atol)))
    def fn(*idx):
        x, y = sym._toreal(fa(*ia(idx))), sym._toreal(fb(*ib(idx)))
        d, m = z3.If(x >= y, x - y, y - x), z3.If(y >= 0, y, -y)
        return z3.And(z3.Not(_isnan_f(x)), z3.Not(_isnan_f(y)), d <= at + rt * m)
    if not shape:
        return mkbool(fn())
    return ndarray.from_fn(fn, shape, "b", "bool")


def allclose(a, b, rtol=1e-05, atol=1e-08, equal_nan=False):
    return all(isclose(a, b, rtol=rtol, atol=atol, equal_nan=equal_nan))


class errstate(object):
    def __init__(self, **kw):
        pass

    def __enter__(self):
        return self

    def __exit__(self, *a):
        return False


def _make_ufunc1(name):
    F = {}
    def f(a, out=None, **kw):
        if out is not None or kw:
            raise OutOfSubset("np.%s(out= ...)" % name)
        if name not in F:
            F[name] = z3.Function("np." + name, z3.RealSort(), z3.RealSort())
        G = F[name]
        def term(t):
            t = sym._toreal(to_z3(t))
            return G(z3.If(_isnan_f(t), NAN, t))
        ctx().lib("ufunc/" + name)
        if isinstance(a, ndarray):
            if a.elem not in ("real", "int"):
                raise TypeError("ufunc '%s' not supported for the input types" % name)
            fa = a.snapshot()
            return ndarray.from_fn(lambda *i: term(fa(*i)), a._shape, "f", "real")
        return _wrap_elem(term(a), "real")
    f.__name__ = name
    return f


sqrt = _make_ufunc1("sqrt")
exp = _make_ufunc1("exp")
log = _make_ufunc1("log")
floor = _make_ufunc1("floor")
ceil = _make_ufunc1("ceil")
sign = _make_ufunc1("sign")


def __getattr__(name):
    if name == "in1d" and _HAS_IN1D:
        return isin
    raise AttributeError("module 'numpy' has no attribute %r" % name)


def union1d(a, b):
    """contract: strictly increasing, set-equal to a U b (witness functions both ways)"""
    a, b = _need_1d(a, "union1d"), _need_1d(b, "union1d")
    c = ctx()
    c.lib("union1d")
    fa, fb = a.snapshot(), b.snapshot()
    na, nb = zint(a._shape[0]), zint(b._shape[0])
    if a.elem == "py" or b.elem == "py":
        raise OutOfSubset("union1d of python objects")
    elem = a.elem if a.elem == b.elem else "real"
    kind = a.kind if a.kind == b.kind else "f"
    conv = (lambda t: sym._toreal(t)) if elem == "real" else (lambda t: t)
    srt = z3.RealSort() if elem == "real" else z3.IntSort()
    m = z3.Int(fresh_name("nunion"))
    u = z3.Function(fresh_name("union"), z3.IntSort(), srt)
    wa = z3.Function(fresh_name("union_ofa"), z3.IntSort(), z3.IntSort())   # a[i] == u[wa(i)]
    wb = z3.Function(fresh_name("union_ofb"), z3.IntSort(), z3.IntSort())
    src = z3.Function(fresh_name("union_src"), z3.IntSort(), z3.IntSort())  # u[k] comes from a (src>=0: index) or b (src<0: -1-index)
    c.add(m >= 0, m <= na + nb)
    dom_u = None
    if conc(a._shape[0]) is not None and conc(b._shape[0]) is not None:
        dom_u = conc(a._shape[0]) + conc(b._shape[0])
    c.add(forall2(0, m, lambda i, j: u(i) < u(j), dom=dom_u))
    c.add(forall(0, na, lambda i: z3.And(wa(i) >= 0, wa(i) < m, u(wa(i)) == conv(fa(i)))))
    c.add(forall(0, nb, lambda i: z3.And(wb(i) >= 0, wb(i) < m, u(wb(i)) == conv(fb(i)))))
    c.add(forall(0, m, lambda k: z3.Or(z3.And(src(k) >= 0, src(k) < na, u(k) == conv(fa(src(k)))),
                                       z3.And(src(k) < 0, -1 - src(k) < nb, u(k) == conv(fb(-1 - src(k))))), dom=dom_u))
    r = ndarray.from_fn(lambda k: u(zint(k)), (m,), kind, elem)
    r.buf.tags["func"] = (u, r.buf.fn)
    r.buf.tags["located"] = [(a, (lambda i: wa(zint(i))), None, None), (b, (lambda i: wb(zint(i))), None, None)]
    return r


def unique(a, **kw):
    if kw:
        raise OutOfSubset("np.unique with options")
    return union1d(a, a)


def prod(a, axis=None, **kw):
    if isinstance(a, (list, tuple)):
        return _product(list(a))
    raise OutOfSubset("np.prod of a symbolic array")


# ---- row-major reshape ---------------------------------------------------------------------------------------------------
# NumPy's reshape keeps the row-major (C) order of the cells.  dimarray only ever merges a run of adjacent dimensions into one
# (flatten) or splits one dimension into a run (unflatten); the model recognises exactly those two, structurally, from the
# FACTORS of the extents: an extent computed as a product (np.prod([n0, n1]) or n0 * n1) remembers its factors.  The merged
# position of (i, j) is pair(i, j) -- i * n1 + j, written as arithmetic when n1 is a numeral and as an uninterpreted bijection
# [0,n0) x [0,n1) <-> [0,n0*n1) with its inverse (fst, snd) otherwise, so that no nonlinear arithmetic reaches the solver.
_PRODUCTS = {}      # id of the z3 term of an extent -> (term, [factor terms])


def _product(factors):
    fs = [f for f in factors]
    cs = [conc(f) for f in fs]
    if builtins.all(c is not None for c in cs):
        r = 1
        for c in cs:
            r *= c
        return r
    if len(fs) == 1:
        return _ext(fs[0])
    t = zint(fs[0])
    for f in fs[1:]:
        t = t * zint(f)
    t = z3.simplify(t)
    if t.get_id() not in _PRODUCTS:
        _PRODUCTS[t.get_id()] = (t, [zint(f) for f in fs])
    c = ctx()
    cm = c.__dict__.setdefault("memo", {})
    key = ("product-facts", t.get_id())
    if key not in cm:
        cm[key] = True
        zs = [zint(f) for f in fs]
        c.add(t >= 0, (t == 0) == z3.Or(*[z == 0 for z in zs]))
        if len(zs) == 2:
            a_, b_ = zs
            c.add(z3.Implies(b_ >= 1, t >= a_), z3.Implies(a_ >= 1, t >= b_), z3.Implies(a_ == 1, t == b_), z3.Implies(b_ == 1, t == a_))
    return mkint(t)


def _factors_of(x):
    """the factors of an extent that was computed as a product, as a MULTISET (z3 normalises the order of a product's
    arguments, so n1*n0 and n0*n1 are one term): which dimension comes first is read off the array being reshaped"""
    t = zint(x) if not isinstance(x, int) else None
    if t is None:
        return None
    t = z3.simplify(t)
    e = _PRODUCTS.get(t.get_id())
    return e[1] if e is not None and e[0].eq(t) else None


def _same_multiset(xs, ys):
    ys = list(ys)
    for x in xs:
        for k, y in enumerate(ys):
            if _same_extent(x, y):
                del ys[k]
                break
        else:
            return False
    return not ys


def _same_extent(x, y):
    cx, cy = conc(x), conc(y)
    if cx is not None and cy is not None:
        return cx == cy
    zx, zy = z3.simplify(zint(x)), z3.simplify(zint(y))
    if zx.eq(zy):
        return True
    # extents that went through slicing arithmetic (If(n <= 0, 0, n) ...): equal if the path's facts say so
    return bool(ctx().implied(zx == zy))


def pairing(n0, n1):
    """-> (pair, fst, snd) for the row-major merge of extents (n0, n1)"""
    c1 = conc(n1)
    if c1 is not None:
        if c1 == 0:
            return (lambda i, j: z3.IntVal(0)), (lambda g: z3.IntVal(0)), (lambda g: z3.IntVal(0))
        return (lambda i, j: zint(i) * c1 + zint(j)), (lambda g: zint(g) / c1), (lambda g: zint(g) % c1)
    c = ctx()
    z0, z1 = z3.simplify(zint(n0)), z3.simplify(zint(n1))
    cm = c.__dict__.setdefault("memo", {})
    key = ("pairing", z0.get_id(), z1.get_id())
    if key not in cm:
        # the same extents written differently (n and If(n <= 0, 0, n) after slicing arithmetic) share ONE pairing
        for k2, v2 in list(cm.items()):
            if isinstance(k2, tuple) and k2 and k2[0] == "pairing" and c.implied(z3.And(v2[3] == z0, v2[4] == z1)):
                cm[key] = v2
                break
    if key not in cm:
        k = len([x for x in cm if isinstance(x, tuple) and x and x[0] == "pairing"])
        pair = z3.Function("rowmajor!%d" % k, z3.IntSort(), z3.IntSort(), z3.IntSort())
        fst = z3.Function("rowmajor!%d.fst" % k, z3.IntSort(), z3.IntSort())
        snd = z3.Function("rowmajor!%d.snd" % k, z3.IntSort(), z3.IntSort())
        N = zint(_product([z0, z1]))
        i, j, g = z3.Int("rm!i"), z3.Int("rm!j"), z3.Int("rm!g")
        c.lib("reshape/row-major-pairing")
        c.add(z3.ForAll([i, j], z3.Implies(z3.And(0 <= i, i < z0, 0 <= j, j < z1),
                                          z3.And(fst(pair(i, j)) == i, snd(pair(i, j)) == j, 0 <= pair(i, j), pair(i, j) < N)),
                        patterns=[pair(i, j)]))
        c.add(z3.ForAll([g], z3.Implies(z3.And(0 <= g, g < N),
                                       z3.And(0 <= fst(g), fst(g) < z0, 0 <= snd(g), snd(g) < z1, pair(fst(g), snd(g)) == g)),
                        patterns=[fst(g), snd(g)]))
        cm[key] = (pair, fst, snd, z0, z1)
    pair, fst, snd = cm[key][:3]
    return (lambda a_, b_: pair(zint(a_), zint(b_))), (lambda g_: fst(zint(g_))), (lambda g_: snd(zint(g_)))


def rowmajor(idx, sizes):
    """position of the coordinate `idx` in the row-major merge of dimensions of extents `sizes` (left-nested pairing)"""
    g, n = idx[0], sizes[0]
    for k in range(1, len(idx)):
        pair, _, _ = pairing(n, sizes[k])
        g = pair(g, idx[k])
        n = _product([n, sizes[k]])
    return g


def unrowmajor(g, sizes):
    """the coordinate whose row-major position among extents `sizes` is g"""
    prefix = [sizes[0]]
    for k in range(1, len(sizes)):
        prefix.append(_product([prefix[-1], sizes[k]]))
    out = []
    for k in range(len(sizes) - 1, 0, -1):
        _, fst, snd = pairing(prefix[k - 1], sizes[k])
        out.append(snd(g))
        g = fst(g)
    out.append(zint(g))
    return out[::-1]


def _reshape(a, shape):
    new = []
    for s_ in shape:
        cs = conc(s_)
        new.append(cs if cs is not None else z3.simplify(zint(s_)))
    if builtins.any(isinstance(x, int) and x < 0 for x in new):
        if len(new) == 1 and a.ndim >= 1:
            new = [_raw(_product(list(a._shape)))]        # reshape(-1): ravel
        else:
            raise OutOfSubset("reshape with -1 among several extents")
    old = list(a._shape)
    f = a.snapshot()
    plan = []
    i = j = 0
    while i < len(old) or j < len(new):
        if i < len(old) and j < len(new) and _same_extent(old[i], new[j]):
            plan.append(("keep", i, j, 1)); i += 1; j += 1
            continue
        fs = _factors_of(new[j]) if j < len(new) else None
        if fs is not None and len(fs) <= len(old) - i and _same_multiset(old[i:i + len(fs)], fs):
            plan.append(("merge", i, j, len(fs))); i += len(fs); j += 1
            continue
        fs = _factors_of(old[i]) if i < len(old) else None
        if fs is not None and len(fs) <= len(new) - j and _same_multiset(new[j:j + len(fs)], fs):
            plan.append(("split", i, j, len(fs))); i += 1; j += len(fs)
            continue
        if builtins.all(isinstance(x, int) for x in old + new):
            return _reshape_concrete(a, f, old, new)
        raise OutOfSubset("reshape %r -> %r: neither a merge of adjacent dimensions nor a split of one" % (old, new))
    def fn(*idx):
        src = [None] * len(old)
        for kind_, i_, j_, k_ in plan:
            if kind_ == "keep":
                src[i_] = idx[j_]
            elif kind_ == "merge":
                for t, v in enumerate(unrowmajor(idx[j_], old[i_:i_ + k_])):
                    src[i_ + t] = v
            else:
                src[i_] = rowmajor(list(idx[j_:j_ + k_]), new[j_:j_ + k_])
        return f(*src)
    ctx().lib("reshape/row-major")
    return ndarray.from_fn(fn, tuple(new), a.kind, a.elem)


def _raw(x):
    c = conc(x)
    return c if c is not None else z3.simplify(zint(x))


def _reshape_concrete(a, f, old, new):
    """all extents are numerals: the general row-major rule, as arithmetic with constant strides"""
    tot_o = tot_n = 1
    for x in old:
        tot_o *= x
    for x in new:
        tot_n *= x
    if tot_o != tot_n:
        raise ValueError("cannot reshape array of size %d into shape %r" % (tot_o, tuple(new)))
    def fn(*idx):
        flat = z3.IntVal(0)
        for x, n_ in zip(idx, new):
            flat = flat * n_ + zint(x)
        src = []
        for n_ in reversed(old):
            if n_ == 0:
                src.append(z3.IntVal(0))
            else:
                src.append(flat % n_)
                flat = flat / n_
        return f(*reversed(src))
    ctx().lib("reshape/row-major")
    return ndarray.from_fn(fn, tuple(new), a.kind, a.elem)


_NO_AXIS = object()


def diff(a, n=1, axis=_NO_AXIS, **kw):
    a = asarray(a)
    if axis is not _NO_AXIS:
        if axis is None:
            raise OutOfSubset("np.diff(axis=None)")
        nn = conc_req(n)
        def rule(shape, ax):
            e = shape[ax]
            ne = builtins.max(e - nn, 0) if isinstance(e, int) else z3.simplify(z3.If(zint(e) >= nn, zint(e) - nn, 0))
            return tuple(ne if k == ax else s_ for k, s_ in enumerate(shape))
        # NumPy's n-th difference IS the first difference applied n times (its own definition), so np.diff(a, n=2) and
        # np.diff(np.diff(a)) are the same term here: a refactoring between the two is not a change of behaviour
        nn_total, nn = nn, 1
        r = a
        for _ in range(nn_total):
            r = _along_axis("diff", r, axis, {}, rule)
        return r
    axis = -1
    if a.ndim == 1 and n == 1 and a.elem in ("int", "real"):
        f = a.snapshot()
        m = a._shape[0]
        newm = (builtins.max(m - 1, 0)) if isinstance(m, int) else z3.simplify(z3.If(zint(m) > 0, zint(m) - 1, 0))
        return ndarray.from_fn(lambda i: f(zint(i) + 1) - f(i), (newm,), a.kind, a.elem)
    raise OutOfSubset("np.diff on data arrays")


class _IndexExp(object):
    def __getitem__(self, item):
        return item if isinstance(item, tuple) else (item,)
index_exp = _IndexExp()


class _MA(object):
    class MaskedArray(object):
        pass
    masked_array = MaskedArray
ma = _MA()

integer_types = (int, SymInt)




# --------------------------------------------------------------------------
# reductions, cumulative functions, diff along an axis -- RELATIVE TO NUMPY
# --------------------------------------------------------------------------
# The properties say "equals NumPy's f along that axis".  These functions are therefore uninterpreted: np_f(content, axis,
# kwargs) is a fresh function symbol, memoized on the array CONTENT, the axis and the keyword arguments, with only its shape
# law.  The same call on the same content gives the same symbols (on the code side and on the spec side); a different function,
# array, axis or keyword gives different symbols, about which nothing can be proved.

_REDUCERS = {}          # name -> (result elem for real input, keeps_int)


def _np_name(name):
    return name


def _result_elem(name, a):
    base = name[3:] if name.startswith("nan") else name
    if base in ("all", "any"):
        return "b", "bool"
    if base in ("argmin", "argmax"):
        return "i", "int"
    if base in ("mean", "var", "std", "median", "percentile"):
        return "f", "real"
    if a.elem == "int":
        return "i", "int"
    if a.elem == "bool":
        return ("i", "int") if base in ("sum", "prod", "cumsum", "cumprod") else ("b", "bool")
    return "f", "real"


def _along_axis(name, a, axis, kw, shape_rule):
    a = asarray(a)
    if a.elem in ("str", "py"):
        raise TypeError("cannot perform %s on this dtype" % name)
    kw = {k: v for k, v in kw.items() if v is not None and k not in ("out",)}
    for k, v in kw.items():
        if not isinstance(v, (int, float, bool, str)) and not (isinstance(v, tuple) and builtins.all(isinstance(x, (int, float)) for x in v)):
            raise OutOfSubset("np.%s(%s=%r)" % (name, k, v))
    c = ctx()
    c.lib("np.%s (uninterpreted, relative to NumPy)" % name)
    kind, elem = _result_elem(name, a)
    srt = {"real": z3.RealSort(), "int": z3.IntSort(), "bool": z3.BoolSort()}[elem]
    if axis is not None:
        axis = _norm_axis(axis, a.ndim)
    out_shape = shape_rule(a._shape, axis)
    memo = c.__dict__.setdefault("memo", {})
    key = ("np." + name, id(a.buf.fn), id(a.imap), axis, tuple(sorted(kw.items())))
    hit = memo.get(key)
    if hit is None:
        nm = fresh_name("np_" + name)
        if out_shape:
            F = z3.Function(nm, *([z3.IntSort()] * len(out_shape) + [srt]))
            content = (lambda *i, F=F: F(*[zint(k) for k in i]))      # ONE closure per call signature: results of repeated
        else:                                                          # identical calls have identical content identity
            F = z3.Const(nm, srt)
            content = None
        hit = (F, a, a.buf.fn, a.imap, content)
        memo[key] = hit
    F, content = hit[0], hit[4]
    base = name[3:] if name.startswith("nan") else name
    if base in ("argmin", "argmax") and axis is not None:
        # range law: the positions returned along an axis lie in [0, extent of that axis)
        ext = zint(a._shape[axis])
        if out_shape:
            c.add(_forall_nd(out_shape, lambda *ix: z3.And(F(*ix) >= 0, F(*ix) < ext)))
        else:
            c.add(F >= 0, F < ext)
    if base == "sum" and a.elem == "bool" and axis is not None and out_shape and ("boolsum", key) not in memo:
        # counting law for the sum of a boolean array along an axis (what dropna's threshold test needs at its two ends):
        # 0 <= count <= extent; count == 0 iff no cell is true; count == extent iff every cell is true (witnesses otherwise)
        memo[("boolsum", key)] = True
        ext = zint(a._shape[axis])
        fa = a.snapshot()
        w0 = z3.Function(fresh_name("np_sum.some_true"), *([z3.IntSort()] * len(out_shape) + [z3.IntSort()]))
        w1 = z3.Function(fresh_name("np_sum.some_false"), *([z3.IntSort()] * len(out_shape) + [z3.IntSort()]))
        def full(ix, i):
            ix = list(ix)
            return tuple(ix[:axis] + [i] + ix[axis:])
        c.add(_forall_nd(out_shape, lambda *ix: z3.And(
            F(*ix) >= 0, F(*ix) <= ext,
            z3.Implies(F(*ix) > 0, z3.And(w0(*ix) >= 0, w0(*ix) < ext, fa(*full(ix, w0(*ix))))),
            z3.Implies(F(*ix) < ext, z3.And(w1(*ix) >= 0, w1(*ix) < ext, z3.Not(fa(*full(ix, w1(*ix)))))))))
        full_shape = list(a._shape)
        if builtins.all(conc(s_) is not None for s_ in full_shape):
            c.add(_forall_nd(full_shape, lambda *jx: z3.And(
                z3.Implies(F(*(list(jx[:axis]) + list(jx[axis + 1:]))) == 0, z3.Not(fa(*jx))),
                z3.Implies(F(*(list(jx[:axis]) + list(jx[axis + 1:]))) == ext, fa(*jx)))))
        else:
            vs = [z3.Int(fresh_name("q")) for _ in full_shape]
            rng = z3.And([z3.And(v >= 0, v < zint(s_)) for v, s_ in zip(vs, full_shape)])
            cellt = to_z3(fa(*vs))
            Fi = F(*(vs[:axis] + vs[axis + 1:]))
            body = z3.Implies(rng, z3.And(z3.Implies(Fi == 0, z3.Not(cellt)), z3.Implies(Fi == ext, cellt)))
            # instantiate on the CELL (whenever a cell of the mask is mentioned), not on whatever z3 would pick
            pats = [cellt] if z3.is_app(cellt) and cellt.decl().kind() == z3.Z3_OP_UNINTERPRETED else []
            c.add(z3.ForAll(vs, body, patterns=pats) if pats else z3.ForAll(vs, body))
    if base in ("argmin", "argmax") and axis is None and a.ndim >= 1:
        # range law for the flattened form: a position among all the cells
        c.add(F >= 0, F < zint(_product(list(a._shape))))
    if not out_shape:
        return _wrap_elem(F, elem)           # NumPy returns a scalar, not a 0-d array
    return ndarray.from_fn(content, out_shape, kind, elem)


def _drop(shape, axis):
    return () if axis is None else tuple(s_ for k, s_ in enumerate(shape) if k != axis)


def _keep(shape, axis):
    if axis is None:
        n = 1
        for s_ in shape:
            n = n * (s_ if isinstance(s_, int) else zint(s_))
        return (z3.simplify(n) if z3.is_expr(n) else n,)
    return tuple(shape)


def _make_reducer(name, rule):
    def f(a, axis=None, **kw):
        if name == "prod" and isinstance(a, (list, tuple)) and builtins.all(isinstance(x, (int, SymInt)) or (z3.is_expr(x) and z3.is_int(x)) for x in a):
            return _product(list(a))         # np.prod of a list of extents: a product that remembers its factors
        if kw.pop("keepdims", False):
            raise OutOfSubset("keepdims")
        if name == "sum" and axis in (None, 0, -1) and not kw:
            arr = asarray(a)
            if arr.ndim == 1 and arr.elem in ("bool", "int") and conc(arr._shape[0]) is not None and conc(arr._shape[0]) <= 8:
                # the sum of a few booleans / integers is exact arithmetic (a count of Python-level flags, typically)
                fa = arr.snapshot()
                total = z3.IntVal(0)
                for kk in range(conc(arr._shape[0])):
                    t = to_z3(fa(kk))
                    total = total + (z3.If(t, 1, 0) if z3.is_bool(t) else t)
                return mkint(z3.simplify(total))
        return _along_axis(name, a, axis, kw, rule)
    f.__name__ = name
    return f


for _n in ("sum", "prod", "mean", "var", "std", "min", "max", "ptp", "all", "any", "median", "argmin", "argmax",
           "nansum", "nanprod", "nanmean", "nanvar", "nanstd", "nanmin", "nanmax", "nanmedian", "nanargmin", "nanargmax"):
    if _n in ("argmin", "argmax", "all", "any"):
        continue
    globals()[_n] = _make_reducer(_n, _drop)
for _n in ("cumsum", "cumprod", "nancumsum", "nancumprod"):
    globals()[_n] = _make_reducer(_n, _keep)
amin, amax = min, max

_argext_1d = _arg_extremum
_all_bool, _any_bool = all, any


def _nd_or_special(name, special):
    red = _make_reducer(name, _drop)
    def f(a, axis=None, **kw):
        x = a if not isinstance(a, (list, tuple)) or builtins.all(isinstance(t, (bool, SymBool)) for t in a) else a
        arr = asarray(a) if not isinstance(a, (bool, SymBool)) and not (isinstance(a, (list, tuple)) and builtins.all(isinstance(t, (bool, SymBool, ndarray)) for t in a)) else None
        if arr is not None and arr.ndim >= 1 and axis is not None and arr.ndim > 1:
            return red(arr, axis=axis, **kw)
        return special(a, axis=axis, **kw)
    f.__name__ = name
    return f


def _argmin_nd(a, axis=None, **kw):
    a = asarray(a)
    if a.ndim == 1 and axis in (None, 0, -1):
        return _argext_1d(a, axis, True)
    return _make_reducer("argmin", _drop)(a, axis=axis, **kw)


def _argmax_nd(a, axis=None, **kw):
    a = asarray(a)
    if a.ndim == 1 and axis in (None, 0, -1):
        return _argext_1d(a, axis, False)
    return _make_reducer("argmax", _drop)(a, axis=axis, **kw)


_argmin_nd.__name__, _argmax_nd.__name__ = "argmin", "argmax"
argmin, argmax = _argmin_nd, _argmax_nd


def _all_nd(a, axis=None, **kw):
    if isinstance(a, ndarray) and (axis is not None or a.kind != "b"):
        return _make_reducer("all", _drop)(a, axis=axis, **kw)
    return _all_bool(a, axis=axis, **kw)


def _any_nd(a, axis=None, **kw):
    if isinstance(a, ndarray) and (axis is not None or a.kind != "b"):
        return _make_reducer("any", _drop)(a, axis=axis, **kw)
    return _any_bool(a, axis=axis, **kw)


_all_nd.__name__, _any_nd.__name__ = "all", "any"
all, any = _all_nd, _any_nd


def unravel_index(index, shape):
    """np.unravel_index of ONE flat position (row-major): the coordinate whose row-major position is `index`"""
    if isinstance(index, ndarray):
        raise OutOfSubset("np.unravel_index of an array of positions")
    shape = [_raw(s_) for s_ in shape]
    if len(shape) == 1:
        return (mkint(zint(index)),)
    ctx().lib("reshape/row-major")
    return tuple(mkint(t) for t in unrowmajor(zint(index), shape))
