"""Contract base class -- importable both by the prover (python3-vt) and the native runner (/venv)."""


class Contract(object):
    """Base class of sidecar contracts.  One instance per repository function."""
    target = None            # "dimarray.core.indexing:locate_slice"
    props = ()               # property ids served
    inlined = ()             # helpers executed in place (verified as part of this function)
    uses = ()                # callee contracts used instead of bodies
    bound_names = ()         # names of symbolic lengths, enumerated in bounded mode
    max_paths = 400
    bounded_clauses = ()     # names of post clauses that are NOT proved symbolically: they are carried by the bounded
                             # stand-in only (native enumeration over a stated family).  The symbolic engine never
                             # evaluates them, callers that use this contract as a stub never assume them, and they are
                             # reported separately from the discharged obligations.  Yield them as (name, lambda: formula).
    def bounded_obligations(self, case):
        """names (post-clause names, or prefixes of engine-generated names such as "raises[IndexError]") of the obligations
        of `case` that are decided by the bounded stand-in only.  Default: bounded_clauses."""
        if self.native_only:
            return ("<every clause of this contract>",)
        return tuple(self.bounded_clauses)

    native_only = False      # True: the function is outside the symbolic engine's reach altogether (data-dependent helpers,
                             # numpy.ma ...).  No symbolic pass is made; EVERY clause is decided by the bounded stand-in (native
                             # enumeration), reported as bounded and never counted as discharged.
    chain_post = False       # True: a post clause discharged on a path is available as a fact to the LATER clauses of
                             # that path (lemma first, corollaries after).  Sound: it is only added once proved, under
                             # the same assumptions.  Never applies to canaries or to clauses that were not discharged.

    def cases(self, tier):
        yield {"name": "default"}

    def setup(self, S, case):
        raise NotImplementedError

    def call(self, fn, env):
        return fn(*env.get("args", ()), **env.get("kwargs", {}))

    def post(self, S, case, env, result):
        return ()

    def raises(self, S, case, env):
        """{ExceptionType: condition}: the exception is raised if and only if the condition holds.
        A condition may also be a pair (must, may): raising is REQUIRED where `must` holds, ALLOWED where `may` holds
        (must => may), and forbidden elsewhere -- for corners the property statement leaves open."""
        return {}

    def post_exc(self, S, case, env, exc):
        return ()

    def canaries(self, S, case, env, result):
        return ()

    region_behaviour = {}    # {tag: ExceptionType}: what the real function does inside a known region (what the recorded
                             # finding observed).  A caller verified against this contract sees exactly that behaviour there:
                             # the contract's own clauses are not proved inside the region and must not be relied on.

    def known_regions(self, S, case, env):
        """{tag: condition over the inputs} -- input regions in which a recorded, open finding lives.  A failed
        obligation is renamed `<name>@<tag>` only when the failing path's own facts IMPLY the condition (natively:
        when the failing input satisfies it).  known_findings.json matches tagged names only, so a failure of the same
        clause anywhere outside the region is still an ordinary VIOLATION."""
        return {}

    # ---- modular use: the contract replaces the body at call sites of verified callers ----
    def requires(self, S, case, env):
        """[(name, formula)] -- assumed by setup(), proved at every call site that uses the contract"""
        return ()

    def bind(self, *args, **kwargs):
        """actual call arguments -> (case, env); raise NotImplementedError when the call is outside the contract's cases"""
        raise NotImplementedError

    def fresh_result(self, S, case, env):
        raise NotImplementedError

    def bound_lengths(self, case):
        return list(self.bound_names)

    @property
    def name(self):
        return type(self).__name__
