"""dverif -- contract-based deductive verification of perrette/dimarray.

The real source files under /repo/dimarray are compiled unmodified on every run
and executed by CPython in a namespace where ``numpy`` is the symbolic contract
library ``dverif.symnp`` and a handful of builtins (len, isinstance, type, ...)
are symbolic-aware.  Every branch on a symbolic condition is decided by a
decision schedule (path replay); every path's obligations are discharged by z3.
See /verif/DESIGN.md.
"""
