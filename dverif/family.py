"""Tier B: bounded native enumeration (runs under /venv/bin/python, real NumPy, real dimarray).

The contract's own ``setup`` defines the input family: every input constructor of the spec API
(``S.length``, ``S.array1d``, ``S.real`` ...) is a *choice point* over a small candidate set, ``S.assume``
rejects candidates outside the contract's domain, and the enumerator walks the choice points depth-first
(an odometer), exhaustively up to a cap and by seeded sampling beyond it.  Every evaluated input can be
exported in the replay format, so a failing one *is* a replay file.

This is a bounded check: it is labelled as such everywhere and never counted as proved.
"""
import itertools
import random

import numpy as np

from .natspec import NatSpec, PreconditionNotMet

ALPHABET = {
    "f": [0.0, 0.5, 1.0, 2.0, 3.5],
    "i": [0, 1, 2, 3, 5],
    "I": [-1, 0, 1, 2, 3],
    "O": ["a", "b", "c", "d", "e"],
    "b": [False, True],
}
SCALARS = {
    "real": [-1.0, 0.0, 0.25, 0.5, 1.0, 1.5, 2.0, 3.5, 4.0],
    "int": [-2, -1, 0, 1, 2, 3],
    "str": ["a", "b", "c", "e", "zz"],
    "bool": [False, True],
}


class Exhausted(Exception):
    pass


class FamilySpec(NatSpec):
    """NatSpec whose inputs come from a choice schedule instead of a decoded model."""
    mode = "nat"

    def __init__(self, schedule, maxlen, rng=None):
        NatSpec.__init__(self, {})
        self.schedule = schedule          # list of chosen indices (prefix); extended with 0s as needed
        self.pos = 0
        self.arity = []                   # number of alternatives at each choice point met
        self.maxlen = maxlen
        self.rng = rng                    # when set: random choices (sampling mode)
        self.export = {}                  # replay-format description of the chosen inputs

    def _choose(self, k):
        if k <= 0:
            raise Exhausted()
        if self.rng is not None:
            c = self.rng.randrange(k)
            self.schedule.append(c)
        else:
            if self.pos >= len(self.schedule):
                self.schedule.append(0)
            c = self.schedule[self.pos]
        self.pos += 1
        self.arity.append(k)
        return c

    # -- scalars ---------------------------------------------------------------
    def _scalar(self, name, typ):
        cands = SCALARS[typ]
        v = cands[self._choose(len(cands))]
        self.export[name] = {"type": typ, "value": v}
        return v

    def int(self, name):
        return self._scalar(name, "int")

    def real(self, name):
        return self._scalar(name, "real")

    def strlabel(self, name):
        return self._scalar(name, "str")

    def bool(self, name):
        return self._scalar(name, "bool")

    def _str(self, code):
        return code               # strings are chosen directly (no int coding natively)

    def length(self, name, minimum=0):
        n = minimum + self._choose(self.maxlen - minimum + 1)
        self.export[name] = {"type": "int", "value": n}
        return n

    # -- arrays ------------------------------------------------------------------
    def array1d(self, name, kind, n=None):
        if n is None:
            n = self.length(name + ".n")
        n = int(n)
        alpha = ALPHABET[kind]
        total = len(alpha) ** n
        c = self._choose(total)
        vals = []
        for _ in range(n):
            vals.append(alpha[c % len(alpha)])
            c //= len(alpha)
        k = "i" if kind == "I" else kind
        self.export[name] = {"type": "array1d", "kind": k, "elem": {"f": "real", "i": "real", "I": "int", "O": "str", "b": "bool"}[kind], "values": list(vals)}
        if kind == "O":
            a = np.empty(n, dtype=object)
            a[:] = vals
            return a
        return np.array(vals, dtype={"f": float, "i": int, "I": int, "b": bool}[kind])

    def arraynd(self, name, kind, shape):
        shape = tuple(int(s) for s in shape)
        size = int(np.prod(shape)) if shape else 1
        pat = 0
        if kind == "b":
            c = self._choose(2 ** min(size, 12))
            vals = [(c >> t) & 1 == 1 for t in range(size)]
        else:
            # data: pairwise distinct values (any mix-up of cells is visible), optionally one NaN
            # float data: pairwise distinct values with a NaN pattern -- none / first cell / last cell / the whole first slice
            # along the first dimension / the whole first slice along the last dimension / everything
            npat = 6 if kind == "f" and size else 1
            pat = self._choose(npat)
            vals = [10.0 * (t + 1) + 0.25 for t in range(size)] if kind == "f" else [7 * (t + 1) for t in range(size)]
            nan = float("nan")
            if pat == 1:
                vals[0] = nan
            elif pat == 2:
                vals[-1] = nan
            elif pat == 3 and shape:
                inner = size // shape[0] if shape[0] else 0
                for t in range(inner):
                    vals[t] = nan
            elif pat == 4 and shape:
                last = shape[-1]
                for t in range(0, size, last if last else 1):
                    vals[t] = nan
            elif pat == 5:
                vals = [nan] * size
        dt = {"f": float, "i": int, "I": int, "b": bool, "O": object}[kind]
        arr = np.array(vals, dtype=dt).reshape(shape) if shape else np.array(vals[0], dtype=dt)
        self.export[name] = {"type": "arraynd", "kind": "i" if kind == "I" else kind, "shape": list(shape),
                             "values": [None if (isinstance(v, float) and v != v) else v for v in vals] if shape else vals[0],
                             "nan_pattern": int(pat)}
        return arr

    def fresh_int(self, name):
        raise RuntimeError("fresh symbols have no native meaning")

    def tag(self, arr, key, value):
        pass


def _next_schedule(schedule, arity):
    """odometer increment over the choice points actually met; None when exhausted"""
    s = list(schedule[:len(arity)])
    i = len(s) - 1
    while i >= 0:
        if s[i] + 1 < arity[i]:
            s[i] += 1
            return s[:i + 1]
        i -= 1
    return None


def enumerate_case(contract, case, evaluate, maxlen, cap, seed, stop_after_failures=5, time_limit=None):
    """Run `evaluate(S)` (-> result dict with 'outcome' and 'clauses') over the family of `case`.  `time_limit` (seconds) ends the
    enumeration early: the bound then reported is what was evaluated (`stopped_by_time_limit`), never `exhaustive`."""
    import time as _time
    t_end = None if not time_limit else _time.time() + time_limit
    stats = {"stopped_by_time_limit": False, "evaluations": 0, "rejected_by_requires": 0, "outcomes": {}, "classes": set(), "failures": [],
             "exhaustive": False, "sampled": 0, "errors": []}

    def one(S):
        try:
            res = evaluate(S)
        except PreconditionNotMet:
            stats["rejected_by_requires"] += 1
            return
        except Exhausted:
            return
        if res.get("outcome") == "precondition-not-met":
            stats["rejected_by_requires"] += 1
            return
        stats["evaluations"] += 1
        oc = res.get("outcome")
        stats["outcomes"][oc] = stats["outcomes"].get(oc, 0) + 1
        lens = tuple(len(d["values"]) if d.get("type") == "array1d" else None for d in S.export.values())
        stats["classes"].add((oc, lens))
        if res.get("spec_error") or oc == "runner-error":
            if len(stats["errors"]) < 3:
                stats["errors"].append({"inputs": S.export, "error": res.get("spec_error") or res.get("reason")})
            return
        bad = [k for k, v in res.get("clauses", {}).items() if v is False and not k.startswith("canary.")]
        if bad:
            # failures inside a recorded region (clause names tagged `@region`) must never use up the room of the others
            tagged = all("@" in k for k in bad)
            kept = [f for f in stats["failures"] if f["tagged"] == tagged]
            if len(kept) < stop_after_failures:
                stats["failures"].append({"clauses": bad, "inputs": dict(S.export), "outcome": oc, "exc": res.get("exc"), "tagged": tagged})

    # Phase 1: lexicographic (odometer) enumeration.  It is exhaustive when it finishes within a third of the budget.  When
    # it does not, a lexicographic PREFIX is a poor sample (the early choice points -- array lengths and labels -- hardly
    # move while the late ones cycle), so phase 2 spends the rest of the budget on uniform random choices at every point.
    schedule = []
    n = 0
    first = max(cap // 3, 1)
    while schedule is not None and n < first:
        if t_end is not None and n % 16 == 0 and _time.time() > t_end:
            stats["stopped_by_time_limit"] = True
            break
        S = FamilySpec(list(schedule), maxlen)
        one(S)
        n += 1
        schedule = _next_schedule(S.schedule, S.arity)
    if schedule is None:
        stats["exhaustive"] = True
    elif not stats["stopped_by_time_limit"]:
        rng = random.Random(seed)
        for k in range(cap - first):
            if t_end is not None and k % 16 == 0 and _time.time() > t_end:
                stats["stopped_by_time_limit"] = True
                break
            S = FamilySpec([], maxlen, rng=rng)
            one(S)
            stats["sampled"] += 1
    stats["distinct_nontrivial"] = len(stats["classes"])
    del stats["classes"]
    return stats
