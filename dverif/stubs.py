"""Lazy stub descriptors usable from contract modules under both interpreters."""


class stub_of(object):
    """`uses = (stub_of(CalleeContract, also=(...)),)`: while the caller is verified, the callee is
    replaced by its contract.  Under the native interpreter this is inert (the real callee runs)."""

    def __init__(self, contract_cls, also=()):
        self.contract_cls = contract_cls
        self.also = tuple(also)
        self._stub = None

    def install(self):
        from . import engine
        if self._stub is None:
            self._stub = engine.contract_stub(self.contract_cls, self.also)
        self._stub.install()

    def uninstall(self):
        if self._stub is not None:
            self._stub.uninstall()
